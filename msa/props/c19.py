"""C19 - samplers stay on their domain; Bezier evaluation goes through de Casteljau; grid-consistent exports."""
from __future__ import annotations
import ast, itertools
from fractions import Fraction
from .. import au, sym, order
from ..sym import Poly
from ..core import AnalysisError
from ..rules import gen_c1419 as G
from ..rules import dim_c1419 as D
from ..rules import hi_exec as X
from ..rules import hi_norm as N
from ..rules import hi_conn as C
from ..rules import hi_flow as F
from ..rules.hi_conn import GenSpec
from .c14 import dim_obligations

SAMP, BEZ, AABB = "sampling", "splines.bezier", "geometry.aabb"

EXPLANATION = (
    "Static conformance of the samplers and of the Bezier module, decided on the source only. A forward abstract interpretation "
    "(length-degree, affine weight, must-dependence, array shape) of each sampler decides that sums are dimensionally homogeneous, "
    "that the returned coordinates have degree 1, are translated with the centre / box and depend on every geometric parameter on "
    "every path (one run per sampling mode), and that the returned array has n_pts rows which the fill loop covers (R-DIM, count). "
    "Data-flow rules read the definitions that reach a use through every binding form (assignments, unpacking, in-place updates, "
    "walrus, branches, loop / comprehension / zip targets) and see through private helpers of the module, nested functions, "
    "NamedTuple / dataclass records, plain value classes, generator helpers and dispatch tables (calls are replaced by the value "
    "they return; match statements, map / partial / __getitem__ are first rewritten into their if / comprehension / subscript "
    "equivalents, rules/hi_norm.py), so loop, vectorised and delegated spellings give the same tree: barycentric "
    "combinations are converted to polynomial forms (weights sum to 1 identically, non-negative on the unit box of the draws), the "
    "combined vertices are those of the drawn element, the draw weights are length / area of the current geometry divided by their "
    "own sum. Control points are consumed only through de_casteljau, whose range guard is compared with `t<0 or t>1` under every "
    "ordering of (t,0,1) and which never writes through its argument. BezierPatch.as_surface is evaluated over its index domain for "
    "small unequal resolutions and the generated tables are checked (range, grid topology, counts, uv association). "
    "Distributions, hull containment and Bernstein equality are not decided.")

RULES = {
    "C19-D1": "sampler coordinates: every sum is homogeneous in length, the result has degree 1 and affine weight 1 and depends on "
              "centre / radius / box position and extent on every path and in every mode; AABB.span == maxi - mini",
    "C19-N1": "every array returned by a sampler has n_pts rows (leading dimension derived through the allocation, stacking, "
              "transposition, indexing and broadcasting) and the loop that fills it row by row runs over n_pts items",
    "C19-B1": "in a barycentric combination the coefficients of the points sum to 1 identically and there is no free term; "
              "de_casteljau blends the next entry with weight t and the current entry with weight 1-t",
    "C19-B2": "the barycentric coefficients are non-negative at every corner of the unit box of the random draws "
              "(the sample lies in the edge / face)",
    "C19-F1": "the vertices combined for a sample are those of the element drawn for it (row of edges / faces of the sampled mesh "
              "selected by the drawn value, never by the sample counter); returned normals are face_normals of the same drawn faces "
              "(the full per-face array is never read with the inverse index of np.unique(drawn), which numbers the distinct drawn faces)",
    "C19-W1": "elements are drawn by choice(len(container), ..., p=w / sum(w)): population = number of elements of the sampled "
              "container, weights present and divided by their own sum",
    "C19-W2": "every definition of the draw weights that can reach choice(...) is computed in the same call from "
              "edge_length(mesh) / face_area(mesh); weights are never read back from a stored attribute, "
              "which would be stale after the vertices moved; the weights are a homogeneous function of the measure: it is never clamped, "
              "compared or shifted with a non-zero absolute constant (the distribution over the elements does not depend on the unit of length)",
    "C19-E1": "AABB.is_empty is the per-axis predicate `some axis has mini >= maxi` (decided by evaluating its expression on every "
              "box with coordinates in {0,1,2}, dimensions 1-3), and sample_AABB raises on an empty box at the top level, before "
              "any mode branch or draw (a test written on the corners themselves is evaluated on the same boxes: every empty one must raise)",
    "C19-G1": "control points are never operands of arithmetic outside de_casteljau; evaluation methods return "
              "de_casteljau results and forward their own parameters; the range guard of de_casteljau is `t<0 or t>1`, raises, "
              "precedes every rebinding of t; de_casteljau never stores through (an alias of) its argument, never updates an entry "
              "of a shallow copy in place, and a blend stored in place goes to a float array",
    "C19-P1": "sample_AABB, grid mode: the per-axis resolution handed to linspace is the *rounded* dim-th root of n_pts (the number of "
              "points is the nearest perfect power), not its truncation or ceiling, wherever it is used (linspace count, index grid, divisor); "
              "no divisor of the grid coordinates vanishes when the resolution is 1 (one node per axis: n_pts = 1, 2 in 2D ...)",
    "C19-S1": "BezierCurve.as_polyline (custom_pos=None, small n_pts): n_pts vertices chained by the edges (i,i+1), the `t` attribute of "
              "vertex k is the parameter it was evaluated at, the parameter linspace is consumed entirely; "
              "BezierPatch.as_surface (evaluated for small unequal resolutions): all indices in [0,|V|), the faces form a consistently "
              "oriented disk, |V| = n1*n2, (n1-1)(n2-1) quads, the uv attribute key addresses the vertex evaluated at the same "
              "parameters, parameter samples are consumed over their whole linspace",
}

ASSUMPTIONS = [
    "sample_AABB modes are the literals listed in its check_argument call; grid-mode row count (nearest perfect power) is not decided",
    "loops over the samples are assumed to run (n_pts >= 1); a path taken only for a count of zero whose result has zero rows carries no obligation",
    "a function expression / partial argument is not rebound between the creation of a map / generator and its consumption",
    "as_surface resolutions n1, n2 in [2, 5] (bounded evaluation)",
]

SAMPLERS = {
    "sample_sphere": {"geo": {"center": (1, 1), "radius": (1, 0)}, "require": ["center", "radius"]},
    "sample_ball": {"geo": {"center": (1, 1), "radius": (1, 0)}, "require": ["center", "radius"]},
    "sample_polyline": {"geo": {}, "require": ["mesh"]},
    "sample_surface": {"geo": {}, "require": ["mesh"]},
}
BOX_GEO = {"box.mini": (1, 1), "box.maxi": (1, 1), "box.center": (1, 1), "box.span": (1, 0)}
ELEMENT = (("sample_polyline", "edges", "edge_length"), ("sample_surface", "faces", "face_area"))


def run(ctx):
    N.normalise(ctx.repo, [SAMP, BEZ, AABB])
    from .c14 import guarded
    guarded(ctx, "C19-D1", SAMP, "homogeneity, dependence and row counts of the samplers", d1_n1_samplers)
    guarded(ctx, "C19-D1", AABB, "AABB accessors", aabb_accessors)
    guarded(ctx, "C19-B1", SAMP, "barycentric combinations", b1_barycentric)
    guarded(ctx, "C19-F1", SAMP, "drawn elements", f1_drawn_element)
    guarded(ctx, "C19-W1", SAMP, "draw weights", w_weights)
    guarded(ctx, "C19-E1", AABB, "empty boxes", e1_empty_box)
    guarded(ctx, "C19-P1", SAMP, "grid resolution", p1_grid_resolution)
    guarded(ctx, "C19-G1", BEZ, "de Casteljau evaluation", g1_de_casteljau)
    guarded(ctx, "C19-S1", BEZ, "connectivity of as_surface", s1_as_surface)
    ctx.declare_unsupported("BezierCurve.as_polyline is decided for custom_pos=None, 3D control points and n_pts in [2, 5] (bounded evaluation); "
                            "with custom_pos the vertex count follows the given parameters, not n_pts")
    ctx.declare_unsupported("sample_AABB(mode='grid'): number of rows res**dim (nearest perfect power) is not decided")
    ctx.declare_unsupported("statistical behaviour of the draws (numpy choice / random) is trusted, only the wiring of the weights is decided")
    ctx.declare_unsupported("BezierPatch.as_surface is decided for resolutions in [2, 5] only (bounded evaluation)")


# ----------------------------------------------------------------------- C19-D1 / C19-N1
def n1_obligations(ctx, key, fn, it, label=""):
    n = 0
    npts = Poly.atom("n_pts")
    for node, v in it.returns:
        for x in (v.items if v.items else [v]):
            tgt = x.verts if x.verts is not None else x
            if tgt.shape is None or not tgt.shape or tgt.shape[0] is None:
                continue
            rows = tgt.shape[0]
            if isinstance(rows, Poly) and rows.is_zero():
                continue        # an empty result answered up front (n_pts == 0 ...)
            n += 1
            alts = sorted(rows, key=str) if isinstance(rows, D.AltDim) else [rows]
            vague = lambda x: not isinstance(x, Poly) or any("@" in a or a.startswith("⟨") for a in x.atoms())
            if any(vague(x) for x in alts) and not all(D.same_dim(x, npts) for x in alts):
                ctx.undecided("C19-N1", ctx.site(key[0], fn, node), f"row count of an array returned by {key[1]}{label} is not comparable with n_pts",
                              f"leading dimension `{rows}`")
                continue
            ctx.check(all(D.same_dim(x, npts) for x in alts), "C19-N1", ctx.site(key[0], fn, node),
                      f"{key[1]}{label} returns `{rows}` rows instead of n_pts",
                      f"`{au.src(node)[:100]}`: leading dimension derived from the allocation is {rows}",
                      note=f"{key[1]}{label}: returned rows = n_pts")
    for node, rows, trip, name in it.fills:
        if rows is None or trip is None:
            continue
        alts = sorted(trip, key=str) if isinstance(trip, D.AltDim) else [trip]
        ralts = sorted(rows, key=str) if isinstance(rows, D.AltDim) else [rows]
        vague = lambda x: not isinstance(x, Poly) or any("@" in a or (a.startswith("⟨") and "n_pts" in a) for a in x.atoms())
        if any(vague(x) for x in alts + ralts):
            continue
        n += 1
        good = all(a == r for a in alts for r in ralts) and all(r == npts for r in ralts)
        ctx.check(good, "C19-N1", ctx.site(key[0], fn, node),
                  f"{key[1]}: the loop filling an array of `{rows}` rows visits `{trip}` of them",
                  "rows that the loop does not reach keep their initial value (zeros): fewer than n_pts samples",
                  note=f"{key[1]}: fill loop covers {rows} rows")
    return n


def d1_n1_samplers(ctx):
    for name, spec in SAMPLERS.items():
        key = (SAMP, name)
        fn = ctx.repo.func(*key)
        it = D.Interp(fn, D.Config(spec["geo"], ctx.repo, SAMP)).run()
        dim_obligations(ctx, "C19-D1", key, fn, it, spec["geo"], require=spec["require"])
        k = n1_obligations(ctx, key, fn, it)
        if k == 0:
            ctx.undecided("C19-N1", ctx.site(SAMP, fn), f"row count of the array returned by {name} is not derivable",
                          "no returned value has a leading dimension the shape domain can follow")
    # sample_AABB: one run per mode
    key = (SAMP, "sample_AABB")
    fn = ctx.repo.func(*key)
    site = ctx.site(SAMP, fn)
    modes = None
    fl_modes = flow_of(ctx, SAMP, fn)
    for c in au.calls(fn):
        if au.call_tail(c) == "check_argument" and len(c.args) >= 4 and au.src(c.args[1]) == "mode":
            modes = au.literal(c.args[3])
            if not modes:
                # the admissible modes named through a constant / the keys of a dispatch table
                r_ = F.strip_calls(fl_modes.resolve(c.args[3], at=c), ("list", "tuple", "sorted", "keys", "set", "frozenset"))
                if isinstance(r_, ast.Dict) and all(isinstance(k_, ast.Constant) for k_ in r_.keys):
                    modes = [k_.value for k_ in r_.keys]
                else:
                    modes = au.literal(r_)
    if not modes or "mode" not in au.params(fn):
        ctx.undecided("C19-D1", site, "list of sampling modes of sample_AABB not found",
                      "check_argument('mode', mode, str, [...]) gives the modes to analyse")
        modes = []
    for mode in modes:
        it = D.Interp(fn, D.Config(BOX_GEO, ctx.repo, SAMP, consts={"mode": mode})).run()
        dim_obligations(ctx, "C19-D1", key, fn, it, BOX_GEO, require=[])
        # the box must reach the result: position and extent
        finals = []
        for node, v in it.returns:
            if not v.empty:
                finals.append((node, v.verts if v.verts is not None else v))
        bad = unknown = None
        for node, v in finals:
            if v.deps is None:
                unknown = unknown or node
                continue
            pos = v.deps & {"box.mini", "box.maxi", "box.center"}
            two = v.deps & set(BOX_GEO)
            if not pos or len(two) < 2:
                if v.opaque or v.deg is None:
                    unknown = unknown or node
                else:
                    bad = bad or (node, sorted(two))
        if not finals:
            ctx.undecided("C19-D1", site, f"sample_AABB(mode='{mode}') returns nothing the analysis can read", "")
        elif bad:
            ctx.fail("C19-D1", ctx.site(SAMP, fn, bad[0]),
                     f"the points returned by sample_AABB(mode='{mode}') do not depend on the position and extent of the box",
                     f"of the box, {' and '.join(bad[1]) if bad[1] else 'nothing'} reaches the result: the samples stay in a fixed cube whatever box is given "
                     f"(e.g. AABB([2,2],[3,4]) still yields points of [0,1]^2)")
        elif unknown is not None:
            ctx.undecided("C19-D1", ctx.site(SAMP, fn, unknown), f"dependence of sample_AABB(mode='{mode}') on the box is not derivable", "")
        else:
            ctx.ok("C19-D1", site, f"sample_AABB(mode='{mode}'): box position and extent reach the result")
        if mode != "grid":
            k = n1_obligations(ctx, key, fn, it, f"(mode='{mode}')")
            if k == 0:
                ctx.undecided("C19-N1", site, f"row count of sample_AABB(mode='{mode}') is not derivable", "")


def helpers_of(ctx, mod, fn):
    """private helpers a function may delegate to: the underscore functions of its module and, for a method, the underscore methods of its class
    (`self.name`).  Calls to them are seen through by the data-flow resolver (rules/hi_flow.py)."""
    m = ctx.repo.module(mod)
    owner = next((q.rsplit(".", 1)[0] for q, f in m.funcs.items() if f is fn and "." in q), None)
    out = {}
    for q, f in m.funcs.items():
        if f is fn:
            continue
        if "." not in q:
            if q.startswith("_"):
                out[q] = f
        elif owner is not None and q.rsplit(".", 1)[0] == owner:
            name = q.rsplit(".", 1)[1]
            if name.startswith("_") and not name.startswith("__") and not any(isinstance(d, ast.Name) and d.id == "property" for d in f.decorator_list) \
                    and name not in KEEP_METHODS:
                out["self." + name] = f
    for q, c in m.classes.items():
        if "." not in q and (F.record_info(c) is not None or F.object_info(c) is not None):
            out["record:" + q] = c
    for n, v in F.module_constants(m.tree).items():
        out["const:" + n] = v
    return out


KEEP_METHODS = ("_evaluate_row",)       # methods the rules look at by name


def flow_of(ctx, mod, fn):
    return F.Flow(fn, helpers_of(ctx, mod, fn))


def aabb_accessors(ctx):
    """`mini + span * u` spans the box iff span == maxi - mini."""
    rets = {}
    helpers = _aabb_helpers(ctx)
    for name in ("mini", "maxi", "span"):
        fn = ctx.repo.func(AABB, "AABB." + name)
        fl = F.Flow(fn)
        r = [as_operators(inline_self(fl.resolve(st.value, at=st), helpers)) for st in au.stmts(fn.body) if isinstance(st, ast.Return) and st.value is not None]
        rets[name] = (fn, r[0] if len(r) == 1 else None)
    fn, span = rets["span"]
    site = ctx.site(AABB, fn)
    if any(v[1] is None for v in rets.values()):
        ctx.undecided("C19-D1", site, "AABB.mini / maxi / span are no longer single-return accessors", "")
        return
    props = _aabb_props(ctx)

    def poly(e, busy=()):
        def atom_of(n):
            if isinstance(n, ast.Attribute) and isinstance(n.value, ast.Name) and n.value.id == "self":
                if n.attr in props and n.attr not in busy and len(busy) < 6:
                    return poly(props[n.attr], busy + (n.attr,))       # a property defined from the stored corners
                return au.src(n)
            if isinstance(n, ast.Subscript) and isinstance(au.const(n.slice), int) and isinstance(n.value, ast.Attribute) \
                    and isinstance(n.value.value, ast.Name) and n.value.value.id == "self":
                return au.src(n)        # one of the corners kept in a pair
            if isinstance(n, ast.Attribute) and au.chain(n) and au.chain(n)[0] == "self" and len(au.chain(n)) == 3:
                return au.src(n)        # a field of a record holding the corners (self._bounds.lower)
            if isinstance(n, ast.Call) and au.call_tail(n) in ("Vec", "array", "asarray") and len(n.args) == 1:
                return poly(n.args[0], busy)
            return None
        return sym.to_poly(e, atom_of)
    try:
        lhs, rhs = poly(span), poly(rets["maxi"][1]) - poly(rets["mini"][1])
    except Exception:
        ctx.undecided("C19-D1", site, "AABB.span is not an arithmetic form of the two corners", au.src(span))
        return
    if any(a.startswith("⟨") for a in lhs.atoms() | rhs.atoms()):
        ctx.undecided("C19-D1", site, "AABB.span is not an arithmetic form of the two corners", au.src(span))
        return
    ctx.check(lhs == rhs, "C19-D1", site, f"AABB.span returns `{lhs}` which is not maxi - mini",
              "sample_AABB maps the unit cube by mini + span*u; with another span the samples leave the box",
              note="AABB.span == maxi - mini")


def _aabb_props(ctx):
    """single-return properties and zero-argument helper methods of AABB: name -> returned expression (helper calls inlined)"""
    cls = ctx.repo.cls(AABB, "AABB")
    props, helpers = {}, {}
    for m in cls.body:
        if not isinstance(m, ast.FunctionDef) or m.name.startswith("__"):
            continue
        is_prop = any(isinstance(d, ast.Name) and d.id == "property" for d in m.decorator_list)
        if not is_prop and (len(au.params(m, skip_self=True)) > 0 or m.decorator_list):
            continue
        fl = F.Flow(m)
        r = [fl.resolve(st.value, at=st) for st in au.stmts(m.body) if isinstance(st, ast.Return) and st.value is not None]
        if len(r) == 1:
            (props if is_prop else helpers)[m.name] = r[0]
    for _ in range(3):
        helpers = {k: inline_self(v, helpers) for k, v in helpers.items()}
    return {k: as_operators(inline_self(v, helpers)) for k, v in props.items()}


def inline_self(e, helpers):
    """`self.h()` -> the expression h returns;  `(a, b)[k]` -> its k-th element"""
    class T(ast.NodeTransformer):
        def visit_Call(self, node):
            self.generic_visit(node)
            if isinstance(node.func, ast.Attribute) and isinstance(node.func.value, ast.Name) and node.func.value.id == "self" \
                    and not node.args and not node.keywords and node.func.attr in helpers:
                return F.clone(helpers[node.func.attr])
            return node

        def visit_Subscript(self, node):
            self.generic_visit(node)
            k = au.const(node.slice)
            if isinstance(node.value, (ast.Tuple, ast.List)) and isinstance(k, int) and not isinstance(k, bool) and -len(node.value.elts) <= k < len(node.value.elts):
                return node.value.elts[k]
            return node
    return T().visit(F.clone(e)) if e is not None else None


def _aabb_helpers(ctx):
    cls = ctx.repo.cls(AABB, "AABB")
    helpers = {}
    for m in cls.body:
        if isinstance(m, ast.FunctionDef) and not m.name.startswith("__") and not m.decorator_list and not au.params(m, skip_self=True):
            fl = F.Flow(m)
            r = [fl.resolve(st.value, at=st) for st in au.stmts(m.body) if isinstance(st, ast.Return) and st.value is not None]
            if len(r) == 1:
                helpers[m.name] = r[0]
    for _ in range(3):
        helpers = {k: inline_self(v, helpers) for k, v in helpers.items()}
    return helpers


# ----------------------------------------------------------------------- shared readers (role based)
CONVERT = ("asarray", "array", "asanyarray", "ascontiguousarray", "list", "tuple", "as_array", "copy", "astype", "asfarray", "reshape",
           "view", "squeeze", "atleast_2d", "float64", "tolist")


def _strip_data(e):
    """peel array conversions and the `._data` accessor of a container"""
    while True:
        e2 = F.strip_calls(e, CONVERT)
        if isinstance(e2, ast.Attribute) and e2.attr == "_data":
            e2 = e2.value
        if e2 is e:
            return e
        e = e2


KNOWN_CONTAINERS = ("vertices", "edges", "faces", "cells", "face_corners", "cell_corners")


def _container_of(e, mesh_p):
    """`mesh.K` (possibly converted) for an element container K -> K, else None"""
    e = _strip_data(e)
    if isinstance(e, ast.Attribute) and isinstance(e.value, ast.Name) and e.value.id == mesh_p and e.attr in KNOWN_CONTAINERS:
        return e.attr
    return None


def _vertex_reads(e, mesh_p):
    """Subscript nodes of a resolved expression that read vertex coordinates of the sampled mesh"""
    return [n for n in ast.walk(e) if isinstance(n, ast.Subscript) and _container_of(n.value, mesh_p) == "vertices"]


def _is_point(n, mesh_p):
    """a (possibly further sliced) read of vertex coordinates: `V[idx]`, `V[idx][:, k]` with V the vertex array of the mesh"""
    if not isinstance(n, ast.Subscript):
        return False
    b = n
    while isinstance(b, ast.Subscript):
        if _container_of(b.value, mesh_p) == "vertices":
            return True
        b = b.value
    return False


def _points(e, mesh_p):
    """outermost point reads of an expression"""
    out, todo = [], [e]
    while todo:
        n = todo.pop()
        if _is_point(n, mesh_p):
            out.append(n)
            continue
        todo.extend(ast.iter_child_nodes(n))
    return out


DRAWS = ("random", "random_sample", "rand", "uniform")


def _is_draw(e):
    if isinstance(e, ast.Call) and au.call_tail(e) in DRAWS:
        if au.call_tail(e) == "uniform":
            lo = e.args[0] if e.args else next((k.value for k in e.keywords if k.arg == "low"), ast.Constant(0))
            hi = e.args[1] if len(e.args) > 1 else next((k.value for k in e.keywords if k.arg == "high"), ast.Constant(1))
            return au.const(lo) == 0 and au.const(hi) == 1
        return not any(k.arg in ("low", "high") for k in e.keywords)
    return False


def _unit_names(fn):
    """names bound (directly or by unpacking) to draws of [0,1)"""
    out = set()
    for st in au.stmts(fn.body):
        if isinstance(st, ast.Assign) and _is_draw(st.value):
            for t in st.targets:
                out |= set(au.assigned_names(t))
    for n in au.walk(fn):
        if isinstance(n, ast.NamedExpr) and _is_draw(n.value):
            out.add(n.target.id)
    return out


def _strip_broadcast(e):
    """`x[:, None]`, `x[:, np.newaxis]`, `x[..., None]`, `x.reshape(-1, 1)`, `x.reshape((n, 1))` -> x"""
    while True:
        if isinstance(e, ast.Subscript) and isinstance(e.slice, ast.Tuple) and e.slice.elts:
            last = e.slice.elts[-1]
            isnew = (isinstance(last, ast.Constant) and last.value is None) or (isinstance(last, ast.Attribute) and last.attr == "newaxis")
            rest = e.slice.elts[:-1]
            if isnew and all((isinstance(x, ast.Slice) and x.lower is None and x.upper is None) or (isinstance(x, ast.Constant) and x.value is Ellipsis)
                             for x in rest):
                e = e.value
                continue
        if isinstance(e, ast.Call) and au.call_tail(e) == "reshape" and isinstance(e.func, ast.Attribute) and e.args:
            shp = e.args[0].elts if len(e.args) == 1 and isinstance(e.args[0], (ast.Tuple, ast.List)) else e.args
            if len(shp) == 2 and au.const(shp[1]) == 1:
                e = e.func.value
                continue
        return e


# ----------------------------------------------------------------------- C19-B1 / B2
def bary_check(ctx, modname, fn, st, expr, point_key, unit_pred, label, weights_spec=None):
    """expr: the resolved combination.  point_key(node) -> text naming a point atom (or None).
    Returns the weights dict {point: Poly} or None."""
    site = ctx.site(modname, fn, st)
    pts_seen = {}

    def atom_of(n):
        n2 = _strip_broadcast(n)
        if n2 is not n:
            return sym.to_poly(n2, atom_of)
        k = point_key(n)
        if k is not None:
            pts_seen[k] = n
            return k
        if isinstance(n, ast.Subscript):
            return "⟦" + au.src(n) + "⟧"
        if isinstance(n, ast.Call):
            return "⟨" + au.src(n) + "⟩"
        return None
    P = sym.to_poly(expr, atom_of)
    pts = sorted(pts_seen)
    hidden = [a for a in P.atoms() if a not in pts_seen and any(p.strip("⟦⟧") in a for p in pts)]
    if len(pts) < 2 or hidden:
        ctx.undecided("C19-B1", site, f"{label}: barycentric combination of the points not found",
                      f"`{au.src(expr)[:160]}` does not combine at least two points arithmetically")
        return None
    weights = {}
    rest = P
    ok = True
    for p in pts:
        if P.degree_in(p) != 1:
            ok = False
        w = P.coeff(p)
        if any(a in pts_seen for a in w.atoms()):
            ok = False
        weights[p] = w
        rest = rest - w * Poly.atom(p)
    total = Poly()
    for w in weights.values():
        total = total + w
    good = ok and rest.is_zero() and total == Poly.const(1)
    if not good:
        scal_all = set(rest.atoms()) | set((total - 1).atoms())
        for w in weights.values():
            scal_all |= set(w.atoms())
        strange = sorted(a for a in scal_all if a not in pts_seen and not unit_pred(a))
        if strange or not ok:
            ctx.undecided("C19-B1", site, f"{label}: the weights of the combined points are not made of the random draws only",
                          f"`{au.src(expr)[:160]}`: {strange[:4]} cannot be followed")
            return None
    ctx.check(good, "C19-B1", site,
              f"{label}: the coefficients of the combined points sum to `{total}`" + ("" if rest.is_zero() else f" with free term `{rest}`") + ", not identically 1",
              f"`{au.src(expr)[:200]}` = " + " + ".join(f"({w})*{p}" for p, w in weights.items())[:300] + ": the sample is not an affine "
              "combination of the points, it leaves the edge / face (and moves when the mesh is translated)",
              note=f"{label}: weights {', '.join(str(w) for w in weights.values())} sum to 1")
    if not good:
        return None
    # B2: non-negativity on the unit box
    scal = sorted(set().union(*[w.atoms() for w in weights.values()]))
    if not scal:
        return weights
    known = [unit_pred(a) for a in scal]
    if not all(known) or any(w.degree_in(a) > 1 for w in weights.values() for a in scal):
        ctx.declare_unsupported(f"{label}: sign of the weights not decided (an atom of {scal} has no known range or the form is not multilinear)")
        return weights
    worst = None
    for corner in itertools.product((0, 1), repeat=len(scal)):
        env = dict(zip(scal, corner))
        for p, w in weights.items():
            if w.eval(env) < 0:
                worst = (p, w, env)
    ctx.check(worst is None, "C19-B2", site,
              f"{label}: the weight `{worst[1] if worst else ''}` of a point becomes negative on the unit box of the draws",
              f"at {G.fmt_env(worst[2]) if worst else ''} the weight of {worst[0] if worst else ''} is "
              f"{worst[1].eval(worst[2]) if worst else ''}: the sample falls outside the edge / face",
              note=f"{label}: weights >= 0 at the {2 ** len(scal)} corners of the draws {scal}")
    return weights


def _combinations(fn, fl, mesh_p, keep, min_points=2):
    """[(stmt, resolved expression)] of the values that combine >= 2 vertex reads and flow to the result of the sampler:
    values stored into rows of a local array, and values bound to a returned / exported name"""
    out = []
    seen = set()
    for st in au.stmts(fn.body):
        vals = []
        if isinstance(st, ast.Assign) and len(st.targets) == 1 and isinstance(st.targets[0], ast.Subscript) \
                and isinstance(st.targets[0].value, ast.Name):
            vals.append(st.value)
        elif isinstance(st, ast.Return) and st.value is not None:
            vals += list(st.value.elts[:1]) if isinstance(st.value, ast.Tuple) else [st.value]
        elif isinstance(st, ast.AugAssign) and isinstance(st.target, ast.Attribute) and st.target.attr == "vertices":
            vals.append(st.value)
        elif isinstance(st, ast.Expr) and isinstance(st.value, ast.Call) and au.call_tail(st.value) in ("append", "extend") \
                and isinstance(st.value.func, ast.Attribute) and isinstance(st.value.func.value, ast.Attribute) \
                and st.value.func.value.attr == "vertices" and st.value.args:
            vals.append(st.value.args[0])
        for v in vals:
            r = expand_weighted_sums(as_operators(fl.resolve(v, at=st, keep=keep)))
            r = F.strip_calls(r, CONVERT + ("from_arrays",))
            for conds, leaf in F.alternatives(r):
                inner = F.strip_calls(leaf, CONVERT)
                if isinstance(inner, (ast.ListComp, ast.GeneratorExp)) and len(inner.generators) == 1 and not inner.generators[0].ifs \
                        and not (set(au.assigned_names(inner.generators[0].target)) & au.names(inner.elt)):
                    leaf = inner.elt        # one sample per element of the sequence: the sample itself
                if len({au.norm(x) for x in _points(leaf, mesh_p)}) >= min_points and au.norm(leaf) not in seen:
                    seen.add(au.norm(leaf))
                    out.append((st, leaf))
    return out


def b1_barycentric(ctx):
    for name, container, measure in ELEMENT:
        fn = ctx.repo.func(SAMP, name)
        site = ctx.site(SAMP, fn)
        fl = flow_of(ctx, SAMP, fn)
        mesh_p = au.params(fn)[0]
        unit = _unit_names(fn)
        combos = _combinations(fn, fl, mesh_p, keep=unit)
        if not combos:
            ctx.undecided("C19-B1", site, f"{name}: barycentric combination of the points not found",
                          "no value combining the vertex coordinates of the chosen element reaches the result")
            continue

        def point_key(n, mesh_p=mesh_p):
            if _is_point(n, mesh_p):
                return "⟦" + au.src(n) + "⟧"
            return None

        def unit_pred(a, unit=unit):
            inner = a.strip("⟨⟩⟦⟧")
            if a in unit:
                return True
            for u in unit:
                if inner.startswith(u + "["):
                    return True
            for pre in ("np.sqrt(", "sqrt(", "numpy.sqrt(", "math.sqrt("):
                if inner.startswith(pre) and inner.endswith(")"):
                    arg = inner[len(pre):-1]
                    if arg in unit or any(arg.startswith(u + "[") for u in unit):
                        return True
            # a draw used in place (argument of a helper that was seen through): random(), random(2)[0], sqrt(random())
            try:
                tree = ast.parse(inner, mode="eval").body
            except SyntaxError:
                return False

            def unit_expr(x):
                if isinstance(x, ast.Name):
                    return x.id in unit
                if _is_draw(x):
                    return True
                if isinstance(x, ast.Subscript):
                    return unit_expr(x.value)
                if isinstance(x, ast.Call) and au.call_tail(x) == "sqrt" and len(x.args) == 1:
                    return unit_expr(x.args[0])
                return False
            return unit_expr(tree)
        for st, expr in combos:
            bary_check(ctx, SAMP, fn, st, expr, point_key, unit_pred, name)
    b1_de_casteljau(ctx)
    b1_box(ctx)


def _unit_cube_source(n, box_p):
    """an expression that only produces numbers of [0, 1]: a draw of random(), or arrays assembled (meshgrid / ravel / stack /
    transposition / map / list) from np.linspace(0, 1, ...) alone"""
    if _is_draw(n):
        return True
    if not isinstance(n, (ast.Call, ast.Attribute, ast.Subscript, ast.Starred, ast.GeneratorExp, ast.ListComp)):
        return False
    lins = [c for c in ast.walk(n) if isinstance(c, ast.Call) and au.call_tail(c) == "linspace"]
    if not lins or any(not (len(c.args) >= 2 and au.const(c.args[0]) == 0 and au.const(c.args[1]) == 1) for c in lins):
        return False
    allowed = {"linspace", "meshgrid", "ravel", "vstack", "hstack", "stack", "column_stack", "list", "tuple", "map", "array", "asarray",
               "reshape", "flatten", "transpose", "range", "round", "power", "int", "rint", "ceil", "floor", "max", "min", "len", "product"}
    allowed |= {"__elem__"}          # an element of such an array (loop / comprehension variable)
    index_positions = {id(y) for x in ast.walk(n) if isinstance(x, ast.Subscript) for y in ast.walk(x.slice)} | \
                      {id(y) for l in lins for x in l.args[2:] + [k.value for k in l.keywords] for y in ast.walk(x)}
    for c in ast.walk(n):
        if isinstance(c, ast.Call) and au.call_tail(c) in ("__range__", "__index__") and id(c) in index_positions:
            continue
        if isinstance(c, ast.Call) and au.call_tail(c) not in allowed:
            return False
        if isinstance(c, ast.BinOp) and not any(c is x or any(c is y for y in ast.walk(x)) for l in lins for x in l.args[2:] + [k.value for k in l.keywords]):
            return False       # arithmetic on the samples themselves (not in the sample count) may leave [0, 1]
    return True


def b1_box(ctx):
    """sample_AABB: every returned point is a combination (1-u)*mini + u*maxi of the two corners with u in [0,1], in every mode"""
    fn = ctx.repo.func(SAMP, "sample_AABB")
    site = ctx.site(SAMP, fn)
    fl = flow_of(ctx, SAMP, fn)
    box_p = au.params(fn)[0]
    n_found = 0
    seen = set()
    for st in au.stmts(fn.body):
        if not (isinstance(st, ast.Return) and st.value is not None):
            continue
        r = F.strip_calls(as_operators(fl.resolve(st.value, at=st, keep=(box_p,))), CONVERT + ("from_arrays",))
        for conds, leaf in F.expand(r):
            leaf = F.strip_calls(leaf, CONVERT + ("from_arrays",))
            if isinstance(leaf, ast.Name) or au.norm(leaf) in seen:
                continue      # the name left unbound by an impossible mode
            seen.add(au.norm(leaf))
            units = {}

            def box_attr(n):
                return n.attr if isinstance(n, ast.Attribute) and isinstance(n.value, ast.Name) and n.value.id == box_p else None

            class T(ast.NodeTransformer):
                def visit_Attribute(self, node):
                    a = box_attr(node)
                    if a == "span":
                        return ast.parse(f"({box_p}.maxi - {box_p}.mini)", mode="eval").body
                    if a == "center":
                        return ast.parse(f"(({box_p}.maxi + {box_p}.mini) / 2)", mode="eval").body
                    return self.generic_visit(node)
            leaf2 = T().visit(F.clone(leaf))

            def point_key(n):
                a = box_attr(n)
                if a in ("mini", "maxi"):
                    return "⟦" + a + "⟧"
                return None

            def unit_pred(a):
                return a in units

            def mark_units(n):
                if _unit_cube_source(n, box_p):
                    k = ("⟨" + au.src(n) + "⟩") if isinstance(n, ast.Call) else ("⟦" + au.src(n) + "⟧" if isinstance(n, ast.Subscript) else au.src(n))
                    units[k] = n
            for n in ast.walk(leaf2):
                mark_units(n)
            # `.T` of a unit array is a unit array: fold it so that it becomes one atom
            class FoldT(ast.NodeTransformer):
                def visit_Attribute(self, node):
                    self.generic_visit(node)
                    if node.attr == "T" and _unit_cube_source(node.value, box_p):
                        return ast.Call(func=ast.Name(id="transposed", ctx=ast.Load()), args=[node.value], keywords=[])
                    return node
            leaf3 = FoldT().visit(leaf2)
            for n in ast.walk(leaf3):
                if isinstance(n, ast.Call) and au.call_tail(n) == "transposed":
                    units["⟨" + au.src(n) + "⟩"] = n
            if not any(box_attr(n) in ("mini", "maxi") for n in ast.walk(leaf3)):
                continue
            n_found += 1
            cond_txt = " and ".join(au.canon_test(t, p) for t, p in conds)
            bary_check(ctx, SAMP, fn, st, leaf3, point_key, unit_pred, "sample_AABB" + (f" ({cond_txt})" if cond_txt else ""))
    if not n_found:
        ctx.undecided("C19-B1", site, "sample_AABB: the affine map of the unit samples onto the box is not found",
                      "no returned value combines the corners of the box")


def _entry(node, work):
    """an entry of the working list `work` in a resolved blend:  ('idx', Poly) for work[e];  ('sl', lo, hi) for work[lo:hi];
    ('el', offset) for an element of work / work[k:] taken by a loop or comprehension"""
    if isinstance(node, ast.Subscript) and isinstance(node.value, ast.Name) and node.value.id in work:
        s = node.slice
        if isinstance(s, ast.Slice):
            if s.step is not None:
                return None
            lo = sym.to_poly(s.lower) if s.lower is not None else Poly()
            hi = sym.to_poly(s.upper) if s.upper is not None else None
            return ("sl", lo, hi)
        if isinstance(s, ast.Tuple):
            return None
        return ("idx", sym.to_poly(s))
    if isinstance(node, ast.Subscript) and F.is_synth(node.value, "__elem__") and len(node.value.args) == 1 and au.const(node.slice) in (0, 1):
        pw = F.strip_calls(node.value.args[0], ("list", "tuple", "iter"))
        if isinstance(pw, ast.Call) and au.call_tail(pw) == "pairwise" and len(pw.args) == 1:
            seq = F.strip_calls(pw.args[0], ("list", "tuple", "iter"))
            if isinstance(seq, ast.Name) and seq.id in work:
                return ("el", au.const(node.slice), None)        # pairwise(X): the pairs (X[i], X[i+1])
    if F.is_synth(node, "__elem__") and len(node.args) == 1:
        a = node.args[0]
        a = F.strip_calls(a, ("list", "tuple", "iter"))
        if isinstance(a, ast.Call) and au.call_tail(a) == "islice" and 2 <= len(a.args) <= 3 and not a.keywords:
            # islice(X, stop) / islice(X, start, stop)  ==  X[start:stop]
            lo, hi = (None, a.args[1]) if len(a.args) == 2 else (a.args[1], a.args[2])
            none = lambda x: x is None or (isinstance(x, ast.Constant) and x.value is None)
            a = ast.Subscript(value=a.args[0], slice=ast.Slice(lower=None if none(lo) else lo, upper=None if none(hi) else hi, step=None), ctx=ast.Load())
        elif isinstance(a, ast.Call) and au.call_tail(a) == "pairwise":
            a = None
        if a is None:
            return None
        if isinstance(a, ast.Name) and a.id in work:
            return ("el", 0, None)
        if isinstance(a, ast.Subscript) and isinstance(a.value, ast.Name) and a.value.id in work and isinstance(a.slice, ast.Slice) \
                and a.slice.step is None:
            # work[k:], work[:-1] zipped with work[1:], work[:n] zipped with work[1:n+1]
            k = au.const(a.slice.lower) if a.slice.lower is not None else 0
            if isinstance(k, int) and not isinstance(k, bool) and k >= 0:
                return ("el", k, sym.to_poly(a.slice.upper) if a.slice.upper is not None else None)
    return None


def _is_next(cur, nxt):
    if cur[0] != nxt[0]:
        return False
    if cur[0] == "idx":
        return nxt[1] - cur[1] == Poly.const(1)
    if cur[0] == "el":
        # zip stops at the shorter sequence: the upper bounds matter only when both are given
        return nxt[1] - cur[1] == 1 and (cur[2] is None or nxt[2] is None or nxt[2] - cur[2] == Poly.const(1)
                                         or (cur[2] - Poly.const(-1)).is_zero())
    if cur[0] == "sl":
        ok_lo = nxt[1] - cur[1] == Poly.const(1)
        ok_hi = (cur[2] is None and nxt[2] is None) or (cur[2] is not None and nxt[2] is not None and nxt[2] - cur[2] == Poly.const(1))
        return ok_lo and ok_hi
    return False


def b1_de_casteljau(ctx):
    fn = ctx.repo.func(BEZ, "de_casteljau")
    site = ctx.site(BEZ, fn)
    ps = au.params(fn)
    if len(ps) != 2:
        ctx.undecided("C19-B1", site, "de_casteljau does not take (control points, t)", "")
        return
    P, t = ps
    fl = flow_of(ctx, BEZ, fn)
    # names of the working list: the parameter and every local sequence derived from it
    work = {P}
    changed = True
    while changed:
        changed = False
        for st in au.stmts(fn.body):
            for name, v in sym.split_assign(st):
                if name not in work and (au.names(v) & work) and not isinstance(v, (ast.BinOp, ast.Compare, ast.BoolOp)) \
                        and not (isinstance(v, ast.Call) and au.call_tail(v) == "len"):
                    if isinstance(v, (ast.Name, ast.Call, ast.ListComp, ast.Subscript, ast.List, ast.Tuple)):
                        if not (isinstance(v, ast.Subscript) and not isinstance(v.slice, ast.Slice)):
                            work.add(name)
                            changed = True
    cands = []
    for st in au.stmts(fn.body):
        if isinstance(st, ast.Assign) and len(st.targets) == 1:
            tg = st.targets[0]
            if isinstance(tg, ast.Subscript) and isinstance(tg.value, ast.Name) and tg.value.id in work \
                    and any(isinstance(a, (ast.For, ast.While)) for a in au.ancestors(st)):
                level = F.strip_calls(st.value, ("list", "tuple", "array", "asarray"))
                if isinstance(level, (ast.ListComp, ast.GeneratorExp)) and isinstance(level.elt, ast.BinOp) and isinstance(tg.slice, ast.Slice):
                    cands.append((st, tg, level.elt))       # a whole level stored at once: work[:n] = [blend ...]
                else:
                    cands.append((st, tg, st.value))
            elif isinstance(tg, ast.Name) and tg.id in work and isinstance(F.strip_calls(st.value, ("list", "tuple")), (ast.ListComp, ast.GeneratorExp)) \
                    and isinstance(fl.resolve(F.strip_calls(st.value, ("list", "tuple")).elt, at=st, keep=tuple(work) + (t,)), ast.BinOp):
                cands.append((st, None, F.strip_calls(st.value, ("list", "tuple")).elt))     # the blend may be written in a helper
        for c in au.calls(st) if isinstance(st, (ast.Return, ast.Expr, ast.Assign)) else []:
            if au.call_tail(c) == "de_casteljau" and c.args and isinstance(c.args[0], (ast.ListComp, ast.GeneratorExp)) \
                    and isinstance(c.args[0].elt, ast.BinOp):
                cands.append((st, None, c.args[0].elt))
    if not cands:
        # a level built inside a lambda / nested function (functools.reduce over the levels ...)
        for n in ast.walk(fn):
            if isinstance(n, (ast.ListComp, ast.GeneratorExp)) and isinstance(fl.resolve(n.elt, at=n.elt, keep=(t,)), ast.BinOp) \
                    and t in au.names(fl.resolve(n.elt, at=n.elt, keep=(t,))):
                st_ = au.enclosing_stmt(n) or fn.body[0]
                for g in n.generators:
                    work |= {x.id for x in ast.walk(g.iter) if isinstance(x, ast.Name)}
                # the level handed to a nested function / lambda as a parameter
                inner = next((a for a in au.ancestors(n) if isinstance(a, (ast.FunctionDef, ast.Lambda)) and a is not fn), None)
                if inner is not None:
                    r_elt = fl.resolve(n.elt, at=n.elt, keep=(t,))
                    work |= {x.value.id for x in ast.walk(r_elt) if isinstance(x, ast.Subscript) and isinstance(x.value, ast.Name)
                             and x.value.id in au.params(inner)}
                cands.append((st_, None, n.elt))
    if not cands:
        ctx.undecided("C19-B1", site, "de_casteljau: blend of neighbouring entries not found",
                      "no store of a blended entry and no comprehension building the next level")
        return
    for st, tg, val in cands:
        expr = fl.resolve(val, at=val, keep=tuple(work) + (t,))
        # free variables of a nested function are the variables of de_casteljau at the definition of that function (`s = 1 - t` hoisted)
        inner = next((a for a in au.ancestors(val) if isinstance(a, (ast.FunctionDef, ast.Lambda)) and a is not fn), None) \
            if getattr(val, "_parent", None) is not None else None
        if inner is not None:
            top = inner
            while au.parent(top) is not None and au.parent(top) is not fn:
                top = au.parent(top)
            anchor = top if isinstance(top, ast.stmt) else au.enclosing_stmt(top)
            free = {x.id for x in ast.walk(expr) if isinstance(x, ast.Name)} - work - {t} - set(au.params(inner))
            sub = {}
            for nm in sorted(free):
                v = fl.resolve(ast.Name(id=nm, ctx=ast.Load()), at=anchor, keep=tuple(work) + (t,)) if anchor is not None else None
                if v is not None and not (isinstance(v, ast.Name) and v.id == nm):
                    sub[nm] = v
            if sub:
                expr = sym.subst(expr, sub)
        entries = {}

        def point_key(n):
            e = _entry(n, work)
            if e is not None:
                k = "⟦" + au.src(n) + "⟧"
                entries[k] = e
                return k
            return None
        w = bary_check(ctx, BEZ, fn, st, expr, point_key, lambda a: a == t, "de_casteljau")
        if w is None:
            continue
        tpoly = Poly.atom(t)
        cur = [k for k in w if w[k] == Poly.const(1) - tpoly]
        nxt = [k for k in w if w[k] == tpoly]
        ok = len(w) == 2 and len(cur) == 1 and len(nxt) == 1 and _is_next(entries[cur[0]], entries[nxt[0]])
        if ok and tg is not None:
            te = _entry(F.clone(fl.resolve(ast.Subscript(value=tg.value, slice=tg.slice, ctx=ast.Load()), at=st, keep=tuple(work) + (t,))), work)
            ce = entries[cur[0]]
            if te is not None and te[0] == "sl" and ce[0] == "el":
                # a level stored through a slice: it must start where the `1-t` entries start (and not be longer)
                ok = te[1] == Poly.const(ce[1]) and (ce[2] is None or te[2] is None or te[2] == ce[2])
            else:
                ok = te is not None and te == ce
        ctx.check(ok, "C19-B1", ctx.site(BEZ, fn, st),
                  "de_casteljau: the blend is not `entry[i] = t*entry[i+1] + (1-t)*entry[i]`",
                  f"weights {dict((k, str(v)) for k, v in w.items())}: B(0) must be the first control point and B(1) the last",
                  note="de_casteljau: weight t on entry i+1, 1-t on entry i")


# ----------------------------------------------------------------------- C19-F1
def _selector_verdict(sel, drawn_ok):
    """how an element of a container is selected: through the drawn value ('ok'), by a sample counter only ('counter'), else None;
    second result: the drawn array the selection goes through"""
    sel = F.strip_calls(sel, ("int",))
    draw = None
    has_counter = False
    skip = set()
    for n in ast.walk(sel):
        if id(n) in skip:
            continue
        hit = None
        if F.is_synth(n, "__elem__") and drawn_ok(n.args[0]):
            hit = n.args[0]
        elif isinstance(n, ast.Subscript) and drawn_ok(n.value):
            hit = n.value        # drawn[i]
        elif isinstance(n, (ast.Call, ast.IfExp)) and drawn_ok(n):
            hit = n
        if hit is not None:
            draw = draw if draw is not None else hit
            skip |= {id(x) for x in ast.walk(n)}
        elif F.is_synth(n, "__index__") or F.is_synth(n, "__range__"):
            has_counter = True
            skip |= {id(x) for x in ast.walk(n)}
    if draw is not None:
        return "ok", draw
    if has_counter:
        return "counter", None
    return None, None


def f1_drawn_element(ctx):
    for name, container, measure in ELEMENT:
        fn = ctx.repo.func(SAMP, name)
        site = ctx.site(SAMP, fn)
        fl = flow_of(ctx, SAMP, fn)
        mesh_p = au.params(fn)[0]
        unit = _unit_names(fn)
        combos = _combinations(fn, fl, mesh_p, keep=unit, min_points=1)
        if not combos:
            ctx.undecided("C19-F1", site, f"{name}: the vertices combined for a sample are not found", "see C19-B1")
            continue

        def drawn_ok(e):
            def peel(x):
                x = F.strip_calls(x, CONVERT + ("int", "sorted"))
                while F.is_synth(x, "__mutated__") and au.const(x.args[1]) in ("sort", "reverse", "shuffle", "partition"):
                    x = F.strip_calls(x.args[0], CONVERT + ("int", "sorted"))       # a reordering of the draw is still the draw
                return x
            leaves = [peel(leaf) for c, leaf in F.alternatives(e)]
            is_draw = lambda x: isinstance(x, ast.Call) and au.call_tail(x) == "choice"
            return all(is_draw(x) or _is_const_fallback(x) for x in leaves) and any(is_draw(x) for x in leaves)
        verdicts = []
        point_draws = []
        for st, expr in combos:
            for rd in _vertex_reads(expr, mesh_p):
                # the vertex index comes from a row of a container of the mesh: find that row selection
                rows = [n for n in ast.walk(rd.slice) if isinstance(n, ast.Subscript) and _container_of(n.value, mesh_p) is not None
                        and _container_of(n.value, mesh_p) != "vertices"]
                rows += [n.args[0] for n in ast.walk(rd.slice) if F.is_synth(n, "__elem__") and isinstance(n.args[0], ast.Subscript)
                         and _container_of(n.args[0].value, mesh_p) not in (None, "vertices") and n.args[0] not in rows]
                if not rows:
                    verdicts.append((None, st, rd, "no row of a container of the mesh selects the vertex"))
                    continue
                for row in rows:
                    cont = _container_of(row.value, mesh_p)
                    sel = row.slice.elts[0] if isinstance(row.slice, ast.Tuple) and row.slice.elts else row.slice
                    v, dr = _selector_verdict(sel, drawn_ok)
                    if dr is not None:
                        point_draws.append(dr)
                    if cont != container:
                        verdicts.append(("container", st, rd, cont))
                    else:
                        verdicts.append((v, st, rd, au.src(sel)[:80]))
        bad = [v for v in verdicts if v[0] in ("counter", "container")]
        unk = [v for v in verdicts if v[0] is None]
        if bad:
            v = bad[0]
            ctx.fail("C19-F1", ctx.site(SAMP, fn, v[1]),
                     f"{name}: the combined vertices are not those of the drawn element (row of `{container}` selected by the drawn value)",
                     (f"the vertices are read through `{mesh_p}.{v[3]}`" if v[0] == "container" else
                      f"the row of `{mesh_p}.{container}` is selected by the sample counter `{v[3]}`") +
                     ": the sample must lie on the element drawn for it; indexing by the sample counter ignores the length / area weighting")
        elif unk:
            v = unk[0]
            ctx.undecided("C19-F1", ctx.site(SAMP, fn, v[1]), f"{name}: how the combined vertices are selected is not recognised", str(v[3]))
        else:
            ctx.ok("C19-F1", site, f"{name}: vertices of the drawn element {mesh_p}.{container}[drawn]")
        if name == "sample_surface":
            _f1_normals(ctx, fn, fl, mesh_p, drawn_ok, point_draws)


def _is_const_fallback(e):
    """`[0] * n`, `np.zeros(n, dtype=int)`: the single-element fallback of the draw"""
    if isinstance(e, ast.BinOp) and isinstance(e.op, ast.Mult) and any(isinstance(x, ast.List) and len(x.elts) == 1 and au.const(x.elts[0]) == 0
                                                                       for x in (e.left, e.right)):
        return True
    return isinstance(e, ast.Call) and au.call_tail(e) in ("zeros", "zeros_like")


def _inverse_index_of(sel):
    """`np.unique(D, return_inverse=True)[k]` with k the position of the inverse index in the returned tuple -> D, else None.
    The inverse index addresses the *compacted* array of distinct values unique(D)[0], not the array D was drawn from."""
    e = F.strip_calls(sel, CONVERT + ("int", "ravel", "flatten"))
    if not (isinstance(e, ast.Subscript) and isinstance(e.value, ast.Call) and au.call_tail(e.value) == "unique" and e.value.args):
        return None
    c = e.value
    kw = {k.arg: k.value for k in c.keywords}
    if len(c.args) > 1 or None in kw or au.const(kw.get("return_inverse")) is not True:
        return None
    ri = kw.get("return_index")
    if ri is not None and not isinstance(au.const(ri), bool):
        return None
    pos = 1 + (1 if ri is not None and au.const(ri) is True else 0)
    k = au.const(e.slice)
    if not isinstance(k, int) or isinstance(k, bool):
        return None
    n_out = 1 + sum(1 for a in ("return_index", "return_inverse", "return_counts") if au.const(kw.get(a)) is True)
    if any(a in kw and not isinstance(au.const(kw[a]), bool) for a in ("return_counts",)):
        return None
    if k == pos or k == pos - n_out:
        return c.args[0]
    return None


def _f1_normals(ctx, fn, fl, mesh_p, drawn_ok, point_draws=()):
    site = ctx.site(SAMP, fn)
    reads = []
    for n in au.walk(fn):
        if isinstance(n, ast.Subscript) and isinstance(n.ctx, ast.Load):
            base = fl.resolve(n.value, at=n)
            base = _strip_data(base)
            if isinstance(base, ast.Call) and au.call_tail(base) == "face_normals":
                reads.append((n, base))
    if not reads:
        ctx.undecided("C19-F1", site, "sample_surface: normals of the drawn faces (`face_normals(mesh)[drawn]`) not found", "")
        return
    for n, base in reads:
        sel = fl.resolve(n.slice, at=n)
        sel = sel.elts[0] if isinstance(sel, ast.Tuple) and sel.elts else sel
        v, dr = _selector_verdict(sel, drawn_ok)
        src_ok = bool(base.args) and isinstance(base.args[0], ast.Name) and base.args[0].id == mesh_p
        s = ctx.site(SAMP, fn, n)
        other = [d for d in point_draws if dr is not None and not au.same(d, dr)]
        inv_of = _inverse_index_of(sel)
        if inv_of is not None and drawn_ok(inv_of):
            # the whole per-face array face_normals(mesh) (one row per face of the mesh) read with the inverse index of np.unique(drawn)
            ctx.fail("C19-F1", s, "sample_surface: returned normals are not face_normals(mesh) indexed by the drawn faces in order",
                     f"`{au.src(n)}` reads the full per-face array `{au.src(base)[:60]}` with `np.unique({au.src(inv_of)[:40]}..., return_inverse=True)`'s inverse index, the "
                     f"inverse index of np.unique(drawn faces): it numbers the *distinct* drawn faces (rows of unique(...)[0]), not the faces of the "
                     f"mesh - as soon as a face with a smaller id than a drawn face receives no sample, the i-th normal is the normal of another face "
                     f"than the one the i-th point lies on (gather the rows of the distinct faces first, or index by the drawn faces)")
        elif v == "ok" and other and all(F.find_calls(d, "choice") for d in other + [dr]) \
                and any(F.is_synth(x, "__mutated__") for d in other + [dr] for x in ast.walk(d)):
            ctx.fail("C19-F1", s, "sample_surface: returned normals are not face_normals(mesh) indexed by the drawn faces in order",
                     f"the normals are gathered from `{au.src(dr)[:70]}` but the points from `{au.src(other[0])[:90]}`: the drawn array is "
                     f"reordered in place between the two, the i-th normal is no longer the normal of the face of the i-th point")
        elif v == "counter" or not src_ok:
            ctx.fail("C19-F1", s, "sample_surface: returned normals are not face_normals(mesh) indexed by the drawn faces in order",
                     f"`{au.src(n)}` selects by `{au.src(sel)[:80]}`: the i-th normal must be the normal of the face the i-th point was drawn on")
        elif v == "ok":
            ctx.ok("C19-F1", s, "normals indexed by the drawn faces, in order")
        else:
            ctx.undecided("C19-F1", s, "sample_surface: how the returned normals are selected is not recognised", au.src(sel)[:120])


# ----------------------------------------------------------------------- C19-W1 / W2
STORED = ("get_attribute", "has_attribute", "attribute", "attributes")
SUMS = ("sum", "nansum")


def _sum_of(e):
    """`np.sum(x)` / `x.sum()` / `sum(x)` -> x, else None"""
    if isinstance(e, ast.Call) and au.call_tail(e) in SUMS:
        if isinstance(e.func, ast.Attribute) and not F._is_mod(e.func.value) and not e.args:
            return e.func.value
        if e.args:
            return e.args[0]
    return None


UFUNC_BIN = {"add": ast.Add, "subtract": ast.Sub, "multiply": ast.Mult, "divide": ast.Div, "true_divide": ast.Div, "floor_divide": ast.FloorDiv,
             "mod": ast.Mod, "remainder": ast.Mod, "power": ast.Pow}
UFUNC_CMP = {"less": ast.Lt, "less_equal": ast.LtE, "greater": ast.Gt, "greater_equal": ast.GtE, "equal": ast.Eq, "not_equal": ast.NotEq}


def as_operators(e):
    """numpy ufunc calls read as the operators they stand for: np.subtract(a, b) -> a - b, np.less_equal(a, b) -> a <= b,
    np.negative(a) -> -a, x.any() / x.all() -> np.any(x) / np.all(x), bool(x) -> x"""
    class T(ast.NodeTransformer):
        def visit_Call(self, node):
            self.generic_visit(node)
            t = au.call_tail(node)
            is_np = isinstance(node.func, ast.Attribute) and F._is_mod(node.func.value)
            if is_np and t in UFUNC_BIN and len(node.args) == 2 and not any(k.arg == "out" for k in node.keywords):
                return ast.BinOp(left=node.args[0], op=UFUNC_BIN[t](), right=node.args[1])
            if is_np and t in UFUNC_CMP and len(node.args) == 2:
                return ast.Compare(left=node.args[0], ops=[UFUNC_CMP[t]()], comparators=[node.args[1]])
            if is_np and t == "negative" and len(node.args) == 1:
                return ast.UnaryOp(op=ast.USub(), operand=node.args[0])
            if t in ("any", "all") and isinstance(node.func, ast.Attribute) and not is_np and not node.args:
                return ast.Call(func=ast.Attribute(value=ast.Name(id="np", ctx=ast.Load()), attr=t, ctx=ast.Load()), args=[node.func.value], keywords=[])
            if isinstance(node.func, ast.Name) and node.func.id == "bool" and len(node.args) == 1:
                return node.args[0]
            if t == "take" and len(node.args) >= 2 and (is_np or isinstance(node.func, ast.Attribute)):
                ax = next((k.value for k in node.keywords if k.arg == "axis"), node.args[2] if len(node.args) > 2 else None)
                if ax is None or au.const(ax) == 0:
                    base_ = node.args[0] if is_np else node.func.value
                    idx_ = node.args[1] if is_np else node.args[0]
                    return ast.Subscript(value=base_, slice=idx_, ctx=ast.Load())
            return node
    return T().visit(F.clone(e)) if e is not None else None


def expand_weighted_sums(e):
    """`np.einsum("nc,ncx->nx", W, T)` and `(W[:, :, None] * T).sum(axis=1)` with W = np.stack((w0, w1, ...), axis=-1) written as
    the sum  w0 * T[:, 0] + w1 * T[:, 1] + ...  (the barycentric combination they compute)"""
    import re

    def columns(W):
        W = F.strip_calls(W, ("asarray", "array"))
        if isinstance(W, ast.Call) and au.call_tail(W) in ("stack", "column_stack") and W.args and isinstance(W.args[0], (ast.Tuple, ast.List)):
            ax = next((au.const(k.value) for k in W.keywords if k.arg == "axis"), None)
            if au.call_tail(W) == "column_stack" or ax in (-1, 1):
                return list(W.args[0].elts)
        return None

    def build(cols, T):
        out = None
        for k, w in enumerate(cols):
            term = ast.BinOp(left=w, op=ast.Mult(), right=ast.Subscript(value=T, slice=ast.Tuple(elts=[ast.Slice(), ast.Constant(k)], ctx=ast.Load()), ctx=ast.Load()))
            out = term if out is None else ast.BinOp(left=out, op=ast.Add(), right=term)
        return out

    class T_(ast.NodeTransformer):
        def visit_Call(self, node):
            self.generic_visit(node)
            t = au.call_tail(node)
            if t == "einsum" and len(node.args) == 3 and isinstance(node.args[0], ast.Constant) and isinstance(node.args[0].value, str) \
                    and re.fullmatch(r"(\w)(\w),\1\2(\w)->\1\3", node.args[0].value.replace(" ", "")):
                cols = columns(node.args[1])
                if cols:
                    return build(cols, node.args[2])
            if t == "sum" and any(k.arg == "axis" and au.const(k.value) == 1 for k in node.keywords):
                X_ = node.func.value if (isinstance(node.func, ast.Attribute) and not F._is_mod(node.func.value)) else (node.args[0] if node.args else None)
                if isinstance(X_, ast.BinOp) and isinstance(X_.op, ast.Mult):
                    for a, b in ((X_.left, X_.right), (X_.right, X_.left)):
                        a2 = _strip_broadcast(a)
                        cols = columns(a2) if a2 is not a else None
                        if cols:
                            return build(cols, b)
            return node
    return T_().visit(F.clone(e)) if e is not None else None


def _as_division(e):
    """`np.divide(a, b)` / `np.true_divide(a, b)` / `a * (1 / b)` read as `a / b`"""
    class T(ast.NodeTransformer):
        def visit_Call(self, node):
            self.generic_visit(node)
            if au.call_tail(node) in ("divide", "true_divide") and len(node.args) == 2 and not node.keywords:
                return ast.BinOp(left=node.args[0], op=ast.Div(), right=node.args[1])
            return node

        def visit_BinOp(self, node):
            self.generic_visit(node)
            if isinstance(node.op, ast.Mult):
                for a, b in ((node.left, node.right), (node.right, node.left)):
                    if isinstance(b, ast.BinOp) and isinstance(b.op, ast.Div) and au.const(b.left) in (1, 1.0):
                        return ast.BinOp(left=a, op=ast.Div(), right=b.right)
            return node
    return T().visit(F.clone(e)) if e is not None else None


def w_weights(ctx):
    for name, container, measure in ELEMENT:
        fn = ctx.repo.func(SAMP, name)
        site = ctx.site(SAMP, fn)
        fl = flow_of(ctx, SAMP, fn)
        mesh_p = au.params(fn)[0]
        what_ = measure.split("_")[1]
        draws = [(c, c) for c in au.calls(fn) if au.call_tail(c) == "choice"]
        if not draws:
            # the draw delegated to a private helper: seen through, in the caller's terms
            for hc in au.calls(fn):
                if F.helper_key(hc) in fl.helpers:
                    r_ = fl.resolve(hc, at=hc)
                    draws += [(c, hc) for c in ast.walk(r_) if isinstance(c, ast.Call) and au.call_tail(c) == "choice"]
        if not draws:
            ctx.undecided("C19-W1", site, f"{name}: the weighted draw `choice(n_elements, size=n_pts, p=weights)` not found", "no call of choice")
            ctx.undecided("C19-W2", site, f"{name}: weight array of the draw not found", "no call of choice")
            continue
        for c, at_ in draws:
            s = ctx.site(SAMP, fn, at_)
            # ---- population
            pop_e = c.args[0] if c.args else next((k.value for k in c.keywords if k.arg == "a"), None)
            pop = fl.resolve(pop_e, at=at_) if pop_e is not None else None
            cont = None
            if pop is not None:
                p2 = F.strip_calls(pop, ("int",))
                if isinstance(p2, ast.Call) and au.call_tail(p2) in ("len", "arange", "range") and len(p2.args) == 1:
                    inner = p2.args[0]
                    if au.call_tail(p2) in ("arange", "range") and isinstance(inner, ast.Call) and au.call_tail(inner) == "len" and inner.args:
                        inner = inner.args[0]
                    cont = _container_of(inner, mesh_p)
                elif isinstance(p2, ast.Attribute) and p2.attr == "size":
                    cont = _container_of(p2.value, mesh_p)
            if cont == container:
                ctx.ok("C19-W1", s, f"{name}: population len({mesh_p}.{container})")
            elif cont is not None:
                ctx.fail("C19-W1", s, f"{name}: elements are not drawn among range(len({mesh_p}.{container}))",
                         f"population `{au.src(pop)}` counts `{mesh_p}.{cont}`")
            else:
                ctx.undecided("C19-W1", s, f"{name}: population of the draw is not recognised", f"`{au.src(pop) if pop is not None else None}`")
            # ---- weights
            pk = next((k.value for k in c.keywords if k.arg == "p"), c.args[3] if len(c.args) > 3 else None)
            if pk is None or (isinstance(pk, ast.Constant) and pk.value is None):
                ctx.fail("C19-W1", s, f"{name}: the draw has no weight array `p=` (uniform over {container})",
                         f"`{au.src(c)}`: the share of samples per element must follow its {what_}, not be uniform")
                ctx.undecided("C19-W2", s, f"{name}: weight array of the draw not found", "reported in detail by C19-W1")
                continue
            helpers_ = {q: f_ for q, f_ in ctx.repo.module(SAMP).funcs.items() if "." not in q and q != name}
            p = _as_division(as_operators(F.inline_calls(fl.resolve(pk, at=at_), helpers_)))
            for conds, leaf in F.alternatives(p):
                leaf = _as_division(F.strip_calls(leaf, ("asarray", "array", "abs")))
                if isinstance(leaf, ast.BinOp) and isinstance(leaf.op, ast.Div):
                    num, den = leaf.left, leaf.right
                    summed = _sum_of(den)
                    peel = lambda x: F.strip_calls(x, CONVERT + ("abs", "absolute", "float", "fabs")) if x is not None else None
                    if summed is not None and au.same(peel(summed), peel(num)):
                        ctx.ok("C19-W1", s, f"{name}: weights normalised by their own sum")
                    elif summed is not None and (au.names(summed) & au.names(num)) and F.find_calls(summed, measure) and F.find_calls(num, measure):
                        ctx.undecided("C19-W1", s, f"{name}: normalisation of the draw weights is not recognised", f"`{au.src(leaf)[:160]}`")
                    elif summed is not None or (isinstance(den, ast.Call) and au.call_tail(den) in ("max", "amax", "min", "mean", "norm", "len", "prod")):
                        ctx.fail("C19-W1", s, f"{name}: the draw weights are not divided by their own sum",
                                 f"`p={au.src(pk)}` resolves to `{au.src(num)[:80]} / {au.src(den)[:80]}`: the weights must be normalised by "
                                 f"np.sum of themselves to be the probability of each element")
                    else:
                        ctx.undecided("C19-W1", s, f"{name}: normalisation of the draw weights is not recognised", f"`{au.src(leaf)[:160]}`")
                    _w2_provenance(ctx, name, fn, s, num, mesh_p, measure, what_)
                else:
                    raw = F.strip_calls(leaf, CONVERT + ("abs", "absolute"))
                    is_raw_measure = isinstance(raw, ast.Call) and au.call_tail(raw) == measure
                    if is_raw_measure:
                        ctx.fail("C19-W1", s, f"{name}: the draw weights are not divided by their own sum",
                                 f"`p={au.src(pk)}` resolves to `{au.src(leaf)[:120]}`, which is not normalised")
                    else:
                        ctx.undecided("C19-W1", s, f"{name}: normalisation of the draw weights is not recognised", f"`{au.src(leaf)[:160]}`")
                    _w2_provenance(ctx, name, fn, s, leaf, mesh_p, measure, what_)


def _absolute_threshold(expr, measure):
    """a sub-expression that compares / clamps / shifts the measure (a length or an area: it scales with the mesh) with a non-zero
    absolute constant: np.maximum(areas, 1e-8), areas + 1e-12, np.clip(areas, 1e-9, None), np.where(areas < 1e-8, ...).  Returns the node."""
    has_measure = lambda e: any(isinstance(c, ast.Call) and au.call_tail(c) == measure for c in ast.walk(e))
    nonzero = lambda e: (lambda v: v is not None and v != 0)(order.fold_const(e)) if e is not None else False
    for n in ast.walk(expr):
        if isinstance(n, ast.Call) and au.call_tail(n) in ("maximum", "minimum", "fmax", "fmin", "max", "min", "clip") :
            ops = list(n.args) + [k.value for k in n.keywords if k.arg in ("a_min", "a_max", "min", "max")]
            if isinstance(n.func, ast.Attribute) and not F._is_mod(n.func.value):
                ops.append(n.func.value)
            if any(has_measure(o) for o in ops) and any(nonzero(o) for o in ops if not has_measure(o)):
                return n
        if isinstance(n, ast.BinOp) and isinstance(n.op, (ast.Add, ast.Sub)):
            a, b = n.left, n.right
            if (has_measure(a) and not has_measure(b) and nonzero(b)) or (has_measure(b) and not has_measure(a) and nonzero(a)):
                return n
        if isinstance(n, ast.Compare) and len(n.ops) == 1 and isinstance(n.ops[0], (ast.Lt, ast.LtE, ast.Gt, ast.GtE)):
            a, b = n.left, n.comparators[0]
            if (has_measure(a) and not has_measure(b) and nonzero(b)) or (has_measure(b) and not has_measure(a) and nonzero(a)):
                return n
    return None


def _w2_provenance(ctx, name, fn, s, expr, mesh_p, measure, what_):
    thr = _absolute_threshold(expr, measure)
    if thr is not None:
        ctx.fail("C19-W2", s, f"{name}: the draw weights are not a homogeneous function of the {what_}s of the elements",
                 f"`{au.src(thr)[:120]}` combines {measure}({mesh_p}) with an absolute constant: the {what_}s scale with the mesh, the constant does not - "
                 f"for a mesh given in small units the elements below the constant all get the same weight and the share of samples per "
                 f"element no longer follows its {what_} (the distribution must not depend on the unit of length)")
    for conds, leaf in F.alternatives(expr):
        # conditional expressions nested deeper (a branch that reads a stored attribute) are alternatives as well
        inner_alts = [x for n in ast.walk(leaf) if isinstance(n, ast.IfExp) for x in (n.body, n.orelse)] or [leaf]
        for alt in inner_alts if any(isinstance(n, ast.IfExp) for n in ast.walk(leaf)) else [leaf]:
            stored = [c for c in ast.walk(alt) if isinstance(c, ast.Call) and au.call_tail(c) in STORED]
            # a read from a module-level container (a cache filled by an earlier call) is a read from a store as well
            mod_ = ctx.repo.module(SAMP)
            for n_ in ast.walk(alt):
                if isinstance(n_, ast.Subscript) or (isinstance(n_, ast.Call) and isinstance(n_.func, ast.Attribute) and n_.func.attr in ("get", "setdefault", "pop")):
                    root_ = n_.value if isinstance(n_, ast.Subscript) else n_.func.value
                    if isinstance(root_, ast.Name) and root_.id not in au.params(fn):
                        r_ = ctx.repo.resolve(mod_.name, root_.id)
                        if r_ is not None and r_[0] == "var":
                            stored.append(n_)
            calls = F.find_calls(alt, measure)
            fresh = bool(calls) and all(c.args and isinstance(c.args[0], ast.Name) and c.args[0].id == mesh_p for c in calls)
            if stored:
                ctx.fail("C19-W2", s, f"{name}: a definition of the draw weights is not computed from {measure}({mesh_p}) in this call",
                         f"`{au.src(alt)[:140]}`: weights read back from a stored attribute are "
                         f"stale once the vertices have moved - the share of samples per element no longer follows its {what_}")
            elif calls and not fresh:
                ctx.fail("C19-W2", s, f"{name}: a definition of the draw weights is not computed from {measure}({mesh_p}) in this call",
                         f"`{au.src(alt)[:140]}`: {measure} is evaluated on another mesh than `{mesh_p}`")
            elif fresh:
                ctx.ok("C19-W2", s, f"{name}: weights = {measure}({mesh_p}) computed in the call")
            else:
                ctx.undecided("C19-W2", s, f"{name}: provenance of the draw weights is not recognised",
                              f"`{au.src(alt)[:140]}` is neither {measure}({mesh_p}) nor a stored attribute")


# ----------------------------------------------------------------------- C19-P1
def _is_root(n, fl_names):
    """`x ** (1/d)`, `np.power(x, 1/d)`, `np.cbrt(x)`, `np.sqrt(x)` with x mentioning n_pts"""
    if isinstance(n, ast.BinOp) and isinstance(n.op, ast.Pow) and "n_pts" in au.names(n.left):
        return any(isinstance(x, ast.BinOp) and isinstance(x.op, ast.Div) for x in ast.walk(n.right)) or (
            isinstance(au.const(n.right), float) and 0 < au.const(n.right) < 1)
    if isinstance(n, ast.Call) and au.call_tail(n) in ("power", "pow", "float_power") and len(n.args) == 2 and "n_pts" in au.names(n.args[0]):
        return True
    if isinstance(n, ast.Call) and au.call_tail(n) == "exp" and n.args and any(isinstance(x, ast.Call) and au.call_tail(x) in ("log", "log2", "log10")
                                                                               and x.args and "n_pts" in au.names(x.args[0]) for x in ast.walk(n.args[0])):
        return True         # exp(log(n_pts) / d)
    if isinstance(n, ast.Call) and au.call_tail(n) in ("cbrt", "sqrt") and n.args and "n_pts" in au.names(n.args[0]):
        return True
    return False


def _root_chains(e, chain=()):
    """[wrappers from the outside in] for every root of n_pts inside e"""
    if _is_root(e, None):
        return [list(chain)]
    out = []
    for c in ast.iter_child_nodes(e):
        if isinstance(c, ast.AST):
            out += _root_chains(c, chain + (e,))
    return out


def _rounding_kinds(chain):
    kinds = []
    for k, w in enumerate(chain):
        if isinstance(w, ast.Call):
            t = au.call_tail(w)
            if t in ("round", "rint", "around", "round_"):
                kinds.append("round")
            elif t in ("int", "floor", "trunc", "fix") or (t == "astype" and w.args and au.src(w.args[0]) in ("int", "np.int64", "np.int32")):
                inner = chain[k + 1] if k + 1 < len(chain) else None
                half = isinstance(inner, ast.BinOp) and isinstance(inner.op, ast.Add) and any(au.const(x) == 0.5 for x in (inner.left, inner.right))
                kinds.append("round" if half else "trunc")
            elif t == "ceil":
                kinds.append("ceil")
        elif isinstance(w, ast.BinOp) and isinstance(w.op, ast.FloorDiv):
            kinds.append("trunc")
    return kinds


def _resolution_node(chain):
    """the integer resolution inside a chain of wrappers around the root of n_pts: the outermost rounding / truncating wrapper"""
    for w in chain:
        if isinstance(w, ast.Call) and au.call_tail(w) in ("round", "rint", "around", "round_", "int", "floor", "trunc", "fix", "ceil", "astype"):
            return w
        if isinstance(w, ast.BinOp) and isinstance(w.op, ast.FloorDiv):
            return w
    return None


def p1_grid_resolution(ctx):
    """the per-axis resolution of the grid is the rounded root of n_pts wherever it is used (linspace count, index grid, divisor), and
    the grid coordinates are defined when that resolution is 1 (a single node per axis: n_pts = 1, 2 in 2D ...)"""
    fn = ctx.repo.func(SAMP, "sample_AABB")
    site = ctx.site(SAMP, fn)
    fl = flow_of(ctx, SAMP, fn)
    found = 0
    seen_ = set()
    rets = [st for st in au.stmts(fn.body) if isinstance(st, ast.Return) and st.value is not None]
    resolved = [(st, as_operators(fl.resolve(st.value, at=st, keep=("n_pts",)))) for st in rets]
    # where to report: the statement of the function that mentions the root, else the return
    root_stmts = [st for st in au.stmts(fn.body) if not isinstance(st, ast.Return) and any(_is_root(n, None) for n in ast.walk(st))]
    for st, r in resolved:
        for chain in _root_chains(r):
            res = _resolution_node(chain)
            key = au.norm(res if res is not None else chain[-1] if chain else r)
            if key in seen_:
                continue
            seen_.add(key)
            found += 1
            s = ctx.site(SAMP, fn, root_stmts[0] if root_stmts else st)
            kinds = _rounding_kinds(chain)
            shown = au.src(res)[:120] if res is not None else au.src(chain[-1] if chain else r)[:120]
            if "round" in kinds:
                ctx.ok("C19-P1", s, "sample_AABB: grid resolution is the rounded root of n_pts")
            elif "trunc" in kinds or "ceil" in kinds:
                how = "truncated" if "trunc" in kinds else "rounded up"
                ctx.fail("C19-P1", s, f"sample_AABB: the grid resolution is the {how} root of n_pts, not the rounded one",
                         f"`{shown}`: for n_pts just below a perfect power r^d (e.g. 63 in 3D) the grid has "
                         f"{'(r-1)^d' if 'trunc' in kinds else 'more than r^d'} points instead of the nearest perfect power")
            else:
                ctx.undecided("C19-P1", s, "sample_AABB: how the grid resolution is made an integer is not recognised", f"`{shown}`")
            if res is None:
                continue
            # ---- a single node per axis: every divisor built from the resolution must be non-zero at resolution 1
            rkey = au.norm(res)
            for conds, leaf in F.expand(r):
                if any(rkey in au.norm(c_) or "n_pts" in au.names(c_) for c_, _pol in conds):
                    continue        # the small resolutions are treated apart
                for n in ast.walk(leaf):
                    if not (isinstance(n, ast.BinOp) and isinstance(n.op, (ast.Div, ast.FloorDiv, ast.Mod))):
                        continue
                    try:
                        den = sym.to_poly(n.right, lambda x: "R" if au.norm(x) == rkey else None)
                    except Exception:
                        continue
                    if den.atoms() != {"R"} or den.eval({"R": 1}) != 0:
                        continue
                    ctx.fail("C19-P1", s, "sample_AABB: the grid coordinates are divided by a quantity that vanishes when the grid has one node per axis",
                             f"`{au.src(n)[:120]}` divides by `{den}` with R = `{au.src(res)[:60]}`: for n_pts = 1 (and every n_pts whose rounded root is 1: "
                             f"2 in 2D, up to 3 in 3D ...) R is 1 and the single sample is 0/0 = nan, not a point of the box "
                             f"(np.linspace(0, 1, 1) gives the corner 0)")
                    break
                else:
                    continue
                break
    if not found:
        ctx.undecided("C19-P1", site, "sample_AABB: grid resolution (a rounded root of n_pts) not found", "")


# ----------------------------------------------------------------------- C19-G1
def _is_dc(e):
    return isinstance(e, ast.Call) and isinstance(e.func, ast.Name) and e.func.id == "de_casteljau"


def unpartial(e):
    """`partial(f, a, k=v)(b)` -> `f(a, b, k=v)`"""
    class T(ast.NodeTransformer):
        def visit_Call(self, node):
            self.generic_visit(node)
            f = node.func
            if isinstance(f, ast.Call) and au.call_tail(f) == "partial" and f.args:
                return ast.Call(func=f.args[0], args=list(f.args[1:]) + list(node.args), keywords=list(f.keywords) + list(node.keywords))
            return node
    return T().visit(F.clone(e)) if e is not None else None


_DC_PARAMS = ["P", "t"]     # refreshed from the source by g1_de_casteljau


def _dc_arg(dc, k):
    """k-th argument of a de_casteljau call, positional or by keyword"""
    if len(dc.args) > k:
        return dc.args[k]
    return next((kw.value for kw in dc.keywords if kw.arg == _DC_PARAMS[k]), None)


EVAL_METHODS = ("evaluate", "_evaluate_row")


def _is_eval_call(x):
    return _is_dc(x) or (isinstance(x, ast.Call) and isinstance(x.func, ast.Attribute) and au.is_self_attr(x.func) and x.func.attr in EVAL_METHODS)


_FLOAT_DTYPES = ("float", "np.float64", "numpy.float64", "np.double", "numpy.double", "'float'", "'float64'", "np.float_", "np.float32", "numpy.float32",
                 "'float32'", "'d'", "'f8'", "'f4'", "np.longdouble", "np.float128", "np.floating", "complex", "np.complex128", "'double'")
_INT_DTYPES = ("int", "np.int64", "numpy.int64", "np.int32", "numpy.int32", "np.intp", "np.int_", "'int'", "'int64'", "'int32'", "'i8'", "'i4'", "'i'",
               "bool", "np.bool_", "np.uint32", "np.uint64", "np.int16", "np.int8", "np.uint8", "np.integer")


def _dtype_kind(node):
    """True: a floating dtype is requested, False: an integer one, '?': a dtype is requested but its spelling is not recognised"""
    src = au.src(node).replace('"', "'")
    return True if src in _FLOAT_DTYPES else False if src in _INT_DTYPES else "?"


def _alias_kind(d, P):
    """how a (resolved) working value relates to the parameter P: 'alias' (may be P itself), 'shallow' (new list, same entries),
    'deep' (new array of new entries), 'fresh' (unrelated), None (unknown).  Second result: float dtype requested (True/False/None)."""
    if isinstance(d, ast.Name):
        return ("alias" if d.id == P else None), None
    if isinstance(d, ast.Call):
        t = au.call_tail(d)
        arg = d.args[0] if d.args else None
        on_p = arg is not None and isinstance(arg, ast.Name) and arg.id == P
        dtype = next((k.value for k in d.keywords if k.arg == "dtype"), d.args[1] if (t in ("array", "asarray", "asanyarray") and len(d.args) > 1) else None)
        isfloat = None if dtype is None else _dtype_kind(dtype)
        if t in ("asarray", "asanyarray", "ascontiguousarray", "atleast_2d", "atleast_1d"):
            if arg is not None:
                k, _ = _alias_kind(arg, P)
                return ("alias" if k == "alias" else k), isfloat
        if t in ("array", "deepcopy"):
            if arg is not None:
                k, _ = _alias_kind(arg, P)
                return ("deep" if k in ("alias", "shallow", "deep") else k), (isfloat if t == "array" else None)
        if t in ("list", "tuple", "sorted", "reversed") and arg is not None:
            k, _ = _alias_kind(arg, P)
            return ("shallow" if k in ("alias", "shallow") else k), None
        if t == "copy":
            inner = arg if arg is not None else (d.func.value if isinstance(d.func, ast.Attribute) else None)
            if inner is not None:
                k, fl_ = _alias_kind(inner, P)
                is_np = isinstance(d.func, ast.Attribute) and F._is_mod(d.func.value)
                inner_np = isinstance(inner, ast.Call) and au.call_tail(inner) in ("asarray", "array", "asanyarray", "stack", "vstack")
                if is_np or inner_np:
                    return ("deep" if k in ("alias", "shallow", "deep") else k), fl_     # np.copy(x) / np.asarray(x).copy()
                return ("shallow" if k in ("alias", "shallow") else k), None
        if t == "astype" and isinstance(d.func, ast.Attribute):
            k, _ = _alias_kind(d.func.value, P)
            return ("deep" if k in ("alias", "shallow", "deep") else k), (_dtype_kind(d.args[0]) if d.args else "?")
        if t in ("stack", "vstack", "concatenate", "row_stack") and arg is not None:
            k, _ = _alias_kind(arg, P)
            return ("deep" if k in ("alias", "shallow", "deep") else k), None
        if t in ("zeros", "empty", "ones", "zeros_like", "empty_like", "full"):
            return "fresh", (isfloat if dtype is not None else True)
        return None, None
    if isinstance(d, (ast.ListComp, ast.GeneratorExp)):
        if F.is_synth(d.elt, "__elem__"):
            k, _ = _alias_kind(d.elt.args[0], P)
            return ("shallow" if k in ("alias", "shallow") else k), None
        return "fresh", None
    if isinstance(d, (ast.List, ast.Tuple)):
        return "fresh", None
    if isinstance(d, ast.Subscript) and isinstance(d.slice, ast.Slice):
        k, _ = _alias_kind(d.value, P)
        return ("shallow" if k in ("alias", "shallow") else k), None
    if isinstance(d, ast.IfExp):
        a, fa = _alias_kind(d.body, P)
        b, fb = _alias_kind(d.orelse, P)
        rank = {"alias": 0, "shallow": 1, None: 2, "deep": 3, "fresh": 4}
        return (a if rank[a] <= rank[b] else b), (fa if fa == fb else None)
    return None, None


def _resolve_object(fl, name, at, P):
    """the expression that created the object `name` refers to at `at`; the parameter P stands for the caller's object only where
    it has not been rebound (`P = list(P)` makes P a copy: the resolution then yields `list(P)` with the original P inside)"""
    return fl.resolve(ast.Name(id=name, ctx=ast.Load()), at=at)


def _fold_globals(e, repo, modname, keep=()):
    """module-level numeric constants (tolerances ...) written as their literal value"""
    mod = repo.module(modname)

    class T(ast.NodeTransformer):
        def visit_Name(self, node):
            if isinstance(node.ctx, ast.Load) and node.id not in keep:
                r = repo.resolve(mod.name, node.id)
                if r and r[0] == "var" and r[1] in repo.modules:
                    for st in repo.modules[r[1]].tree.body:
                        if isinstance(st, (ast.Assign, ast.AnnAssign)) and st.value is not None:
                            tg = st.targets if isinstance(st, ast.Assign) else [st.target]
                            if any(isinstance(x, ast.Name) and x.id == r[2] for x in tg):
                                v = order.fold_const(st.value)
                                if v is not None:
                                    return ast.Constant(v)
            return node
    return T().visit(F.clone(e))


def g1_de_casteljau(ctx):
    repo = ctx.repo
    fn = repo.func(BEZ, "de_casteljau")
    site = ctx.site(BEZ, fn)
    ps = au.params(fn)
    if len(ps) != 2:
        ctx.undecided("C19-G1", site, "de_casteljau does not take (control points, t)", "")
        return
    P, t = ps
    _DC_PARAMS[:] = [P, t]
    fl = flow_of(ctx, BEZ, fn)
    # ---- the guard: the function raises exactly when t < 0 or t > 1, whatever the layout of the tests
    from ..rules.c1120_util import paths
    try:
        allp = paths(fn.body)
    except order.Unsupported as e:
        allp = None
        ctx.undecided("C19-G1", site, "range guard on t not found in de_casteljau", f"too many paths: {e}")
    if allp is not None:
        def tguards(p):
            out = []
            for tst, pol, kind in p.guards:
                if kind != "if":
                    continue
                r = as_operators(_fold_globals(fl.resolve(tst, at=tst, keep=(t,)), repo, BEZ, keep=(t,)))
                if t in au.names(r):
                    out.append((r, pol, tst))
            return out
        guarded = [(p, tguards(p)) for p in allp]
        raising = [(p, g) for p, g in guarded if p.end == "raise" and g]
        going = [(p, g) for p, g in guarded if p.end != "raise"]
        if not raising:
            validators = [c for c in au.calls(fn) if not _is_dc(c) and au.call_tail(c) not in ("min", "max", "clip", "float", "abs", "len", "range")
                          and any(isinstance(a, ast.Name) and a.id == t for a in list(c.args) + [k.value for k in c.keywords])]
            has_raise = any(isinstance(s_, (ast.Raise, ast.Assert)) for s_ in au.stmts(fn.body))
            if validators or has_raise:
                ctx.undecided("C19-G1", site, "range guard on t not found in de_casteljau",
                              "parameters outside [0,1] must be rejected (InvalidRangeArgumentError), not extrapolated")
            else:
                ctx.fail("C19-G1", site, "range guard on t not found in de_casteljau",
                         "t is never tested and nothing is raised: parameters outside [0,1] are extrapolated instead of rejected "
                         "(InvalidRangeArgumentError)")
        else:
            symf = lambda n: n.id if isinstance(n, ast.Name) else au.src(n)
            pred = order.Pred(symf)
            try:
                for p, g in guarded:
                    for r, pol, tst in g:
                        pred.collect(r)
                extra_num = sorted(x for x in pred.symbols if not x.startswith("?") and x != t)
                if extra_num:
                    raise order.Unsupported("the tests on t involve other quantities: " + ", ".join(extra_num))
                flags = sorted(x for x in pred.symbols if x.startswith("?"))
                wit = maybe = None
                n_env = 0
                for env0 in order.envs({t}, pred.consts | {0, 1}):
                    n_env += 1
                    outcomes = []
                    for fv in itertools.product((False, True), repeat=len(flags)):
                        env = dict(env0)
                        env.update(zip(flags, fv))
                        holds = lambda g: all(bool(pred.eval(r, env)) == pol for r, pol, tst in g)
                        raises = any(holds(g) for p, g in raising)
                        goes = any(holds(g) for p, g in going)
                        outside = env[t] < 0 or env[t] > 1
                        if outside and goes:
                            outcomes.append("is evaluated although it is outside [0,1]")
                        elif not outside and (raises and not goes):
                            outcomes.append("is rejected although it lies in [0,1]")
                        else:
                            outcomes.append(None)
                    if all(o is not None for o in outcomes):
                        wit = (env0[t], outcomes[0])
                        break
                    if any(o is not None for o in outcomes) and maybe is None:
                        maybe = (env0[t], next(o for o in outcomes if o))
                if wit is None and maybe is not None:
                    raise order.Unsupported(f"{t} = {maybe[0]} {maybe[1]} for some values of {flags}")
                gnode = raising[0][1][0][2]
                ctx.check(wit is None, "C19-G1", ctx.site(BEZ, fn, gnode),
                          f"range guard of de_casteljau is not `{t} < 0 or {t} > 1`",
                          f"{t} = {wit[0] if wit else ''} {wit[1] if wit else ''}: `{au.src(gnode)}`", note=f"guard agrees on {n_env} orderings")
                # t is not rebound before it is tested
                first_guard = min(getattr(tst, "lineno", 0) for p, g in raising for r, pol, tst in g)
                early = [st for st in au.stmts(fn.body) if st.lineno < first_guard and isinstance(st, (ast.Assign, ast.AugAssign, ast.AnnAssign))
                         and t in [n for tg in au.assign_targets(st) for n in au.assigned_names(tg)]]
                ctx.check(not early, "C19-G1", ctx.site(BEZ, fn, gnode), "t is rebound or consumed before the range guard of de_casteljau",
                          f"`{au.src(early[0])[:80] if early else ''}` runs before the guard", note="guard precedes every rebinding of t")
            except (order.Unsupported, KeyError) as e:
                ctx.undecided("C19-G1", site, "range guard of de_casteljau is not a comparison predicate on t", str(e))
    # ---- no write through the argument
    n_store = 0
    for st in au.stmts(fn.body):
        if not isinstance(st, (ast.Assign, ast.AugAssign)):
            continue
        for tg in au.assign_targets(st):
            if not isinstance(tg, ast.Subscript):
                continue
            root = tg.value
            while isinstance(root, (ast.Subscript, ast.Attribute)):
                root = root.value
            if not isinstance(root, ast.Name):
                continue
            n_store += 1
            d = _resolve_object(fl, root.id, st, P)
            kind, isfloat = _alias_kind(d, P)
            s = ctx.site(BEZ, fn, st)
            dsrc = au.src(d)[:80]
            if kind == "alias":
                ctx.fail("C19-G1", s, "de_casteljau writes into a list that is not a fresh copy of the control points",
                         f"`{au.src(st)[:100]}` stores into `{dsrc}`, which can be the caller's control points themselves "
                         f"(BezierCurve.pts / a float array passed by the caller): they are overwritten by the first evaluation")
            elif kind is None:
                ctx.undecided("C19-G1", s, "de_casteljau: the object an entry is stored into is not recognised", f"`{dsrc}`")
            elif isinstance(st, ast.AugAssign) and kind == "shallow":
                ctx.fail("C19-G1", s, "de_casteljau updates an entry in place instead of rebinding it",
                         f"`{au.src(st)[:100]}`: the copy `{dsrc}` is shallow, an augmented assignment mutates the caller's control point (Vec) itself")
            elif kind == "deep" and isfloat == "?":
                ctx.undecided("C19-G1", s, "de_casteljau: the dtype requested for the working array is not recognised", f"`{dsrc}`")
            elif kind == "deep" and isfloat is not True and isinstance(d, ast.Call) and au.call_tail(d) in ("array", "asarray"):
                ctx.fail("C19-G1", s, "de_casteljau stores the blend in place into an array that inherits the dtype of the control points",
                         f"`{au.src(st)[:100]}` writes into `{dsrc}`: with integer control points every blended value is truncated to an integer "
                         f"(the curve is not the Bernstein polynomial of an integer control polygon)")
            else:
                ctx.ok("C19-G1", s, "blend writes into a fresh copy")
    if n_store == 0:
        ctx.ok("C19-G1", site, "de_casteljau performs no in-place store")
    # no in-place method on the parameter / its aliases
    muts = []
    for c in au.calls(fn):
        if isinstance(c.func, ast.Attribute) and c.func.attr in ("append", "extend", "insert", "pop", "remove", "sort", "reverse", "clear", "fill",
                                                                   "normalize", "resize", "put", "itemset"):
            recv = fl.resolve(c.func.value, at=c)
            k, _ = _alias_kind(recv, P) if not isinstance(recv, ast.Subscript) or isinstance(recv.slice, ast.Slice) else ("elem", None)
            if k == "alias" or (k == "elem" and P in au.names(recv) ):
                muts.append(c)
    ctx.check(not muts, "C19-G1", site, "de_casteljau mutates its control-point argument through a method call",
              f"`{au.src(muts[0]) if muts else ''}`", note="no in-place method on the control points")
    # result = first entry of the blended list (or a recursive evaluation)
    rets = [st for st in au.stmts(fn.body) if isinstance(st, ast.Return)]
    verdict = []
    for r in rets:
        v = F.strip_calls(r.value, ("Vec", "array", "asarray", "copy")) if r.value is not None else None
        if isinstance(v, ast.Subscript) and not isinstance(v.slice, (ast.Slice, ast.Tuple)):
            k = order.fold_const(v.slice)
            verdict.append("ok" if k == 0 else "wrong" if (k is not None and k > 0) else None)
        elif _is_dc(v):
            verdict.append("ok")
        else:
            verdict.append(None)
    if not rets or any(v is None for v in verdict) and "wrong" not in verdict:
        ctx.undecided("C19-G1", site, "de_casteljau: the returned entry is not recognised",
                      "; ".join(au.src(r.value)[:60] for r in rets if r.value is not None))
    else:
        ctx.check("wrong" not in verdict, "C19-G1", site, "de_casteljau does not return entry 0 of the blended list",
                  "after len(P)-1 rounds the value of the curve is the first entry", note="returns entry 0")
    # ---- control points are never combined outside de_casteljau
    for cname in ("BezierCurve", "BezierPatch"):
        cls = repo.cls(BEZ, cname)
        for m in cls.body:
            if not isinstance(m, ast.FunctionDef) or m.name == "__init__":
                continue
            for n in au.walk(m):
                if au.is_self_attr(n, "pts") and isinstance(n.ctx, ast.Load):
                    v, why = _pts_use(n, m)
                    s = ctx.site(BEZ, m, n)
                    if v == "ok":
                        ctx.ok("C19-G1", s, f"{cname}.{m.name}: control points go to de_casteljau / len")
                    elif v == "bad":
                        ctx.fail("C19-G1", s, f"{cname}.{m.name} reads the control points outside a de_casteljau call",
                                 f"`{au.src(au.enclosing_stmt(n))[:100]}`: {why}; an evaluation that bypasses de_casteljau also bypasses its range guard")
                    else:
                        ctx.undecided("C19-G1", s, f"{cname}.{m.name}: a use of the control points is not recognised", why)
    # ---- evaluation methods return de_casteljau results and forward their parameters
    for cname, mname in (("BezierCurve", "evaluate"), ("BezierPatch", "_evaluate_row"), ("BezierPatch", "evaluate")):
        m = repo.func(BEZ, f"{cname}.{mname}")
        fm = flow_of(ctx, BEZ, m)
        mps = au.params(m, skip_self=True)
        required = set(mps) - G.defaulted_params(m) - {p.arg for p, d in zip(m.args.kwonlyargs, m.args.kw_defaults) if d is not None}
        rets = [st for st in au.stmts(m.body) if isinstance(st, ast.Return) and st.value is not None]
        used, modified, unknown = set(), [], []
        # a memoised evaluation: the method returns instance state that it (or another method) rebinds
        memo = [r for r in rets if au.is_self_attr(r.value) and r.value.attr != "pts"]
        if memo:
            attr = memo[0].value.attr
            cls_ = repo.cls(BEZ, cname)
            stores = [st for st in ast.walk(cls_) if isinstance(st, (ast.Assign, ast.AugAssign, ast.AnnAssign))
                      and any(au.is_self_attr(t_, attr) for t_ in au.assign_targets(st))]
            stores.sort(key=lambda st: 0 if any(a_ is m for a_ in au.ancestors(st)) else 1)       # the store of the method itself first
            guards = [a_ for st in stores for a_ in au.ancestors(st) if isinstance(a_, ast.If)]
            keyed_on_pts = any(au.is_self_attr(n_, "pts") or (isinstance(n_, ast.Name) and n_.id == "pts") for g_ in guards for n_ in ast.walk(g_.test))
            s_ = ctx.site(BEZ, m, memo[0])
            if stores and not keyed_on_pts:
                ctx.fail("C19-G1", s_, f"{cname}.{mname} returns a memoised evaluation that is not tied to the control points",
                         f"`return self.{attr}`: `self.{attr}` is kept from one call to the next (stored at line {stores[0].lineno}) and reused when "
                         + (f"`{au.src(guards[0].test)[:80]}` fails" if guards else "it is already set")
                         + ", whatever `self.pts` has become: after a control point is edited the method still answers with the old net - the "
                         "result is no longer the Bernstein polynomial of the control points")
            else:
                ctx.undecided("C19-G1", s_, f"{cname}.{mname}: the returned evaluation is read from instance state", f"`self.{attr}`")
            continue
        for r in rets:
            e = unpartial(fm.resolve(r.value, at=r, keep=tuple(mps)))
            for conds, leaf in F.alternatives(e):
                leaf = F.strip_calls(leaf, ("Vec", "array", "asarray", "list", "tuple"))
                elts = [leaf]
                if isinstance(leaf, (ast.ListComp, ast.GeneratorExp)):
                    elts = [leaf.elt]
                elif isinstance(r.value, ast.Name) and ((isinstance(leaf, (ast.List, ast.Tuple)) and not leaf.elts) or _is_placeholder_list(leaf)):
                    # a list filled by appends in a loop / a preallocated list filled entry by entry
                    elts = [fm.resolve(c.args[0], at=c, keep=tuple(mps)) for c in au.calls(m) if au.call_tail(c) == "append" and c.args
                            and isinstance(c.func, ast.Attribute) and isinstance(c.func.value, ast.Name) and c.func.value.id == r.value.id]
                    elts += [fm.resolve(st_.value, at=st_, keep=tuple(mps)) for st_ in au.stmts(m.body) if isinstance(st_, ast.Assign)
                             and any(isinstance(t_, ast.Subscript) and isinstance(t_.value, ast.Name) and t_.value.id == r.value.id for t_ in st_.targets)]
                    elts = elts or [leaf]
                for x in elts:
                    x = F.strip_calls(x, ("Vec", "array", "asarray"))
                    if not _is_dc(x):
                        # a violation is an arithmetic combination of control points / evaluations with a parameter of the method;
                        # a call the rule cannot see through is not
                        arith = (isinstance(x, (ast.BinOp, ast.UnaryOp)) and not _is_placeholder_list(x)) \
                            or (isinstance(x, ast.Call) and au.call_tail(x) in ("sum", "dot", "einsum", "matmul", "tensordot", "average", "mean"))
                        touches = any(au.is_self_attr(y, "pts") or _is_eval_call(y) for y in ast.walk(x))
                        (modified if (touches and arith) else unknown).append(f"`{au.src(x)[:80]}` is not a de_casteljau evaluation")
                        continue
                    targ = _dc_arg(x, 1)
                    targ = F.strip_calls(targ, ("float", "float64", "asarray", "item", "squeeze")) if targ is not None else None
                    if isinstance(targ, ast.Name) and targ.id in mps:
                        used.add(targ.id)
                    elif targ is not None and (au.names(targ) & set(mps)):
                        modified.append(f"parameter passed as `{au.src(targ)[:60]}`")
                    else:
                        unknown.append(f"parameter argument `{au.src(targ)[:60] if targ is not None else None}`")
                    first = _dc_arg(x, 0)
                    for c in ast.walk(first) if first is not None else []:
                        if isinstance(c, ast.Call) and isinstance(c.func, ast.Attribute) and au.is_self_attr(c.func) and c.func.attr in EVAL_METHODS:
                            used |= {a.id for a in c.args if isinstance(a, ast.Name) and a.id in mps}
        s = ctx.site(BEZ, m)
        if modified or (rets and not unknown and not required <= used):
            ctx.fail("C19-G1", s, f"{cname}.{mname} does not return de_casteljau(...) of its own parameter(s) {sorted(required)}",
                     f"returns `{'; '.join(au.src(r.value)[:80] for r in rets)}`; parameters reaching de_casteljau unmodified: {sorted(used)}"
                     + (f"; {modified[0]}" if modified else ""))
        elif unknown or not rets:
            ctx.undecided("C19-G1", s, f"{cname}.{mname}: the returned evaluation is not recognised", "; ".join(unknown)[:200])
        else:
            ctx.ok("C19-G1", s, f"{cname}.{mname} -> de_casteljau with {sorted(used)}")
    # ---- exports evaluate through the class
    for cname, mname in (("BezierCurve", "as_polyline"), ("BezierPatch", "as_surface")):
        m = repo.func(BEZ, f"{cname}.{mname}")
        fm = flow_of(ctx, BEZ, m)
        vals = F.appended_values(fm, "vertices")
        if not vals:
            ctx.undecided("C19-G1", ctx.site(BEZ, m), f"{cname}.{mname}: vertex append not found", "")
        for st, e in vals:
            if e is None:
                ctx.undecided("C19-G1", ctx.site(BEZ, m, st), f"{cname}.{mname}: the vertices appended by a helper are not recognised", f"`{au.src(st)[:100]}`")
                continue
            verdicts = []
            for conds, leaf in F.alternatives(e):
                if isinstance(leaf, ast.Constant) and leaf.value is None:
                    continue            # no vertex at all on this alternative
                if any(_is_eval_call(x) for x in ast.walk(leaf)):
                    verdicts.append("ok")
                elif any(au.is_self_attr(x, "pts") for x in ast.walk(leaf)):
                    verdicts.append("bad")
                else:
                    verdicts.append(None)
            s = ctx.site(BEZ, m, st)
            if "bad" in verdicts:
                ctx.fail("C19-G1", s, f"{cname}.{mname} appends a vertex that is not an evaluation of the curve / patch",
                         f"`{au.src(st)[:80]}` resolves to `{au.src(e)[:100]}`")
            elif None in verdicts:
                ctx.undecided("C19-G1", s, f"{cname}.{mname}: the origin of an appended vertex is not recognised", f"`{au.src(e)[:120]}`")
            else:
                ctx.ok("C19-G1", s, f"{cname}.{mname}: vertices are evaluations")


def _is_placeholder_list(e):
    """`[None] * n`, `[0] * n`, `n * [None]`: a preallocated list, not arithmetic on points"""
    return isinstance(e, ast.BinOp) and isinstance(e.op, ast.Mult) and any(isinstance(x, (ast.List, ast.Tuple)) and all(isinstance(y, ast.Constant) for y in x.elts)
                                                                         for x in (e.left, e.right))


def _pts_use(n, fn, depth=0):
    """classify one read of the control points (node `n`): ('ok' | 'bad' | None, reason)"""
    if depth > 4:
        return None, "alias chain too long"
    child = n
    for a in au.ancestors(n):
        if isinstance(a, ast.keyword):
            continue
        if isinstance(a, ast.Call):
            if au.call_tail(a) == "len" and any(child is x for x in a.args):
                return "ok", ""
            if _is_dc(a) and a.args and (child is a.args[0] or any(x is child for x in ast.walk(a.args[0]))):
                return "ok", ""
            if _is_dc(a) and any(k.arg == _DC_PARAMS[0] and (child is k.value or any(x is child for x in ast.walk(k.value))) for k in a.keywords):
                return "ok", ""
            if any(child is x for x in a.args) or any(child is k.value for k in a.keywords):
                t = au.call_tail(a)
                if t in ("enumerate", "zip", "list", "tuple", "reversed", "iter"):
                    child = a
                    continue
                mparams = set(au.params(fn, skip_self=True))
                others = [x for x in list(a.args) + [k.value for k in a.keywords] if x is not child]
                if any(au.names(x) & mparams for x in others):
                    return None, f"control points and a parameter of the method are passed to `{au.src(a.func)[:40]}`"
                return "ok", ""      # conversion / export of the control points (no evaluation parameter involved)
        if isinstance(a, ast.Subscript) and child is a.value:
            child = a
            continue
        if isinstance(a, ast.Attribute) and child is a.value:
            if a.attr in ("size", "shape", "dtype", "ndim"):
                return "ok", ""
            child = a
            continue
        if isinstance(a, (ast.BinOp, ast.UnaryOp, ast.AugAssign)):
            top = a
            for up in au.ancestors(a):
                if isinstance(up, (ast.BinOp, ast.UnaryOp)):
                    top = up
                else:
                    break
            mparams = set(au.params(fn, skip_self=True))
            if au.names(top) & mparams:
                return "bad", "a control point is combined arithmetically with a parameter of the method"
            return "ok", ""
        if isinstance(a, ast.Compare):
            return "ok", ""
        if isinstance(a, ast.comprehension) and child is a.iter:
            comp = au.parent(a)
            return _alias_uses(au.assigned_names(a.target), [comp.elt] if hasattr(comp, "elt") else [comp.key, comp.value], fn, depth)
        if isinstance(a, (ast.For, ast.AsyncFor)) and child is a.iter:
            return _alias_uses(au.assigned_names(a.target), a.body, fn, depth)
        if isinstance(a, ast.Assign) and child is a.value:
            names = [x for t_ in a.targets for x in au.assigned_names(t_)]
            blk, _ = au.enclosing_block(a)
            rest = blk[[id(x) for x in blk].index(id(a)) + 1:] if blk else []
            return _alias_uses(names, rest, fn, depth)
        if isinstance(a, ast.Return):
            return "ok", ""         # accessor
        if isinstance(a, ast.stmt):
            return "ok", ""
        child = a
    return None, "?"


def _alias_uses(names, region, fn, depth):
    verdict = "ok"
    why = ""
    found = False
    for r in region:
        for x in ast.walk(r):
            if isinstance(x, ast.Name) and x.id in names and isinstance(x.ctx, ast.Load):
                found = True
                v, w = _pts_use(x, fn, depth + 1)
                if v == "bad":
                    return "bad", w
                if v is None:
                    verdict, why = None, w
    if not found:
        return "ok", ""
    return verdict, why


# ----------------------------------------------------------------------- C19-S1
def s1_as_surface(ctx):
    spec = GenSpec(BEZ, "BezierPatch.as_surface", {"n1": (2, 5), "n2": (2, 5)}, [], topo="disk", self_obj=X.self_object(ctx.repo, BEZ, "BezierPatch"),
                   counts=lambda p: {"V": "n1*n2", "F": {4: "(n1-1)*(n2-1)"}}, assoc=True, samples=True)
    r = {"range": "C19-S1", "table": "C19-S1", "counts": "C19-S1", "assoc": "C19-S1"}
    C.check_generator(ctx, spec, r)
    # the polyline export: one vertex per parameter sample, consecutive edges, the `t` attribute of vertex k is the parameter it was
    # evaluated at.  The evaluation itself is abstracted as "a 3D point that depends on t" (C19-G1 decides that it is an evaluation).
    point3 = ast.parse("def evaluate(self, t):\n    return Vec(t, t, t)").body[0]
    dc3 = ast.parse("def de_casteljau(P, t):\n    return Vec(t, t, t)").body[0]
    curve = X.self_object(ctx.repo, BEZ, "BezierCurve")
    curve.methods["evaluate"] = point3
    spec = GenSpec(BEZ, "BezierCurve.as_polyline", {"n_pts": (2, 5)}, [], fixed={"custom_pos": None}, self_obj=curve, stubs={"de_casteljau": dc3},
                   counts=lambda p: {"V": "n_pts", "E": "n_pts-1"}, polyline=lambda p: [(i, i + 1) for i in range(p["n_pts"] - 1)],
                   assoc=True, samples=True, want_faces=False)
    C.check_generator(ctx, spec, r)


# ----------------------------------------------------------------------- C19-E1
class _NoEval(Exception):
    pass


class _RecVal(dict):
    """value of a NamedTuple / dataclass instance in the per-axis evaluation: field -> value (also indexable by position)"""


_E1_RECORDS = {}     # class name -> field names (records declared in the AABB module), filled by e1_empty_box


def _vec_eval(e, env, props, depth=0):
    """Evaluate an expression of AABB over concrete corner tuples env = {'_p1': (..), '_p2': (..)} (tiny domain, the
    expression is the extracted AST - repository code is not run).  Vectors are tuples, scalars numbers / bools."""
    if depth > 6:
        raise _NoEval("recursion")

    def rec(x):
        return _vec_eval(x, env, props, depth)

    def lift(f, *xs):
        n = max((len(x) for x in xs if isinstance(x, tuple)), default=None)
        if n is None:
            return f(*xs)
        xs = [x if isinstance(x, tuple) else (x,) * n for x in xs]
        if any(len(x) != n for x in xs):
            raise _NoEval("shape")
        return tuple(f(*t) for t in zip(*xs))
    if isinstance(e, ast.Constant) and isinstance(e.value, (int, float, bool)):
        return e.value
    if isinstance(e, ast.Name) and e.id in env:
        return env[e.id]
    if isinstance(e, ast.Tuple) and not any(isinstance(x, ast.Starred) for x in e.elts):
        return tuple(rec(x) for x in e.elts)
    if isinstance(e, ast.Attribute) and isinstance(e.value, ast.Name) and e.value.id in ("self", "b", "box"):
        if e.attr in env:
            return env[e.attr]
        if e.attr == "dim":
            return len(env["_p1"])
        if e.attr in props:
            return _vec_eval(props[e.attr], env, props, depth + 1)
        raise _NoEval(f"attribute {e.attr}")
    if isinstance(e, ast.Attribute) and e.attr in ("flat", "T", "real"):
        return rec(e.value)        # views of the same coordinates
    if isinstance(e, ast.Attribute) and isinstance(e.value, (ast.Attribute, ast.Call, ast.Subscript)):
        base = rec(e.value)
        if isinstance(base, _RecVal) and e.attr in base:
            return base[e.attr]         # field of a NamedTuple / dataclass holding the corners
        raise _NoEval(f"attribute {e.attr}")
    if isinstance(e, ast.Call) and isinstance(e.func, ast.Name) and e.func.id in _E1_RECORDS:
        fields = _E1_RECORDS[e.func.id]
        vals = [rec(a) for a in e.args if not isinstance(a, ast.Starred)]
        if len(vals) != len(e.args) or len(vals) + len(e.keywords) != len(fields):
            raise _NoEval("record construction")
        out = _RecVal(zip(fields, vals))
        for k in e.keywords:
            out[k.arg] = rec(k.value)
        return out
    if isinstance(e, ast.UnaryOp):
        v = rec(e.operand)
        if isinstance(e.op, ast.Not):
            if isinstance(v, tuple):
                raise _NoEval("not of a vector")
            return not v
        if isinstance(e.op, ast.USub):
            return lift(lambda a: -a, v)
        if isinstance(e.op, ast.Invert):
            return lift(lambda a: not a, v)
    if isinstance(e, ast.BinOp):
        a, c = rec(e.left), rec(e.right)
        import operator as op_
        table = {ast.Add: op_.add, ast.Sub: op_.sub, ast.Mult: op_.mul, ast.BitOr: lambda x, y: bool(x) or bool(y),
                 ast.BitAnd: lambda x, y: bool(x) and bool(y)}
        if type(e.op) in table:
            return lift(table[type(e.op)], a, c)
        if isinstance(e.op, ast.Div):
            try:
                return lift(lambda x, y: x / y, a, c)
            except ZeroDivisionError:
                raise _NoEval("division by zero")
    if isinstance(e, ast.Compare):
        left = rec(e.left)
        res = None
        for o, cmp_ in zip(e.ops, e.comparators):
            right = rec(cmp_)
            if type(o) not in order.CMP:
                raise _NoEval("comparison")
            r = lift(order.CMP[type(o)], left, right)
            res = r if res is None else lift(lambda x, y: x and y, res, r)
            left = right
        return res
    if isinstance(e, ast.BoolOp):
        vals = [rec(v) for v in e.values]
        if any(isinstance(v, tuple) for v in vals):
            raise _NoEval("and/or of vectors")
        return all(vals) if isinstance(e.op, ast.And) else any(vals)
    if isinstance(e, ast.IfExp):
        t = rec(e.test)
        if isinstance(t, tuple):
            raise _NoEval("vector condition")
        return rec(e.body) if t else rec(e.orelse)
    if isinstance(e, (ast.ListComp, ast.GeneratorExp)) and len(e.generators) == 1 and not e.generators[0].ifs:
        g = e.generators[0]
        it = g.iter
        # `for a, b in zip(self.mini, self.maxi)` / `for i in range(self.dim)`
        if isinstance(it, ast.Call) and au.call_tail(it) == "zip" and isinstance(g.target, ast.Tuple) and len(g.target.elts) == len(it.args) \
                and all(isinstance(x, ast.Name) for x in g.target.elts):
            seqs = [rec(a) for a in it.args]
            if not all(isinstance(s, tuple) for s in seqs):
                raise _NoEval("zip of scalars")
            out = []
            for vals in zip(*seqs):
                sub = sym.subst(e.elt, {x.id: ast.Constant(v) for x, v in zip(g.target.elts, vals)})
                out.append(_vec_eval(sub, env, props, depth))
            return tuple(out)
        if isinstance(it, ast.Call) and au.call_tail(it) == "range" and len(it.args) == 1 and isinstance(g.target, ast.Name):
            n = rec(it.args[0])
            if not isinstance(n, int):
                raise _NoEval("range of a non-integer")
            out = []
            for k in range(n):
                sub = sym.subst(e.elt, {g.target.id: ast.Constant(k)})
                out.append(_vec_eval(sub, env, props, depth))
            return tuple(out)
        raise _NoEval("comprehension")
    if isinstance(e, ast.Subscript):
        v = rec(e.value)
        k = rec(e.slice) if not isinstance(e.slice, ast.Slice) else None
        if isinstance(v, _RecVal) and isinstance(k, int) and not isinstance(k, bool) and -len(v) <= k < len(v):
            return list(v.values())[k]
        if isinstance(v, tuple) and isinstance(k, int) and not isinstance(k, bool) and -len(v) <= k < len(v):
            return v[k]
        raise _NoEval("subscript")
    if isinstance(e, ast.Call):
        tail = au.call_tail(e)
        args = [rec(a) for a in e.args]
        if isinstance(e.func, ast.Attribute) and not (isinstance(e.func.value, ast.Name) and e.func.value.id in ("np", "numpy", "math")):
            args = [rec(e.func.value)] + args
        if e.keywords and not all(k.arg in ("axis",) for k in e.keywords):
            raise _NoEval("keyword arguments")
        v = args[0] if args else None
        vec = v if isinstance(v, tuple) else ((v,) if v is not None else ())
        if tail in ("ravel", "flatten", "tolist", "copy", "squeeze", "list", "tuple") and len(args) == 1:
            return v
        if tail == "any" and len(args) == 1:
            return any(vec)
        if tail == "all" and len(args) == 1:
            return all(vec)
        if tail == "prod" and len(args) == 1:
            out = 1
            for x in vec:
                out *= x
            return out
        if tail == "sum" and len(args) == 1:
            return sum(vec)
        if tail in ("min", "amin") and len(args) == 1:
            return min(vec)
        if tail in ("max", "amax") and len(args) == 1:
            return max(vec)
        if tail in ("minimum", "maximum") and len(args) == 2:
            return lift(min if tail == "minimum" else max, args[0], args[1])
        if tail in ("abs", "absolute", "fabs") and len(args) == 1:
            return lift(abs, v)
        if tail in ("bool", "float", "int", "Vec", "array", "asarray") and len(args) == 1:
            return v if tail in ("Vec", "array", "asarray") else lift({"bool": bool, "float": float, "int": int}[tail], v) \
                if not isinstance(v, tuple) else _raise("scalar conversion of a vector")
        if tail == "count_nonzero" and len(args) == 1:
            return sum(1 for x in vec if x)
        if tail == "logical_not" and len(args) == 1:
            return lift(lambda a: not a, v)
        if tail in ("logical_or", "logical_and") and len(args) == 2:
            return lift((lambda a, c: bool(a) or bool(c)) if tail == "logical_or" else (lambda a, c: bool(a) and bool(c)), args[0], args[1])
        if tail == "len" and len(args) == 1 and isinstance(v, tuple):
            return len(v)
        raise _NoEval(f"call {au.src(e.func)}")
    raise _NoEval(au.src(e)[:60])


def _raise(msg):
    raise _NoEval(msg)


def _inline_empty_test(ctx, fn, allp, tests, box_p, props, stored):
    """True: every empty box of the small domain meets a raise on every path;  (box, statement): an empty box gets through;
    None: a test on the box cannot be evaluated"""
    def on_box(t):
        return any(isinstance(n, ast.Name) and n.id == box_p for n in ast.walk(t))
    rename = lambda t: sym.subst(t, {box_p: ast.Name(id="box", ctx=ast.Load())})
    for d in (1, 2, 3):
        for vals in itertools.product((0, 1, 2), repeat=2 * d):
            p1, p2 = tuple(vals[:d]), tuple(vals[d:])
            if not any(a >= c for a, c in zip(p1, p2)):
                continue
            env = {"_p1": p1, "_p2": p2}
            for attr_, value_, ips_ in stored:
                try:
                    env[attr_] = _vec_eval(value_, {ips_[0]: p1, ips_[1]: p2}, {})
                except _NoEval:
                    pass
            for p in allp:
                if p.end == "raise":
                    continue
                feasible = True
                for tst, pol, kind in p.guards:
                    if kind != "if":
                        continue
                    t = tests[id(tst)]
                    if not on_box(t):
                        continue            # a test on something else (mode, dimension switch ...): either way
                    def tri(x):
                        """True / False, or None when the value depends on something else than the box"""
                        if not on_box(x):
                            return None
                        if isinstance(x, ast.BoolOp):
                            vs = [tri(y) for y in x.values]
                            if isinstance(x.op, ast.And):
                                return False if any(v_ is False for v_ in vs) else (True if all(v_ is True for v_ in vs) else None)
                            return True if any(v_ is True for v_ in vs) else (False if all(v_ is False for v_ in vs) else None)
                        if isinstance(x, ast.UnaryOp) and isinstance(x.op, ast.Not):
                            v_ = tri(x.operand)
                            return None if v_ is None else (not v_)
                        v_ = _vec_eval(as_operators(rename(x)), env, props)
                        if isinstance(v_, tuple):
                            raise _NoEval("vector condition")
                        return bool(v_)
                    try:
                        v = tri(t)
                    except _NoEval:
                        return None
                    if v is not None and v != pol:
                        feasible = False
                        break
                if feasible:
                    return env, (p.stmts[-1] if p.stmts else None)
    return True


def e1_empty_box(ctx):
    repo = ctx.repo
    fn = repo.func(AABB, "AABB.is_empty")
    site = ctx.site(AABB, fn)
    props = _aabb_props(ctx)
    flm = F.Flow(fn)
    try:
        formula = order.return_formula([st for st in fn.body if not isinstance(st, (ast.Assign, ast.AnnAssign))])
    except order.Unsupported as e:
        formula = None
        ctx.undecided("C19-E1", site, "AABB.is_empty is no longer an if/return chain of a per-axis predicate", str(e))

    helpers = _aabb_helpers(ctx)

    def res(e):
        own = {x for n in ast.walk(e) if isinstance(n, ast.comprehension) for x in au.assigned_names(n.target)}   # evaluated by iteration
        return as_operators(inline_self(flm.resolve(e, at=e, keep=tuple(own)) if getattr(e, "_parent", None) is not None else e, helpers))

    def evf(f, env):
        if f[0] == "ite":
            t = _vec_eval(res(f[1]), env, props)
            if isinstance(t, tuple):
                raise _NoEval("vector condition")
            return evf(f[2], env) if t else evf(f[3], env)
        if f[0] == "ret" and f[1] is not None:
            v = _vec_eval(res(f[1]), env, props)
            if isinstance(v, tuple):
                raise _NoEval("returns a vector")
            return bool(v)
        raise _NoEval("no returned value")
    _E1_RECORDS.clear()
    for q_, c_ in repo.module(AABB).classes.items():
        info_ = F.record_info(c_)
        if info_ is not None:
            _E1_RECORDS[q_.split(".")[-1]] = list(info_[0])
    # what the constructor stores for the two corners it is given (`self._p1 = Vec(p_min)`, `self._corners = (Vec(p_min), Vec(p_max))` ...)
    stored = []
    if repo.has_func(AABB, "AABB.__init__"):
        init = repo.func(AABB, "AABB.__init__")
        ips = au.params(init, skip_self=True)
        if len(ips) == 2:
            for st in init.body:
                if isinstance(st, ast.Assign) and len(st.targets) == 1 and au.is_self_attr(st.targets[0]):
                    stored.append((st.targets[0].attr, st.value, ips))
    if formula is not None:
        wit = None
        n_env = 0
        reason = None
        try:
            for d in (1, 2, 3):
                for vals in itertools.product((0, 1, 2), repeat=2 * d):
                    env = {"_p1": tuple(vals[:d]), "_p2": tuple(vals[d:])}
                    for attr_, value_, ips_ in stored:
                        try:
                            env[attr_] = _vec_eval(value_, {ips_[0]: tuple(vals[:d]), ips_[1]: tuple(vals[d:])}, {})
                        except _NoEval:
                            pass
                    n_env += 1
                    want = any(a >= c for a, c in zip(env["_p1"], env["_p2"]))
                    if evf(formula, env) != want:
                        wit = (env, want)
                        break
                if wit:
                    break
        except _NoEval as e:
            reason = str(e)
        if reason is not None:
            ctx.undecided("C19-E1", site, "AABB.is_empty is not found in a form the per-axis evaluation recognises", reason)
        else:
            ctx.check(wit is None, "C19-E1", site, "AABB.is_empty is not `some axis has mini >= maxi`",
                      (f"for the box mini={wit[0]['_p1']}, maxi={wit[0]['_p2']} the predicate answers {not wit[1]} but the box is "
                       f"{'empty' if wit[1] else 'not empty'}: a reduction over the axes (product, sum, all) is not a per-axis test, "
                       f"e.g. a box inverted along two axes has a positive product of spans; sample_AABB then samples a box "
                       f"(such as an empty intersection b1 & b2) it must refuse") if wit else "",
                      note=f"is_empty agrees with `any(mini >= maxi)` on {n_env} boxes")
    # ---- sample_AABB refuses an empty box before doing anything else
    fn = repo.func(SAMP, "sample_AABB")
    site = ctx.site(SAMP, fn)
    box_p = au.params(fn)[0]
    fl = flow_of(ctx, SAMP, fn)
    from ..rules.c1120_util import paths
    from .. import decide

    def is_e(n):
        return isinstance(n, ast.Call) and au.call_tail(n) == "is_empty" and isinstance(n.func, ast.Attribute) \
            and isinstance(n.func.value, ast.Name) and n.func.value.id == box_p

    def atom(n):
        return "E" if is_e(n) else au.canon_test(n)
    try:
        allp = paths(fn.body)
    except order.Unsupported as e:
        ctx.undecided("C19-E1", site, "sample_AABB: the empty-box test cannot be followed", str(e))
        return
    tests = {}
    for p in allp:
        for tst, pol, kind in p.guards:
            if kind == "if" and id(tst) not in tests:
                tests[id(tst)] = fl.resolve(tst, at=tst, keep=(box_p,))
    e_tests = [t for t in tests.values() if any(is_e(n) for n in ast.walk(t))]
    if not e_tests:
        present = any(au.call_tail(c) == "is_empty" for c in au.calls(fn))
        called = [c for c in au.calls(fn) if isinstance(c.func, ast.Name) and any(isinstance(a, ast.Name) and a.id == box_p for a in c.args)
                  and ctx.repo.resolve_func(SAMP, c.func.id)]
        inline = [t for t in tests.values() if any(isinstance(n, ast.Attribute) and isinstance(n.value, ast.Name) and n.value.id == box_p
                                                   and n.attr not in ("dim",) for n in ast.walk(t))]
        if inline and not present and not called:
            # the emptiness test spelled on the corners themselves: evaluated on every small empty box - no path may get through
            verdict = _inline_empty_test(ctx, fn, allp, tests, box_p, props, stored)
            if verdict is None:
                ctx.undecided("C19-E1", site, "sample_AABB: the empty-box test is not an `if box.is_empty(): raise` of the function",
                              "the test is written on the corners in a form the per-axis evaluation does not follow")
            elif verdict is True:
                ctx.ok("C19-E1", site, "sample_AABB: every small empty box is refused by the tests written on its corners")
            else:
                box_, stmt_ = verdict
                ctx.fail("C19-E1", ctx.site(SAMP, fn, stmt_) if stmt_ is not None else site, "sample_AABB: an empty box is not refused on every path",
                         f"for the box mini={box_['_p1']}, maxi={box_['_p2']} (empty: some axis has mini >= maxi) no test of the function raises: "
                         f"an empty box has no admissible sample, the sampler must refuse, in both modes")
        elif present or called or inline:
            ctx.undecided("C19-E1", site, "sample_AABB: the empty-box test is not an `if box.is_empty(): raise` of the function",
                          "the test is written in a form (or delegated to a helper) the rule does not follow")
        else:
            ctx.fail("C19-E1", site, "sample_AABB: top-level `if box.is_empty(): raise` not found",
                     "is_empty() is never consulted: an empty box (e.g. an empty intersection) has no admissible sample, the sampler must refuse, in both modes")
        return
    leak = None
    try:
        for p in allp:
            if p.end == "raise":
                continue
            gs = [(tests[id(tst)], pol) for tst, pol, kind in p.guards if kind == "if"]
            names = set()
            for t, pol in gs:
                decide.atoms_of(t, atom, names)
            others = sorted(names - {"E"})
            for vals in itertools.product((False, True), repeat=len(others)):
                env = dict(zip(others, vals), E=True)
                if all(decide.ev(t, env, atom) == pol for t, pol in gs):
                    leak = (p, {k: v for k, v in env.items() if k != "E"})
                    break
            if leak:
                break
    except decide.Unknown as e:
        ctx.undecided("C19-E1", site, "sample_AABB: the empty-box test cannot be followed", str(e))
        return
    gnode = next(tst for p in allp for tst, pol, kind in p.guards if kind == "if" and any(is_e(n) for n in ast.walk(tests[id(tst)])))
    ctx.check(leak is None, "C19-E1", ctx.site(SAMP, fn, gnode), "sample_AABB: an empty box is not refused on every path",
              f"with box.is_empty() true" + (f" and {leak[1]}" if leak and leak[1] else "") + " the function reaches "
              f"`{au.src(leak[0].stmts[-1])[:80] if leak and leak[0].stmts else 'its end'}` without raising: an empty box (e.g. an empty "
              f"intersection) has no admissible sample, the sampler must refuse, in both modes", note="every path of an empty box raises")
    # the test precedes every draw and every return
    top = next((i for i, st in enumerate(fn.body) if any(n is gnode for n in ast.walk(st)) or
                (isinstance(st, (ast.Assign, ast.AnnAssign)) and any(is_e(n) for n in ast.walk(st)))), None)
    draw_tails = {"random", "linspace", "meshgrid", "uniform", "normal", "rand", "random_sample"}
    first_guard = next((i for i, st in enumerate(fn.body) if any(n is gnode for n in ast.walk(st))), len(fn.body))
    early = [st for st in fn.body[:first_guard] if any(au.call_tail(c) in draw_tails for c in au.calls(st))
             or (isinstance(st, ast.If) and any(isinstance(x, ast.Return) for x in au.stmts(st.body + st.orelse)))
             or isinstance(st, ast.Return)]
    ctx.check(not early, "C19-E1", ctx.site(SAMP, fn, gnode), "sample_AABB: points are drawn or returned before the empty-box test",
              f"`{au.src(early[0])[:100] if early else ''}`", note="empty-box test precedes every draw and mode branch")



# ----------------------------------------------------------------------- generic families (msa/rules/generic.py)
_run_specific = run


def run(ctx):
    _run_specific(ctx)
    from ..rules import generic
    generic.apply(ctx, "C19", stale_modules=('sampling',))
    generic.export_keeps_element_axis(ctx, "C19-X0", "sample_surface / sample_polyline take the exported areas / lengths as the weights of "
                                      "numpy's choice and fail on a mesh with a single face / edge")


def _generic_rule_texts():
    from ..rules import generic
    return generic.rule_texts("C19", stale=True)


RULES.update(_generic_rule_texts())
RULES["C19-X0"] = ("R-AXIS: the per-element measure exported with as_array() and used as sampling weights keeps one entry per element "
                   "for every element count")
