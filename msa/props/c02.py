"""C02 - mesh construction normalises raw data, whatever its form (structural clauses).

The rules do not match the layout of the code.  RawMeshData.prepare() and its steps, the container classes, the class dispatch and
from_arrays are *evaluated symbolically* on small template inputs (msa/rules/hb_eval.py: named vertex symbols with a fixed
relative order, small containers, helper functions / tables / comprehensions / the container classes followed through their own
syntax trees; nothing of the package is imported or run) and the obligations are stated on the resulting template data.  Code
the evaluator cannot follow gives `undecided`, never a violation."""
from __future__ import annotations
import ast
from collections import Counter
from fractions import Fraction
from .. import au
from ..core import AnalysisError
from ..rules import rows
from ..rules import hb_eval as E, hb_mesh as M
from ..rules.hb_eval import Unknown, Raised, Obj, Opaque, SList, AttrModel

MD = "mesh.mesh_data"
DC = "mesh.data_container"
MESH = "mesh.mesh"
BASE = "mesh.datatypes.base"
RMD = "RawMeshData"

EXPLANATION = (
    "Bounded symbolic evaluation of RawMeshData.prepare() and its steps, of the container classes, of the class dispatch and of "
    "from_arrays on template inputs (no code of the package is imported or run): every stored edge has its low index first; "
    "completion adds every side of every face / every face of every cell exactly once next to the declared ones; an edge is kept "
    "iff a != b and both indices are in range (all orderings on a grid), survivors keep their attribute values under their new index; "
    "one corner record (element, owner) per incidence in element order, the two parallel arrays in step; class dispatch and container "
    "exposure by dimension; hard-edge flags only on declared edges, also when data is prepared again; order of the phases of "
    "prepare(); from_arrays pads / rejects / range-checks. Row-type agnosticism of every consumer of index rows (R-ROW) is syntactic. "
    "Structural necessary conditions on templates.")

RULES = {
    "C02-R1": "index rows are used only through sequence-agnostic operations (R-ROW)",
    "C02-P1": "the parallel arrays _elem/_adj of a corner container stay in step: every mutator of the container class and every generator "
              "leaves them with the same length (the only accepted one-sided idiom being 'reset A, refill A')",
    "C02-K1": "every edge stored by RawMeshData is normalised (low index first)",
    "C02-P2": "completion adds every side of every face (every face of every cell) exactly once, and none that is already declared",
    "C02-O1": "an edge is kept iff a != b and 0 <= a < N and 0 <= b < N with N the number of vertices",
    "C02-F1": "when invalid edges are dropped the survivors are numbered 0,1,2,.. in order and keep their attribute values under the new index",
    "C02-D1": "class dispatch is total over {0,1,2,3}, uses max(requested, dimensionality of the prepared data) and agrees with the dimension each "
              "class passes to Mesh.__init__; containers are exposed by the same thresholds",
    "C02-H1": "hard-edge flagging must not run again on data that already went through prepare() (only declared edges are hard; rebuilding changes nothing); "
              "a refinement that rebuilds its data flags no generated edge as hard: only halves of edges that were hard in the input may be hard (decided in C13-H2)",
    "C02-W1": "RawMeshData(mesh) hands over every container the mesh has (with its content) and empty ones for those it lacks",
    "C02-M1": "prepare(): nothing happens on prepared data; face completion before edge completion before normalisation / corner generation; flag set last",
    "C02-A1": "from_arrays: vertices are padded to exactly three columns (other widths rejected), every index array is range-checked against "
              "the vertex count and appended to the container of its own kind",
    "C02-C1": "corner generation emits one record (element, owner) per incidence in element order",
}

ROW_MODULES_QUICK = [MD, MESH, DC, BASE, "mesh.datatypes.volume", "mesh.datatypes.surface", "mesh.datatypes.linear"]


def run(ctx):
    repo = ctx.repo
    rows.selfcheck()
    mods = ROW_MODULES_QUICK if ctx.tier == "quick" else sorted(m[len("mouette."):] for m in repo.modules if m != "mouette")
    uses = 0
    for m in mods:
        uses += rows.check_module(ctx, "C02-R1", m)
    if uses < 25:
        ctx.undecided("C02-R1", ctx.site(MD, RMD), "index rows: fewer than 25 uses found in the construction modules",
                      f"{uses} row uses: the row matcher may have lost its sites")
    hard_edges_rule(ctx, "C02-H1")
    completion_rule(ctx)
    prepare_edges_rule(ctx)
    corner_rules(ctx)
    container_class_rule(ctx)
    wrap_rule(ctx)
    lockstep_rule(ctx)
    dispatch_rule(ctx)
    prepare_order_rule(ctx)
    from_arrays_rule(ctx)


# ------------------------------------------------------------------------------------------------ helpers
def step_site(ctx, q):
    """site of a private step of prepare() when it still exists under that name, else the site of prepare() itself"""
    repo = ctx.repo
    name = RMD + "." + q
    if repo.has_func(MD, name):
        fn = repo.func(MD, name)
    else:
        fn = repo.func(MD, RMD + ".prepare")
    return fn, ctx.site(MD, fn)


def step(w, raw, q):
    """run one step of the preparation on the template: the private method when it exists, the whole prepare() otherwise (a step
    that was renamed / merged into another one is still exercised through the public entry point)"""
    m = w.ev.find_method(raw, q)
    if m is None:
        m = w.method(raw, "prepare")
    pin_config(w)
    w.ev.call(m, [], {})


def pin_config(w):
    w.ev.modconst[("mouette.config", "complete_faces_from_cells")] = True
    w.ev.modconst[("mouette.config", "complete_edges_from_faces")] = True


def mk_raw(w, nv, edges=(), faces=(), cells=(), **kw):
    """template data with concrete (small integer) vertex indices and `nv` symbolic positions"""
    verts = w.container("vertices", [w.pos(i) for i in range(nv)])
    return w.raw(edges=edges, faces=faces, cells=cells, vertices=verts, **kw)


def undecide_raises(outs, label):
    """an exception on a valid template is outside what the rules can judge"""
    for o in outs:
        if o.unknown is None and o.raised is not None:
            o.unknown = Unknown(f"{label} raises on the template: {o.raised.value!r}")


def report_suspects(ctx, site, outs):
    """constructs met during the evaluation whose result depends on the representation of index values (R-ROW)"""
    seen = set()
    for o in outs or []:
        for what, node in getattr(o.ev, "suspects", []):
            if not what.startswith("identity"):
                continue
            src = au.src(node) if node is not None else what
            if src not in seen:
                seen.add(src)
                ctx.fail("C02-R1", site, f"`{src}`: {what}",
                         "behaviour depends on whether index rows are lists, tuples or numpy rows: `is` compares object identity; small python "
                         "ints are cached, numpy scalars and large ints are not")


def rows_(w, c):
    return [tuple(x) if isinstance(x, (list, tuple)) else x for x in w.data(c)]


def fmt(x):
    return M.fmt_face(x) if isinstance(x, (tuple, list)) else repr(x)


def sides_of(faces):
    return {frozenset(e) for f in faces for e in M.directed_edges(f)}


# ------------------------------------------------------------------------------------------------ H1 (also C13-H2)
def hard_edges_rule(ctx, RULE="C02-H1"):
    fn, site = step_site(ctx, "_complete_edges_from_faces")
    label = "edge completion / hard-edge flags"
    problems, allouts = [], []
    F = [(0, 1, 2), (2, 1, 3)]
    for sc in ("first", "nodecl", "again", "again-nodecl"):
        def build(w, sc=sc):
            if sc == "first":
                raw = mk_raw(w, 4, edges=[(1, 0), (2, 3)], faces=F)
            elif sc == "nodecl":
                raw = mk_raw(w, 4, edges=[], faces=F)
            else:
                # data that was prepared before (edges sorted, attribute present) and then edited: side 2-3 is not an edge yet
                raw = mk_raw(w, 4, edges=[(0, 1), (1, 2), (0, 2), (1, 3)], faces=F)
                w.attribute(raw.fields["edges"], "hard_edges", {0: True} if sc == "again" else {})
            n0 = len(w.data(raw.fields["edges"]))
            step(w, raw, "_complete_edges_from_faces")
            return w, raw, n0
        outs = M.run_paths(ctx, RULE, site, f"{label} ({sc})", build, both_orders=False)
        if outs is None:
            return
        undecide_raises(outs, label)
        allouts += outs
        for o in M.decided(outs):
            w, raw, n0 = o.value
            edges = raw.fields["edges"]
            he = w.attributes(edges).get("hard_edges")
            n1 = len(w.data(edges))
            if isinstance(he, AttrModel) and getattr(he, "dense", False):
                o.unknown = Unknown("the hard_edges attribute is created dense (array storage): its default values are not modelled")
                continue
            if sc.startswith("again"):
                if n1 == n0:
                    problems.append((RULE, "edges of faces are no longer completed on data that was already prepared (the 'hard_edges' attribute exists)",
                                     "re-preparing a mesh that was edited in place (triangulated quads, fan splits) must still add the new sides as edges; "
                                     "otherwise faces have sides that are not edges"))
                want = {0: True} if sc == "again" else {}
                if isinstance(he, AttrModel) and {k: v for k, v in he.data.items() if v is True or v == 1} != want:
                    problems.append((RULE, "every current edge is flagged hard each time prepare() runs, also on data wrapped from an already built mesh",
                                     "RawMeshData(mesh) starts unprepared and shares the mesh's containers: re-preparing (every editing block of "
                                     "subdivision.py does) marks the edges generated from faces as hard edges; only edges the caller declared may be "
                                     f"flagged and building again must change nothing (flags after re-preparation: {sorted(he.data)})"))
                continue
            if not isinstance(he, AttrModel):
                problems.append((RULE, "_complete_edges_from_faces can finish without the 'hard_edges' attribute existing",
                                 "the attribute is what marks data as already prepared: if a first preparation can leave it absent (e.g. when no edge was "
                                 "declared), the next preparation of the built mesh flags every edge generated from faces as a hard edge"))
                continue
            flagged = sorted(k for k, v in he.data.items() if v is True or v == 1)
            if flagged != list(range(n0)):
                problems.append((RULE, "hard-edge flagging does not range over exactly the edges present before completion",
                                 f"{n0} edge(s) were declared, {n1 - n0} generated from faces; flagged indices: {flagged} - edges generated from faces "
                                 "must not be flagged, declared ones must"))
    M.settle(ctx, site, allouts, problems, [RULE], "hard-edge flags on first build / no declared edge / re-preparation", label)


# ------------------------------------------------------------------------------------------------ P2 + K1: completion
HEX_SETS = [(0, 1, 2, 3), (4, 5, 6, 7), (0, 3, 7, 4), (0, 1, 5, 4), (1, 2, 6, 5), (2, 3, 7, 6)]
TET_TABLE = ((1, 3, 2), (0, 2, 3), (3, 1, 0), (0, 1, 2))


def completion_rule(ctx):
    # ---- edges from faces
    fn, site = step_site(ctx, "_complete_edges_from_faces")
    label = "completion of edges from faces"
    faces = [(3, 0, 5), (5, 0, 2, 6), (6, 2, 1, 4, 3)]          # triangle, quad, pentagon; sides 0-5 and 2-6 shared, indices in no particular order

    def build(w):
        raw = mk_raw(w, 7, edges=[(5, 0), (3, 4)], faces=faces)   # two declared edges (both are sides of faces), one not sorted
        step(w, raw, "_complete_edges_from_faces")
        return w, raw
    outs = M.run_paths(ctx, "C02-P2", site, label, build, both_orders=False)
    if outs is not None:
        undecide_raises(outs, label)
        problems = []
        for o in M.decided(outs):
            w, raw = o.value
            Ed = rows_(w, raw.fields["edges"])
            want = sides_of(faces)
            got = Counter(frozenset(e) if isinstance(e, tuple) else e for e in Ed)
            dup = [k for k, c in got.items() if c > 1]
            if dup:
                problems.append(("C02-P2", "_complete_edges_from_faces: an edge is stored twice",
                                 f"edge {fmt(sorted(dup[0]))} appears {got[dup[0]]} times (declared, or shared by two faces): completion must "
                                 "check the key set before adding and remember what it adds"))
            missing, extra = want - set(got), set(got) - want
            if missing:
                problems.append(("C02-P2", "_complete_edges_from_faces: a side of a face does not become an edge",
                                 f"missing {[fmt(sorted(m)) for m in missing]}: every side (f[i], f[i+1 mod n]) of every face must be an edge"))
            if extra:
                problems.append(("C02-P2", "_complete_edges_from_faces: an edge that is not a side of a face is generated",
                                 f"extra {[fmt(sorted(m)) if isinstance(m, frozenset) else repr(m) for m in extra]}"))
            for e in Ed[2:]:
                if not (isinstance(e, tuple) and len(e) == 2 and e[0] < e[1]):
                    problems.append(("C02-K1", "_complete_edges_from_faces: edge stored without keyify normalisation",
                                     f"generated edge {fmt(e)}: every stored edge must have its low index first; edge_id() and the feature / border code "
                                     "look edges up under sorted keys"))
        M.settle(ctx, site, outs, problems, ["C02-P2", "C02-K1"], "every side once, low index first", label)
    # ---- faces from cells
    fn, site = step_site(ctx, "_complete_faces_from_cells")
    label = "completion of faces from cells"
    hexa = (3, 4, 5, 6, 7, 8, 9, 10)
    cells = [(0, 1, 2, 3), (1, 0, 2, 4), (1, 0, 3, 11), hexa]     # three tetrahedra: faces 0-1-2 and 0-1-3 are shared; one hexahedron

    def build(w):
        # declared: faces 0 and 1 of the table of the first tetrahedron (rotated) and its face 3 (shared with the second cell)
        raw = mk_raw(w, 12, faces=[(3, 2, 1), (2, 3, 0), (2, 0, 1)], cells=cells)
        step(w, raw, "_complete_faces_from_cells")
        return w, raw
    outs = M.run_paths(ctx, "C02-P2", site, label, build, both_orders=False)
    if outs is not None:
        undecide_raises(outs, label)
        problems = []
        for o in M.decided(outs):
            w, raw = o.value
            F = rows_(w, raw.fields["faces"])
            got = Counter(frozenset(f) for f in F)
            want = set()
            for c in cells[:3]:
                for i in range(4):
                    want.add(frozenset(c[:i] + c[i + 1:]))
            for q in HEX_SETS:
                want.add(frozenset(hexa[i] for i in q))
            dup = [k for k, c in got.items() if c > 1]
            if dup:
                problems.append(("C02-P2", "_complete_faces_from_cells: a face is stored twice",
                                 f"face {fmt(sorted(dup[0]))} appears {got[dup[0]]} times: a face declared by the caller or shared by two cells "
                                 "must be stored once"))
            if set(got) != want:
                miss, extra = want - set(got), set(got) - want
                problems.append(("C02-P2", "_complete_faces_from_cells: the faces are not the four triangles of each tetrahedron and the six quads of each hexahedron",
                                 f"missing {[fmt(sorted(m)) for m in miss]}, unexpected {[fmt(sorted(m)) for m in extra]}"))
            bad = [f for f in F if len(set(f)) != len(f)]
            if bad:
                problems.append(("C02-P2", "_complete_faces_from_cells: a generated face repeats a vertex", fmt(bad[0])))

            def cyc(t):
                t = list(t)
                k = t.index(min(t))
                a = tuple(t[k:] + t[:k])
                return min(a, (a[0],) + tuple(reversed(a[1:])))
            canon = {frozenset(hexa[i] for i in q): cyc([hexa[i] for i in q]) for q in HEX_SETS}
            for f in F:
                if frozenset(f) in canon and cyc(f) != canon[frozenset(f)]:
                    problems.append(("C02-P2", "_complete_faces_from_cells: a quad of a hexahedron does not go round its four vertices",
                                     f"face {fmt(f)}: consecutive vertices must be joined by an edge of the cell (expected the cycle {fmt(canon[frozenset(f)])})"))
        M.settle(ctx, site, outs, problems, ["C02-P2"], "every cell face once", label)


# ------------------------------------------------------------------------------------------------ O1 + F1 + K1: normalisation of the edges
def prepare_edges_rule(ctx):
    fn, site = step_site(ctx, "_prepare_edges")
    label = "normalisation of the edges"
    # ---- O1: one edge (a, b) on a grid of orderings of a, b, 0, N  (+ a valid witness edge so that both branches are exercised)
    problems, allouts = [], []
    grid = [(a, b, N) for N in (1, 2, 4) for a in (-1, 0, 1, 2, 3, 4, 5) for b in (-1, 0, 1, 2, 3, 4, 5)
            if a <= N + 1 and b <= N + 1]
    bad_o1 = []
    for with_witness in (False, True):
        for a, b, N in grid:
            if with_witness and N < 2:
                continue

            def build(w, a=a, b=b, N=N, ww=with_witness):
                raw = mk_raw(w, N, [(a, b)] + ([(1, 0), (0, 0)] if ww else []))
                step(w, raw, "_prepare_edges")
                return w, raw
            outs = M.run_paths(ctx, "C02-O1", site, label, build, both_orders=False)
            if outs is None:
                return
            undecide_raises(outs, label)
            allouts += [o for o in outs if o.unknown is not None][:1]
            for o in M.decided(outs):
                w, raw = o.value
                Ed = rows_(w, raw.fields["edges"])
                given = [(a, b)] + ([(1, 0), (0, 0)] if with_witness else [])
                want = Counter(frozenset(e) for e in given if e[0] != e[1] and 0 <= e[0] < N and 0 <= e[1] < N)
                got = Counter(frozenset(e) for e in Ed)
                if got != want:
                    bad_o1.append((a, b, N, got[frozenset((a, b))] > want[frozenset((a, b))] or (a == b and got[frozenset((a,))] > 0)))
                    continue
                for e in Ed:
                    if not (len(e) == 2 and e[0] < e[1]):
                        problems.append(("C02-K1", "_prepare_edges: edge stored without keyify normalisation",
                                         f"edge {fmt(e)} after normalisation: every stored edge must have its low index first; edge_id() and the "
                                         "feature / border code look edges up under sorted keys"))
    if bad_o1:
        a, b, N, kept = bad_o1[0]
        problems.append(("C02-O1", "an edge is not kept exactly when `a != b and 0 <= a < N and 0 <= b < N`",
                         f"with N = {N} vertices the declared edge ({a},{b}) is {'kept' if kept else 'dropped'}: a self-loop or out-of-range edge would be "
                         f"kept (or a valid edge dropped); {len(bad_o1)} of the evaluated orderings differ"))
    # ---- F1: compaction of indices and attribute values
    def build(w):
        raw = mk_raw(w, 3, [(1, 1), (2, 0), (5, 0), (1, 2), (0, 0), (0, 1)])
        W = {i: Opaque(("value", i)) for i in (0, 1, 2, 5)}
        w.attribute(raw.fields["edges"], "weight", dict(W), typ="float", elemsize=1)
        w.attribute(raw.fields["edges"], "hard_edges", {1: True, 2: True, 5: True}, typ="bool")
        step(w, raw, "_prepare_edges")
        return w, raw, W
    outs = M.run_paths(ctx, "C02-F1", site, label, build, both_orders=False)
    if outs is None:
        return
    undecide_raises(outs, label)
    allouts += outs
    for o in M.decided(outs):
        w, raw, W = o.value
        Ed = rows_(w, raw.fields["edges"])
        if Ed != [(0, 2), (1, 2), (0, 1)]:
            if Counter(map(frozenset, Ed)) == Counter(map(frozenset, [(0, 2), (1, 2), (0, 1)])) and all(e[0] < e[1] for e in Ed):
                problems.append(("C02-F1", "surviving edges are not kept in their original order", f"edges after filtering: {Ed}"))
            continue      # kept set wrong: reported by O1 / K1 above
        attrs = w.attributes(raw.fields["edges"])
        wa, ha = attrs.get("weight"), attrs.get("hard_edges")
        if not isinstance(wa, AttrModel) or not isinstance(ha, AttrModel):
            problems.append(("C02-F1", "an attribute of the edges is lost when invalid edges are dropped",
                             f"attributes after filtering: {sorted(attrs)}: surviving edges keep their attribute values"))
            continue
        want_w = {0: W[1], 2: W[5]}
        want_h = {0: True, 2: True}
        if wa.data != want_w or {k: v for k, v in ha.data.items() if v is True or v == 1} != want_h:
            problems.append(("C02-F1", "surviving attribute values are not copied as new[n] = old[ie] (ie present in old) with n the number of edges kept before",
                             f"edges 1, 3, 5 of 6 survive as 0, 1, 2; attribute holding values at old indices 0,1,2,5 ends with indices {sorted(wa.data)} "
                             f"(values of old {[k for v in wa.data.values() for k, x in W.items() if x == v]}), flags {sorted(ha.data)}: an edge that survives "
                             "the filter keeps its attribute values under its new index; dropped edges lose theirs"))
    report_suspects(ctx, site, allouts)
    M.settle(ctx, site, allouts, problems, ["C02-O1", "C02-F1", "C02-K1"], "validity on a grid of orderings; compaction of attribute values", label)


# ------------------------------------------------------------------------------------------------ C1 + P1: corner generation
def _corner_state(w, c):
    return list(w.elem(c)), list(w.adj(c))


def corner_rules(ctx):
    specs = [("_generate_face_corners", "face_corners", "faces"), ("_generate_cell_corners", "cell_corners", "cells")]
    for meth, cont, elems in specs:
        fn, site = step_site(ctx, meth)
        problems, allouts = [], []
        for sc in ("empty", "stale", "complete", "owners-missing"):
            if sc == "owners-missing" and cont != "cell_corners":
                continue

            def build(w, sc=sc, cont=cont, elems=elems):
                rs = [(0, 2, 1), (1, 2, 3, 4)] if elems == "faces" else [(0, 2, 1, 3), (2, 1, 3, 4, 5)]
                el = [v for r in rs for v in r]
                ow = [i for i, r in enumerate(rs) for _ in r]
                pre = {"empty": ((), ()), "stale": (el[:len(rs[0])], ow[:len(rs[0])]), "complete": (el, ow), "owners-missing": (el, ())}[sc]
                raw = mk_raw(w, 6, **{elems: rs, cont: pre})
                step(w, raw, meth)
                return w, raw, el, ow
            label = f"{meth} ({sc})"
            outs = M.run_paths(ctx, "C02-C1", site, label, build, both_orders=False)
            if outs is None:
                break
            undecide_raises(outs, label)
            allouts += outs
            for o in M.decided(outs):
                w, raw, el, ow = o.value
                ge, ga = _corner_state(w, raw.fields[cont])
                if sc == "stale" and cont == "cell_corners":
                    continue   # cell corners are only regenerated when one of the two arrays is empty (documented behaviour of the library)
                if len(ge) != len(ga):
                    problems.append(("C02-P1", f"{meth}: the parallel arrays of {cont} end with different lengths",
                                     f"case `{sc}`: {len(ge)} element(s) but {len(ga)} owner(s): a corner record must receive its element and its owner "
                                     "together; corner i would pair an element with the wrong owner"))
                elif (ge, ga) != (el, ow):
                    what = {"empty": "no corner exists yet", "stale": "the existing records do not cover the " + elems,
                            "complete": "the records are already complete", "owners-missing": "only the owners are missing"}[sc]
                    problems.append(("C02-C1", f"{meth}: corners are not one record (vertex, owner) per incidence in element order",
                                     f"case `{sc}` ({what}): elements {ge}, owners {ga}; expected {el} / {ow}"))
        M.settle(ctx, site, allouts, problems, ["C02-C1", "C02-P1"], f"{meth}: one record per incidence", meth)
    # ---- cell faces
    meth = "_generate_cell_faces"
    fn, site = step_site(ctx, meth)
    problems = []
    hexa = (3, 4, 5, 6, 7, 8, 9, 10)
    cells = [(0, 1, 2, 3), (1, 0, 2, 4), hexa]
    faces = []
    for c in cells[:2]:
        for f in TET_TABLE:
            t = tuple(c[i] for i in f)
            if frozenset(t) not in [frozenset(x) for x in faces]:
                faces.append(t)
    for q in HEX_SETS:
        faces.append(tuple(hexa[i] for i in q))
    faces = faces[::-1]

    def build(w):
        raw = mk_raw(w, 11, faces=faces, cells=cells)
        step(w, raw, meth)
        return w, raw
    outs = M.run_paths(ctx, "C02-C1", site, meth, build, both_orders=False)
    if outs is not None:
        undecide_raises(outs, meth)
        for o in M.decided(outs):
            w, raw = o.value
            fcs = rows_(w, raw.fields["faces"])
            ge, ga = _corner_state(w, raw.fields["cell_faces"])
            if len(ge) != len(ga):
                problems.append(("C02-P1", f"{meth}: the parallel arrays of cell_faces end with different lengths",
                                 f"{len(ge)} face record(s) but {len(ga)} owner(s): cell_faces must hold one (face, cell) record per cell-face incidence; "
                                 "without the owner, cell_faces.adj() and attributes on cell faces are unusable"))
                continue
            want_adj = [i for i, c in enumerate(cells) for _ in range(4 if len(c) == 4 else 6)]
            okf = ga == want_adj
            for fi, ci in zip(ge, ga):
                if not (isinstance(fi, int) and 0 <= fi < len(fcs) and isinstance(ci, int) and 0 <= ci < len(cells)
                        and frozenset(fcs[fi]) <= frozenset(cells[ci])):
                    okf = False
            per_cell = {i: [fi for fi, ci in zip(ge, ga) if ci == i] for i in range(len(cells))}
            if okf and any(len(set(v)) != len(v) for v in per_cell.values()):
                okf = False
            if not okf:
                problems.append(("C02-C1", f"{meth}: the records are not one (face, cell) pair per cell-face incidence in cell order",
                                 f"faces {ge}, owners {ga}: each cell must own the indices of its own 4 (tetrahedron) / 6 (hexahedron) faces"))
                continue
            for ci, c in enumerate(cells):
                if len(c) == 4 and any(c[k] in fcs[fi] for k, fi in enumerate(per_cell[ci])):
                    problems.append(("C02-C1", f"{meth}: the i-th face record of a tetrahedron is not the face opposite to its i-th vertex",
                                     f"cell {fmt(c)} records faces {[fmt(fcs[fi]) for fi in per_cell[ci]]}: incidences must come in element order "
                                     "(face i does not contain vertex i)"))
        M.settle(ctx, site, outs, problems, ["C02-C1", "C02-P1"], f"{meth}: one record per cell-face incidence", meth)


# ------------------------------------------------------------------------------------------------ P1 on the container class itself
def container_class_rule(ctx):
    repo = ctx.repo
    cls = repo.cls(DC, "CornerDataContainer")
    site = ctx.site(DC, "CornerDataContainer")
    problems, allouts = [], []
    ops = [("append", lambda w, c, o: [Opaque("e"), Opaque("a")]),
           ("__iadd__", lambda w, c, o: [SList(items=[(Opaque("e1"), Opaque("a1")), (Opaque("e2"), Opaque("a2"))])]),
           ("__iadd__", lambda w, c, o: [o]),
           ("clear", lambda w, c, o: [])]
    for name, mk in ops:
        def build(w, name=name, mk=mk):
            c = w.corners("c", [1, 2], [7, 8])
            o = w.corners("o", [3], [9])
            args = mk(w, c, o)
            m = w.ev.find_method(c, name)
            if m is None:
                return None
            w.ev.call(m, args, {})
            return w, c, args
        outs = M.run_paths(ctx, "C02-P1", site, f"CornerDataContainer.{name}", build, both_orders=False)
        if outs is None:
            continue
        undecide_raises(outs, f"CornerDataContainer.{name}")
        allouts += outs
        for o in M.decided(outs):
            if o.value is None:
                continue
            w, c, args = o.value
            ge, ga = _corner_state(w, c)
            if len(ge) != len(ga):
                problems.append(("C02-P1", f"CornerDataContainer.{name}: {'_elem grows without _adj' if len(ge) > len(ga) else '_adj grows without _elem'} growing with it",
                                 f"after {name} on a container of 2 corners: {len(ge)} element(s), {len(ga)} owner(s): a corner record must receive its "
                                 "element and its owner together"))
            else:
                if name == "append":
                    want = ([1, 2, args[0]], [7, 8, args[1]])
                elif name == "clear":
                    want = ([], [])
                elif isinstance(args[0], Obj):
                    want = ([1, 2, 3], [7, 8, 9])
                else:
                    want = ([1, 2] + [p[0] for p in args[0]], [7, 8] + [p[1] for p in args[0]])
                if (ge, ga) != want:
                    problems.append(("C02-P1", f"CornerDataContainer.{name} does not store each (element, owner) pair in the two parallel arrays",
                                     f"elements {ge}, owners {ga}; expected {want[0]} / {want[1]}"))
    M.settle(ctx, site, allouts, problems, ["C02-P1"], "mutators of CornerDataContainer keep _elem / _adj in step", "CornerDataContainer")


# ------------------------------------------------------------------------------------------------ W1: wrapping a built mesh, extending a container
def wrap_rule(ctx):
    repo = ctx.repo
    init = repo.func(MD, RMD + ".__init__")
    site = ctx.site(MD, init)
    problems, allouts = [], []
    kinds = {"point cloud": ("vertices",), "polyline": ("vertices", "edges"), "surface": ("vertices", "edges", "faces", "face_corners"),
             "volume": ("vertices", "edges", "faces", "face_corners", "cells", "cell_corners", "cell_faces")}
    ALL = kinds["volume"]
    for kind, names in kinds.items():
        def build(w, names=names):
            mesh = w.stub_object("BuiltMesh", __closed__=True)
            content = {"vertices": [w.pos(i) for i in range(4)], "edges": [(0, 1), (1, 2)], "faces": [(0, 1, 2)], "cells": [(0, 1, 2, 3)]}
            for n in names:
                if n.endswith(("corners", "cell_faces")):
                    mesh.fields[n] = w.corners(n, [0, 1, 2], [0, 0, 0])
                else:
                    mesh.fields[n] = w.container(n, content[n])
            raw = w.ev.call(w.cls(M.MD, RMD), [mesh], {})
            return w, mesh, raw
        outs = M.run_paths(ctx, "C02-W1", site, f"RawMeshData(mesh) on a {kind}", build, both_orders=False)
        if outs is None:
            continue
        undecide_raises(outs, "RawMeshData(mesh)")
        allouts += outs
        for o in M.decided(outs):
            w, mesh, raw = o.value
            for n in ALL:
                c = raw.fields.get(n) if isinstance(raw, Obj) else None
                if not isinstance(c, Obj):
                    problems.append(("C02-W1", f"RawMeshData(mesh) has no container `{n}`", f"wrapping a {kind}"))
                    continue
                corner = n.endswith(("corners", "cell_faces"))
                try:
                    got = (list(w.elem(c)), list(w.adj(c))) if corner else list(w.data(c))
                except Unknown:
                    continue
                if n in names:
                    src = mesh.fields[n]
                    want_ = (list(w.elem(src)), list(w.adj(src))) if corner else list(w.data(src))
                    if got != want_:
                        problems.append(("C02-W1", f"RawMeshData(mesh) does not take the `{n}` of the mesh it wraps",
                                         f"wrapping a {kind}: `{n}` holds {len(got[0]) if corner else len(got)} element(s) instead of "
                                         f"{len(want_[0]) if corner else len(want_)}: building again from an already built mesh must change nothing"))
                elif (got != ([], []) if corner else got != []):
                    problems.append(("C02-W1", f"RawMeshData(mesh) fills `{n}` although the mesh has no such container", f"wrapping a {kind}"))
    # extending a container by another one copies the elements: the two containers stay independent
    def build2(w):
        a = w.container("a", [])
        b = w.container("b", [(0, 1), (1, 2)])
        m = w.ev.find_method(a, "__iadd__")
        r = w.ev.call(m, [b], {})
        r = r if isinstance(r, Obj) else a
        w.ev.call(w.method(r, "append"), [(2, 3)], {})
        c = w.container("c", [(5, 6)])
        r2 = w.ev.call(w.ev.find_method(c, "__iadd__"), [SList(items=[(7, 8)])], {})
        return w, r, b, (r2 if isinstance(r2, Obj) else c)
    s2 = ctx.site(DC, "DataContainer")
    outs = M.run_paths(ctx, "C02-W1", s2, "DataContainer += DataContainer", build2, both_orders=False)
    if outs is not None:
        undecide_raises(outs, "DataContainer.__iadd__")
        for o in M.decided(outs):
            w, a, b, c = o.value
            if rows_(w, a) != [(0, 1), (1, 2), (2, 3)] or rows_(w, c) != [(5, 6), (7, 8)]:
                problems.append(("C02-W1", "DataContainer.__iadd__ does not append the elements of the other collection in order",
                                 f"[] += [(0,1),(1,2)] then append (2,3) gives {rows_(w, a)}; [(5,6)] += [(7,8)] gives {rows_(w, c)}"))
            if rows_(w, b) != [(0, 1), (1, 2)]:
                problems.append(("C02-W1", "DataContainer.__iadd__ makes the receiver share the list of the container it is extended with",
                                 f"appending to the receiver afterwards changes the other container too ({rows_(w, b)}): a refinement that builds new "
                                 "data would write into the containers of the input mesh"))
        allouts += outs
    M.settle(ctx, site, allouts, problems, ["C02-W1"], "wrapping a built mesh / extending a container", "RawMeshData(mesh)")


# ------------------------------------------------------------------------------------------------ P1: lock-step writes in the other functions
SIDES = ("_elem", "_adj")


def _side_write(st):
    """writes of a simple statement to X._elem / X._adj: [(base source, side, kind)]  kind in rebind / fill"""
    out = []
    if isinstance(st, (ast.Assign, ast.AnnAssign)):
        for t in au.assign_targets(st):
            for x in (t.elts if isinstance(t, (ast.Tuple, ast.List)) else [t]):
                if isinstance(x, ast.Attribute) and x.attr in SIDES:
                    out.append((au.src(x.value), x.attr, "rebind"))
    elif isinstance(st, ast.AugAssign):
        t = st.target
        if isinstance(t, ast.Attribute) and t.attr in SIDES:
            out.append((au.src(t.value), t.attr, "fill"))
    elif isinstance(st, ast.Expr) and isinstance(st.value, ast.Call):
        c = st.value
        if isinstance(c.func, ast.Attribute) and c.func.attr in ("append", "extend", "insert") \
                and isinstance(c.func.value, ast.Attribute) and c.func.value.attr in SIDES:
            out.append((au.src(c.func.value.value), c.func.value.attr, "fill"))
    return out


def _if_paths(body, limit=512):
    """paths through a body forking on `if` (and try handlers) only; loop / with bodies are part of the path.  Each path is the list of
    simple statements executed, ending at return / raise."""
    paths = [([], False)]
    for st in body:
        new = []
        for stmts, done in paths:
            if done:
                new.append((stmts, done))
                continue
            if isinstance(st, ast.If):
                for br in (st.body, st.orelse):
                    for s2, d2 in _if_paths(br, limit):
                        new.append((stmts + s2, d2))
            elif isinstance(st, (ast.For, ast.AsyncFor, ast.While, ast.With, ast.AsyncWith)):
                for s2, d2 in _if_paths(st.body, limit):
                    new.append((stmts + s2, False if isinstance(st, (ast.For, ast.AsyncFor, ast.While)) else d2))
            elif isinstance(st, ast.Try):
                for s2, d2 in _if_paths(st.body + st.orelse + st.finalbody, limit):
                    new.append((stmts + s2, d2))
            elif isinstance(st, (ast.Return, ast.Raise)):
                new.append((stmts + [st], True))
            elif isinstance(st, (ast.Continue, ast.Break)):
                new.append((stmts, True))
            elif isinstance(st, (ast.FunctionDef, ast.AsyncFunctionDef, ast.ClassDef)):
                new.append((stmts, False))
            else:
                new.append((stmts + [st], False))
        paths = new
        if len(paths) > limit:
            raise Unknown("too many paths")
    return paths


def lockstep_rule(ctx):
    repo = ctx.repo
    mods = [MD, DC, MESH] if ctx.tier == "quick" else sorted(m[len("mouette."):] for m in repo.modules if m != "mouette")
    for modname in mods:
        mod = repo.module(modname)
        for q, fn in sorted(mod.funcs.items()):
            if (modname == MD and q.startswith(RMD + "._generate_")) or (modname == DC and q.startswith("CornerDataContainer.")):
                continue        # decided by evaluation (corner_rules / container_class_rule)
            if not any(_side_write(st) for st in au.stmts(fn.body)):
                continue
            site = ctx.site(mod.name, fn)
            try:
                paths = _if_paths(fn.body)
            except Unknown:
                ctx.undecided("C02-P1", site, f"{fn.name}: too many paths to decide the lock-step of the parallel arrays", "")
                continue
            bad = None
            for stmts, _ in paths:
                per = {}
                for st in stmts:
                    for base, side, kind in _side_write(st):
                        per.setdefault(base, {}).setdefault(side, []).append(kind)
                for base, d in per.items():
                    a, b = d.get("_elem", []), d.get("_adj", [])
                    if sorted(a) == sorted(b):
                        continue
                    one = a or b
                    if (not a or not b) and one[0] == "rebind":
                        continue      # reset A, refill A
                    bad = bad or (base, a, b)
            if bad and fn.name.startswith("_"):
                # a private helper may legitimately own one side only (the caller pairs it with the helper of the other side)
                ctx.undecided("C02-P1", site, f"{fn.name}: writes one of the two parallel arrays of a corner container alone",
                              "a private helper: whether its caller keeps the two arrays in step is not decided here")
            elif bad:
                base, a, b = bad
                ctx.fail("C02-P1", site, f"{fn.name}: {base}._elem and {base}._adj are not written in lock-step on every path",
                         f"on some path _elem receives {a or 'nothing'} and _adj receives {b or 'nothing'}: a corner record must receive its element "
                         "and its owner together (the only one-sided idiom accepted is `reset A, refill A`)")
            else:
                ctx.ok("C02-P1", site, f"{fn.name}: parallel arrays written in lock-step on every path")


# ------------------------------------------------------------------------------------------------ D1: dispatch, dimensionality, exposure
CLASS_DIM = {"PointCloud": ("mesh.datatypes.pointcloud", 0), "PolyLine": ("mesh.datatypes.linear", 1),
             "SurfaceMesh": ("mesh.datatypes.surface", 2), "VolumeMesh": ("mesh.datatypes.volume", 3)}


def dispatch_rule(ctx):
    repo = ctx.repo
    # ---- (a) _instanciate_raw_mesh_data: class for every (requested, data) dimension, data prepared before its dimensionality is read
    fn = repo.func(MESH, "_instanciate_raw_mesh_data")
    site = ctx.site(MESH, fn)
    problems, allouts = [], []
    table = {}
    for dd in (0, 1, 2, 3):
        for req in (None, 0, 1, 2, 3):
            def build(w, dd=dd, req=req):
                log = []
                raw = w.raw()
                raw.fields["_dimensionality"] = dd
                w.ev.hooks[("method", RMD, "prepare")] = lambda ev, o, a, k: log.append("prepare")
                w.ev.hooks[("attr", RMD, "dimensionality")] = lambda ev, o: (log.append("dim"), dd)[1]
                f = w.ev.lookup("_instanciate_raw_mesh_data", E.Frame("mouette.mesh.mesh"))
                r = w.ev.call(f, [raw] + ([req] if req is not None else []), {})
                return w, raw, r, log
            outs = M.run_paths(ctx, "C02-D1", site, "_instanciate_raw_mesh_data", build, both_orders=False)
            if outs is None:
                return
            undecide_raises(outs, "_instanciate_raw_mesh_data")
            allouts += [o for o in outs if o.unknown is not None][:1]
            for o in M.decided(outs):
                w, raw, r, log = o.value
                want = max(dd, req if req is not None else -1)
                got = r.cls.name if isinstance(r, Obj) else None
                table[(req, dd)] = got
                wantc = [c for c, (m, d) in CLASS_DIM.items() if d == want][0]
                given = (list(r.fields.get("__args__", [])) + list(r.fields.get("__kw__", {}).values())) if isinstance(r, Obj) else []
                if got != wantc or not any(x is raw for x in given):
                    if got is None:
                        problems.append(("C02-D1", "class dispatch does not cover every dimension 0..3",
                                         f"requested {req}, data of dimensionality {dd}: no mesh object is returned ({r!r}) - a mesh of a missing dimension "
                                         "would come back as None"))
                    elif got in CLASS_DIM:
                        problems.append(("C02-D1", f"dimension {want} dispatches to {got}",
                                         f"requested {req}, data of dimensionality {dd}: the class returned must be the one matching "
                                         f"max(requested, dimensionality of the data) = {want}, i.e. {wantc}"))
                    else:
                        o.unknown = Unknown(f"dispatch returns {r!r}")
                if "dim" in log and ("prepare" not in log or log.index("prepare") > log.index("dim")):
                    problems.append(("C02-D1", "data is not prepared before its dimensionality is read",
                                     "the class is chosen from the dimensionality of un-normalised data: when every declared edge is invalid the object "
                                     "has no edge but is built as a PolyLine"))
    M.settle(ctx, site, allouts, problems, ["C02-D1"], "dispatch table over requested x data dimension (20 cases)", "_instanciate_raw_mesh_data")
    # ---- (b) each class passes its own dimension to Mesh.__init__
    for cname, (cmod, cdim) in sorted(CLASS_DIM.items()):
        init = repo.func(cmod, cname + ".__init__")
        s2 = ctx.site(cmod, init)
        lits = []
        for c in au.calls(init):
            nm = au.call_name(c) or ""
            if au.call_tail(c) == "__init__" and (nm.startswith("Mesh.") or (isinstance(c.func, ast.Attribute) and isinstance(c.func.value, ast.Call)
                                                                              and au.call_tail(c.func.value) == "super")):
                args = c.args[1:] if nm.startswith("Mesh.") else c.args
                v = au.const(args[0]) if args else next((au.const(k.value) for k in c.keywords if k.arg == "dim"), None)
                lits.append(v)
        if not lits or lits[0] is None:
            ctx.undecided("C02-D1", s2, f"{cname}.__init__: the dimension passed to Mesh.__init__ is not a literal", "")
        else:
            ctx.check(lits[0] == cdim, "C02-D1", s2, f"dimension {cdim} is dispatched to {cname}, which builds itself with dimension {lits[0]}",
                      "the class returned must be the one matching the highest-dimensional element present", note=f"dim {cdim} -> {cname}")
    # ---- (c) dimensionality of the data: decision over the emptiness of cells / faces / edges
    fn, site = step_site(ctx, "_compute_dimensionality")
    problems, allouts = [], []
    for env in [(c, f, e) for c in (0, 1) for f in (0, 1) for e in (0, 1)]:
        def build(w, env=env):
            raw = mk_raw(w, 4, cells=[(0, 1, 2, 3)] * env[0], faces=[(0, 1, 2)] * env[1], edges=[(0, 1)] * env[2])
            step(w, raw, "_compute_dimensionality")
            return w.ev.getattr(raw, "dimensionality")
        outs = M.run_paths(ctx, "C02-D1", site, "dimensionality of the data", build, both_orders=False)
        if outs is None:
            break
        undecide_raises(outs, "dimensionality of the data")
        allouts += outs
        for o in M.decided(outs):
            want = 3 if env[0] else 2 if env[1] else 1 if env[2] else 0
            if o.value != want:
                problems.append(("C02-D1", "dimensionality is not 3 / 2 / 1 / 0 for the highest-dimensional non-empty container among cells, faces, edges",
                                 f"cells {'non-' if env[0] else ''}empty, faces {'non-' if env[1] else ''}empty, edges {'non-' if env[2] else ''}empty: "
                                 f"dimensionality {o.value!r} instead of {want}"))
    M.settle(ctx, site, allouts, problems, ["C02-D1"], "dimensionality decision table (8 cases)", "_compute_dimensionality")
    # ---- (d) Mesh.__init__ exposes containers by thresholds
    fn = repo.func(BASE, "Mesh.__init__")
    site = ctx.site(BASE, fn)
    problems, allouts = [], []
    want = {"vertices": -1, "edges": 0, "faces": 1, "face_corners": 1, "cells": 2, "cell_corners": 2, "cell_faces": 2}
    for dim, full in [(d, f) for d in (0, 1, 2, 3) for f in (True, False)]:
        def build(w, dim=dim, full=full):
            raw = mk_raw(w, 4, edges=[(1, 1), (1, 0)], faces=[(0, 1, 2)] if full else [], cells=[(0, 1, 2, 3)] if full else [])
            pin_config(w)
            me = Obj(w.cls("mouette.mesh.datatypes.base", "Mesh"), {})
            w.ev.call(w.method(me, "__init__"), [dim, raw], {})
            return w, raw, me
        outs = M.run_paths(ctx, "C02-D1", site, "Mesh.__init__", build, both_orders=False)
        if outs is None:
            break
        undecide_raises(outs, "Mesh.__init__")
        allouts += outs
        for o in M.decided(outs):
            w, raw, me = o.value
            exp = {k for k, t in want.items() if dim > t}
            got = {k for k in want if k in me.fields}
            wrong = [k for k in got if me.fields[k] is not raw.fields[k]]
            if got != exp:
                problems.append(("C02-D1", "Mesh.__init__ does not expose exactly the containers of its dimension, each bound to the data container of the same name",
                                 f"dimension {dim}: exposes {sorted(got)}, expected {sorted(exp)}"))
            elif wrong:
                problems.append(("C02-D1", "Mesh.__init__ binds a container that is not the one of the prepared data",
                                 f"dimension {dim}: {wrong} is not the container the data holds after prepare() (the normalisation of the edges may "
                                 "replace the container: the data must be prepared before its containers are taken)"))
            elif dim >= 1 and [tuple(e) for e in w.data(me.fields["edges"])][:1] != [(0, 1)]:
                problems.append(("C02-D1", "Mesh.__init__ does not prepare the data it is given",
                                 f"dimension {dim}: the mesh exposes the edges {rows_(w, me.fields['edges'])[:3]}...: not normalised / filtered"))
            elif dim == 0 and rows_(w, raw.fields["edges"])[:1] != [(0, 1)]:
                problems.append(("C02-D1", "Mesh.__init__ does not prepare the data it is given",
                                 f"dimension {dim}: the data keeps the edges {rows_(w, raw.fields['edges'])[:3]}: not normalised / filtered"))
    M.settle(ctx, site, allouts, problems, ["C02-D1"], "containers exposed by dimension thresholds (4 cases)", "Mesh.__init__")


# ------------------------------------------------------------------------------------------------ M1: prepare() as a whole
def prepare_order_rule(ctx):
    """prepare() evaluated as a whole on small concrete templates; the obligations are on the prepared data, not on the names or the
    order of the private steps: (a) data given by cells only ends with the faces of the cells, the sides of those faces as edges, corner
    records for all of them (completion of faces, then of edges, then normalisation / corner generation); (b) the dimensionality is
    the one of the *normalised* data, also when one was computed before; (c) preparing prepared data again changes nothing."""
    fn = ctx.repo.func(MD, RMD + ".prepare")
    site = ctx.site(MD, fn)
    problems, allouts = [], []
    cell = (0, 2, 1, 3)

    # (a) cells only
    def build_a(w):
        raw = mk_raw(w, 4, cells=[cell])
        pin_config(w)
        w.ev.call(w.method(raw, "prepare"), [], {})
        return w, raw
    outs = M.run_paths(ctx, "C02-M1", site, "prepare() on data given by cells only", build_a, both_orders=False)
    if outs is None:
        return
    undecide_raises(outs, "prepare()")
    allouts += outs
    for o in M.decided(outs):
        w, raw = o.value
        F, Ed = rows_(w, raw.fields["faces"]), rows_(w, raw.fields["edges"])
        want_f = {frozenset(cell[i] for i in t) for t in TET_TABLE}
        if {frozenset(f) for f in F} != want_f:
            problems.append(("C02-M1", "prepare() does not complete the faces of the cells", f"a tetrahedron alone ends with faces {[fmt(f) for f in F]}"))
            continue
        if {frozenset(e) for e in Ed} != sides_of(F) or len(Ed) != 6:
            problems.append(("C02-M1", "prepare() completes the edges before the faces of the cells exist",
                             f"a tetrahedron alone ends with {len(Ed)} edge(s): faces generated from cells must contribute their sides "
                             "(face completion before edge completion)"))
        fe, fa = _corner_state(w, raw.fields["face_corners"])
        if (fe, fa) != ([v for f in F for v in f], [i for i, f in enumerate(F) for _ in f]):
            problems.append(("C02-M1", "prepare() generates the face corners before the faces of the cells exist (or not at all)",
                             f"{len(fe)} corner record(s) for {sum(len(f) for f in F)} face-vertex incidences"))
        ce, ca = _corner_state(w, raw.fields["cell_corners"])
        if (ce, ca) != (list(cell), [0] * 4):
            problems.append(("C02-M1", "prepare() does not generate the cell corners", f"elements {ce}, owners {ca}"))
        ge, ga = _corner_state(w, raw.fields["cell_faces"])
        if ga != [0] * 4 or sorted(ge) != [0, 1, 2, 3]:
            problems.append(("C02-M1", "prepare() generates the cell-face records before the faces of the cells exist (or not at all)",
                             f"records {ge} / owners {ga} for one tetrahedron with 4 faces"))
        if w.ev.getattr(raw, "dimensionality") != 3:
            problems.append(("C02-M1", "prepare() leaves a wrong dimensionality", f"{w.ev.getattr(raw, 'dimensionality')!r} for data with a cell"))

    # (a') the same, with declared faces that list one face twice (opposite orientations): every cell-face record still names a face of its cell
    def build_a2(w):
        raw = mk_raw(w, 5, faces=[(0, 1, 2), (2, 1, 0)], cells=[(0, 2, 1, 3), (0, 1, 2, 4)])
        pin_config(w)
        w.ev.call(w.method(raw, "prepare"), [], {})
        return w, raw
    outs = M.run_paths(ctx, "C02-M1", site, "prepare() on cells with a face declared twice", build_a2, both_orders=False)
    if outs is not None:
        undecide_raises(outs, "prepare()")
        allouts += outs
        for o in M.decided(outs):
            w, raw = o.value
            F, C = rows_(w, raw.fields["faces"]), rows_(w, raw.fields["cells"])
            ge, ga = _corner_state(w, raw.fields["cell_faces"])
            bad = [(fi, ci) for fi, ci in zip(ge, ga) if not (isinstance(fi, int) and 0 <= fi < len(F) and isinstance(ci, int) and 0 <= ci < len(C)
                                                              and frozenset(F[fi]) <= frozenset(C[ci]))]
            per = {ci: [fi for fi, cj in zip(ge, ga) if cj == ci] for ci in range(len(C))}
            if len(ge) != len(ga) or bad or any(len(v) != 4 or any(C[ci][k] in F[fi] for k, fi in enumerate(v)) for ci, v in per.items()):
                problems.append(("C02-C1", "prepare(): a cell-face record names a face that does not belong to its cell",
                                 f"two tetrahedra, their common face declared twice: faces {[fmt(f) for f in F]}, records {list(zip(ge, ga))}"
                                 + (f" - record {bad[0]} pairs cell {fmt(C[bad[0][1]])} with face {fmt(F[bad[0][0]]) if isinstance(bad[0][0], int) and 0 <= bad[0][0] < len(F) else bad[0][0]}" if bad else "")
                                 + ": the index under which a completed face is recorded must be its position in the face container"))

    # (b) every declared edge invalid, a dimensionality already read before the preparation
    def build_b(w):
        raw = mk_raw(w, 3, edges=[(1, 1), (0, 7)])
        d0 = w.ev.getattr(raw, "dimensionality")      # read (and cached) before the edges are filtered
        pin_config(w)
        w.ev.call(w.method(raw, "prepare"), [], {})
        return w, raw, d0, w.ev.getattr(raw, "dimensionality")
    outs = M.run_paths(ctx, "C02-M1", site, "prepare() on data whose edges are all invalid", build_b, both_orders=False)
    if outs is not None:
        undecide_raises(outs, "prepare()")
        allouts += outs
        for o in M.decided(outs):
            w, raw, d0, d1 = o.value
            if rows_(w, raw.fields["edges"]) == [] and d1 != 0:
                problems.append(("C02-M1", "prepare() does not recompute the dimensionality after the edges were filtered",
                                 f"all declared edges are invalid and dropped, the dimensionality stays {d1!r} (it was {d0!r} before the preparation): "
                                 "the class would not match the highest-dimensional element present"))

    # (b') sides generated from a face that repeats a vertex are filtered like declared edges
    def build_b2(w):
        raw = mk_raw(w, 3, faces=[(0, 1, 1), (0, 1, 2)])
        pin_config(w)
        w.ev.call(w.method(raw, "prepare"), [], {})
        return w, raw
    outs = M.run_paths(ctx, "C02-M1", site, "prepare() on a face that repeats a vertex", build_b2, both_orders=False)
    if outs is not None:
        undecide_raises(outs, "prepare()")
        allouts += outs
        for o in M.decided(outs):
            w, raw = o.value
            loops = [e for e in rows_(w, raw.fields["edges"]) if len(e) == 2 and e[0] == e[1]]
            if loops:
                problems.append(("C02-M1", "prepare() filters the edges before the edges of the faces are generated",
                                 f"the self-loop {fmt(loops[0])} generated from the face (0,1,1) survives: completion must come before the normalisation of the edges"))

    # (b'') every vertex row is cast to the vector class, whatever its representation (list, tuple, array, already a vector)
    def build_v(w):
        from ..rules import hb_np
        vec_cls = w.cls("mouette.geometry.vector", "Vec")

        def mk_vec(ev, args, kw):
            return Obj(vec_cls, {"__opaque__": True, "__closed__": True, "data": args[0] if len(args) == 1 else tuple(args)})
        w.ev.hooks[("class", "Vec")] = mk_vec
        X = [Opaque(("coord", i)) for i in range(12)]
        rows = [mk_vec(w.ev, [tuple(X[0:3])], {}), SList(items=X[3:6]), tuple(X[6:9]), hb_np.Arr(list(X[9:12]))]
        raw = w.raw(vertices=w.container("vertices", rows))
        pin_config(w)
        w.ev.call(w.method(raw, "prepare"), [], {})
        return w, raw, vec_cls
    try:
        ctx.repo.cls("geometry.vector", "Vec")
        outs = M.run_paths(ctx, "C02-M1", site, "prepare() on vertex rows of several kinds", build_v, both_orders=False)
    except AnalysisError:
        outs = None
    if outs is not None:
        undecide_raises(outs, "prepare()")
        allouts += outs
        for o in M.decided(outs):
            w, raw, vec_cls = o.value
            kinds = ["a vector", "a list", "a tuple", "an array"]
            vs = list(w.data(raw.fields["vertices"]))
            bad = [kinds[i] for i, v in enumerate(vs[:4]) if not (isinstance(v, Obj) and v.cls.node is vec_cls.node)]
            if bad or len(vs) != 4:
                problems.append(("C02-M1", "prepare() does not cast every vertex to the vector class",
                                 f"vertices given as a vector, a list, a tuple and an array: the one(s) given as {', '.join(bad) or '?'} are left as they are "
                                 "- later behaviour (x/y/z access, arithmetic) would depend on how the rows were given"))

    # (c) prepared data is left alone
    def build_c(w):
        raw = mk_raw(w, 4, edges=[(1, 0)], faces=[(0, 1, 2), (2, 1, 3)])
        pin_config(w)
        w.ev.call(w.method(raw, "prepare"), [], {})
        snap = (rows_(w, raw.fields["edges"]), _corner_state(w, raw.fields["face_corners"]),
                dict(w.attributes(raw.fields["edges"]).get("hard_edges").data) if isinstance(w.attributes(raw.fields["edges"]).get("hard_edges"), AttrModel) else None)
        w.data(raw.fields["edges"]).append((3, 0))         # tamper: an edge that a second normalisation would sort / flag
        w.ev.call(w.method(raw, "prepare"), [], {})
        he = w.attributes(raw.fields["edges"]).get("hard_edges")
        return w, raw, snap, (rows_(w, raw.fields["edges"]), _corner_state(w, raw.fields["face_corners"]), dict(he.data) if isinstance(he, AttrModel) else None)
    outs = M.run_paths(ctx, "C02-M1", site, "prepare() called twice", build_c, both_orders=False)
    if outs is not None:
        undecide_raises(outs, "prepare()")
        allouts += outs
        for o in M.decided(outs):
            w, raw, snap, after = o.value
            if after[0] != snap[0] + [(3, 0)] or after[1] != snap[1] or after[2] != snap[2]:
                problems.append(("C02-M1", "prepare() does not start with `if self._prepared: return` / does not end with `self._prepared = True`",
                                 f"a second prepare() on prepared data changes it (edges {snap[0]} + [(3,0)] -> {after[0]}, hard flags {snap[2]} -> {after[2]}): "
                                 "building again from an already prepared object must change nothing"))
    M.settle(ctx, site, allouts, problems, ["C02-M1", "C02-C1"], "prepare(): cells-only data, duplicate declared face, stale dimensionality, idempotence", "prepare()")


# ------------------------------------------------------------------------------------------------ A1: from_arrays
def from_arrays_rule(ctx):
    from ..rules import hb_np
    fn = ctx.repo.func(MESH, "from_arrays")
    site = ctx.site(MESH, fn)
    ps = au.params(fn)
    problems, allouts = [], []
    X = [Opaque(("coord", i)) for i in range(12)]

    def run(label, V, E_=None, F=None, C=None, raw=True):
        def build(w):
            inst = []

            def h_inst(ev, args, kw):
                inst.append((args, kw))
                return Opaque(("instantiated",))
            w.ev.hooks.update(hb_np.hooks())
            w.ev.hooks[("func", "_instanciate_raw_mesh_data")] = h_inst
            w.ev.hooks[("func", "mouette.mesh.mesh._instanciate_raw_mesh_data")] = h_inst
            f = w.ev.lookup("from_arrays", E.Frame("mouette.mesh.mesh"))
            arr = lambda x: None if x is None else hb_np.Arr([list(r) for r in x])
            r = w.ev.call(f, [arr(V), arr(E_), arr(F), arr(C)], {"raw": raw})
            return w, r, inst
        outs = M.run_paths(ctx, "C02-A1", site, f"from_arrays ({label})", build, both_orders=False)
        if outs is None:
            return None
        allouts.extend(o for o in outs if o.unknown is not None)
        return M.decided(outs)

    def rows_of(w, c):
        out = []
        for r in w.data(c):
            out.append(tuple(r.data) if isinstance(r, hb_np.Arr) else tuple(r) if isinstance(r, (list, tuple)) else r)
        return out
    # ---- vertices: padded to three columns, wider arrays rejected
    for width in (1, 2, 3, 4):
        V = [[X[3 * i + j] for j in range(width)] for i in range(3)]
        outs = run(f"vertex array with {width} column(s)", V)
        if outs is None:
            return
        for o in outs:
            if width > 3:
                if o.raised is None:
                    problems.append(("C02-A1", "from_arrays does not reject vertex arrays wider than three columns", "the finished object must have 3-D vertices"))
                continue
            if o.raised is not None:
                problems.append(("C02-A1", f"from_arrays rejects a vertex array with {width} column(s)", f"raises {o.raised.value!r}: narrower arrays are padded with zeros"))
                continue
            w, r, inst = o.value
            if not isinstance(r, Obj) or "vertices" not in r.fields:
                o.unknown = Unknown("from_arrays(raw=True) does not return raw mesh data")
                allouts.append(o)
                continue
            got = rows_of(w, r.fields["vertices"])
            want = [tuple(row + [0] * (3 - width)) for row in V]
            if [tuple(x) for x in got] != want and not (len(got) == 3 and all(len(g) == 3 and list(g[:width]) == V[i] and all(z == 0 for z in g[width:]) for i, g in enumerate(got))):
                problems.append(("C02-A1", "from_arrays does not pad narrower vertex arrays to three columns",
                                 f"{width} column(s) given: vertices stored as rows of {sorted({len(g) for g in got})} coordinate(s): the finished object must have 3-D vertices"))
    # ---- index arrays: range-checked, stored in the container of their own kind
    V3 = [[X[3 * i + j] for j in range(3)] for i in range(4)]
    kinds = [("edges", 1, [[0, 1], [2, 3]], [[0, 1], [2, 4]]), ("faces", 2, [[0, 1, 2], [1, 2, 3]], [[0, 1, 2], [4, 2, 3]]),
             ("cells", 3, [[0, 1, 2, 3]], [[0, 1, 4, 3]])]
    for kind, slot, good, bad in kinds:
        pname = ps[slot] if len(ps) > slot else kind
        args = {1: dict(E_=good), 2: dict(F=good), 3: dict(C=good)}[slot]
        outs = run(f"valid {kind} array", V3, **args)
        if outs is None:
            return
        for o in outs:
            if o.raised is not None:
                o.unknown = Unknown(f"from_arrays raises on a valid {kind} array: {o.raised.value!r}")
                allouts.append(o)
                continue
            w, r, inst = o.value
            if not isinstance(r, Obj) or kind not in r.fields:
                continue
            got = {k: rows_of(w, r.fields[k]) for k in ("edges", "faces", "cells")}
            if kind != "edges" and got["edges"] and [tuple(x) for x in got[kind]] == [tuple(x) for x in good]:
                problems.append(("C02-A1", "from_arrays fills the `edges` container although no edge array was given",
                                 f"{len(got['edges'])} edge(s) are put into the raw data next to the {kind}: prepare() regards every edge already present as "
                                 "declared by the caller and flags it as a hard edge - only edges the caller declared may be flagged, whatever the way "
                                 "the mesh is built"))
            elif [tuple(x) for x in got[kind]] != [tuple(x) for x in good] or any(got[k] for k in got if k != kind):
                problems.append(("C02-A1", f"from_arrays: the `{pname}` array is not appended to `{kind}`",
                                 f"rows given for {kind} end in " + ", ".join(f"{k}: {len(v)}" for k, v in got.items()) +
                                 "; an index array must land in the container of its own kind"))
        args = {1: dict(E_=bad), 2: dict(F=bad), 3: dict(C=bad)}[slot]
        outs = run(f"{kind} array with an index equal to the number of vertices", V3, **args)
        if outs is None:
            return
        for o in outs:
            if o.raised is None:
                problems.append(("C02-A1", f"from_arrays: the `{pname}` array is not range-checked (index >= number of vertices rejected)",
                                 f"a row of {kind} refers to vertex 4 of 4 and is accepted"))
    # ---- every array is checked, also when a valid one follows
    for label2, args in (("an out-of-range edge array followed by a valid face array", dict(E_=kinds[0][3], F=kinds[1][2])),
                         ("an out-of-range face array followed by a valid cell array", dict(F=kinds[1][3], C=kinds[2][2]))):
        outs = run(label2, V3, **args)
        if outs is None:
            return
        for o in outs:
            if o.raised is None:
                problems.append(("C02-A1", "from_arrays: an index array is not range-checked when another array follows",
                                 f"{label2}: accepted - every index array must be checked against the vertex count"))
    # ---- not raw: the data is handed to the class dispatch
    outs = run("raw=False", V3, F=[[0, 1, 2]], raw=False)
    if outs is not None:
        for o in outs:
            if o.raised is None:
                w, r, inst = o.value
                if len(inst) != 1 or not isinstance(inst[0][0][0] if inst[0][0] else None, Obj):
                    problems.append(("C02-A1", "from_arrays(raw=False) does not hand the raw data to the class dispatch", f"returns {r!r}"))
    M.settle(ctx, site, allouts, problems, ["C02-A1"], "from_arrays: pad / reject / range-check / own container", "from_arrays")



# ----------------------------------------------------------------------- generic families (msa/rules/generic.py)
_run_specific = run


def run(ctx):
    _run_specific(ctx)
    from ..rules import generic
    generic.apply(ctx, "C02", stale_modules=())
    generic.attribute_membership(ctx, "C02-F2", "mesh.mesh_data", "the filtered rebuild of the edge container keeps an attribute value only when "
                                 "`old index in attribute` holds: with a dense (array) edge attribute the test compares the index with the stored "
                                 "values, so surviving edges lose their values when an invalid edge is dropped")


def _generic_rule_texts():
    from ..rules import generic
    return generic.rule_texts("C02", stale=False)


RULES.update(_generic_rule_texts())
RULES["C02-F2"] = ("R-MEMBER: a membership test `k in A` on an attribute object means `element k has an entry` for both storage classes "
                   "(each defines __contains__ over element indices, or iterates over indices)")
