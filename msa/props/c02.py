"""C02 - mesh construction normalises raw data, whatever its form (structural clauses)."""
from __future__ import annotations
import ast
from .. import au, sym, order
from ..core import AnalysisError
from ..rules import common, rows, tables

MD = "mesh.mesh_data"
DC = "mesh.data_container"
MESH = "mesh.mesh"
BASE = "mesh.datatypes.base"
RMD = "RawMeshData"

EXPLANATION = (
    "Static conformance of RawMeshData.prepare() and the container classes: row-type agnosticism of every consumer of index "
    "rows (R-ROW), lock-step updates of the parallel corner arrays, keyify normalisation of every stored edge, "
    "check-then-add de-duplication, edge validity predicate under all orderings, compaction offset of the filtered rebuild, "
    "class dispatch table, raw->prepared typestate of hard-edge flagging, order of the phases of prepare(), shape of corner "
    "generation. Structural necessary conditions only.")

RULES = {
    "C02-R1": "index rows are used only through sequence-agnostic operations (R-ROW)",
    "C02-P1": "the parallel arrays _elem/_adj of a corner container are written in lock-step (same block), the only accepted "
              "one-sided idiom being 'reset A, refill A'",
    "C02-K1": "every edge stored by RawMeshData is keyify-normalised (low index first)",
    "C02-P2": "completed edges / faces are appended under `key not in S` together with `S.add(key)` in the same block, S seeded from the declared elements",
    "C02-O1": "an edge is kept iff a != b and 0 <= a < N and 0 <= b < N with N the number of vertices",
    "C02-F1": "in the filtered rebuild the compacted index advances once per kept edge, after the attribute values were copied under it",
    "C02-D1": "class dispatch is total over {0,1,2,3} and agrees with the dimension each class passes to Mesh.__init__; containers are exposed by the same thresholds",
    "C02-H1": "hard-edge flagging must not run again on data that already went through prepare() (only declared edges are hard; rebuilding changes nothing)",
    "C02-M1": "prepare(): prepared flag tested first and set last; face completion before edge completion before normalisation / corner generation",
    "C02-A1": "from_arrays: vertices are padded to exactly three columns (other widths rejected), every index array is range-checked against "
              "the vertex count and appended to the container of its own kind, under `is not None`",
    "C02-C1": "corner generation emits one record (element, owner) per incidence in element order",
}

ROW_MODULES_QUICK = [MD, MESH, DC, BASE, "mesh.datatypes.volume", "mesh.datatypes.surface", "mesh.datatypes.linear"]


def run(ctx):
    repo = ctx.repo
    rows.selfcheck()
    mods = ROW_MODULES_QUICK if ctx.tier == "quick" else sorted(m[len("mouette."):] for m in repo.modules if m != "mouette")
    uses = 0
    for m in mods:
        uses += rows.check_module(ctx, "C02-R1", m)
    ctx.require_count("C02-R1 row uses", uses, 60)
    p1_parallel_arrays(ctx)
    k1_edges_keyified(ctx)
    p2_check_then_add(ctx)
    o1_is_valid(ctx)
    f1_compaction(ctx)
    d1_dispatch(ctx)
    h1_hard_edges(ctx)
    h2_hard_edges_typestate(ctx)
    m1_prepare_order(ctx)
    c1_corner_generation(ctx)
    a1_from_arrays(ctx)


# ---------------------------------------------------------------------------- P1
SIDES = ("_elem", "_adj")


def _side_write(st):
    """Classify a statement as a write to X._elem / X._adj: returns list of (base_src, side, kind, value)."""
    out = []
    if isinstance(st, (ast.Assign, ast.AnnAssign)):
        for t in au.assign_targets(st):
            if isinstance(t, ast.Attribute) and t.attr in SIDES:
                out.append((au.src(t.value), t.attr, "rebind", st.value))
    elif isinstance(st, ast.AugAssign):
        t = st.target
        if isinstance(t, ast.Attribute) and t.attr in SIDES:
            out.append((au.src(t.value), t.attr, "fill", st.value))
    elif isinstance(st, ast.Expr) and isinstance(st.value, ast.Call):
        c = st.value
        if isinstance(c.func, ast.Attribute) and c.func.attr in ("append", "extend", "insert") \
                and isinstance(c.func.value, ast.Attribute) and c.func.value.attr in SIDES:
            out.append((au.src(c.func.value.value), c.func.value.attr, "fill", c))
    return out


def _is_empty_list(v):
    return (isinstance(v, ast.List) and not v.elts) or (isinstance(v, ast.Call) and au.call_tail(v) == "list" and not v.args)


def p1_parallel_arrays(ctx):
    repo = ctx.repo
    mods = [MD, DC, MESH] if ctx.tier == "quick" else sorted(m[len("mouette."):] for m in repo.modules if m != "mouette")
    n_sites = 0
    for modname in mods:
        mod = repo.module(modname)
        for q, fn in sorted(mod.funcs.items()):
            writes = []  # (stmt, base, side, kind, value)
            for st in au.stmts(fn.body):
                for w in _side_write(st):
                    writes.append((st,) + w)
            if not writes:
                continue
            for st, base, side, kind, val in writes:
                n_sites += 1
                other = SIDES[1 - SIDES.index(side)]
                blk, owner = au.enclosing_block(st)
                same_block = [w for w in writes if w[1] == base and w[2] == other and w[3] == kind
                              and au.enclosing_block(w[0])[0] is blk]
                site = ctx.site(mod.name, fn, st)
                if same_block:
                    ctx.ok("C02-P1", site, f"{base}.{side} and {base}.{other} written in the same block")
                    continue
                if kind == "rebind":
                    # one-sided reset: must be an empty list and be refilled (same side only) below in this block
                    following = blk[[id(x) for x in blk].index(id(st)) + 1:] if blk else []
                    fills = [w for s in following for s2 in [s] + list(au.stmts(getattr(s, "body", []) or []))
                             for w in _side_write(s2) if w[0] == base and w[2] == "fill"]
                    ok = _is_empty_list(val) and fills and all(w[1] == side for w in fills)
                    ctx.check(ok, "C02-P1", site,
                              f"{fn.name}: {base}.{side} is reset without {base}.{other}, and the refill does not target {side} only",
                              f"after `{au.src(st)}` the two parallel arrays of the corner container get out of step "
                              f"(refilled sides: {sorted({w[1] for w in fills}) or 'none'}): corner i would pair an element with the wrong owner",
                              note="reset A / refill A idiom")
                else:
                    # one-sided fill: accepted only under a one-sided reset of the same side in an enclosing block
                    ok = False
                    for anc in au.ancestors(st):
                        for fld in ("body", "orelse"):
                            sub = getattr(anc, fld, None)
                            if not isinstance(sub, list):
                                continue
                            resets = [w for s in sub for w in _side_write(s) if w[0] == base and w[2] == "rebind"]
                            if resets and all(w[1] == side for w in resets) and any(_is_empty_list(w[3]) for w in resets):
                                ok = True
                        if isinstance(anc, (ast.FunctionDef,)):
                            break
                    ctx.check(ok, "C02-P1", site,
                              f"{fn.name}: {base}.{side} grows without {base}.{other} growing in the same block",
                              f"`{au.src(st)}`: a corner record must receive its element and its owner together; here one of the two "
                              f"parallel arrays is extended alone (or only under an extra condition)",
                              note="one-sided refill under one-sided reset")
    ctx.require_count("C02-P1 parallel-array write sites", n_sites, 20)


# ---------------------------------------------------------------------------- K1
def k1_edges_keyified(ctx):
    repo = ctx.repo
    cls = repo.cls(MD, RMD)
    n = 0
    for fn in [st for st in cls.body if isinstance(st, ast.FunctionDef)]:
        b = sym.Bindings(fn)

        def is_edges(e):
            if au.is_self_attr(e, "edges"):
                return True
            if isinstance(e, ast.Name):
                d = b.reaching(e.id, where[0]) if where[0] is not None else None
                if d is None and b.single(e.id):
                    d = b.defs[e.id]
                if isinstance(d, ast.Call) and au.call_tail(d) == "DataContainer":
                    return any(k.arg == "id" and au.const(k.value) == "edges" for k in d.keywords)
            return False
        where = [None]
        for st in au.stmts(fn.body):
            where[0] = st
            val = None
            if isinstance(st, ast.Expr) and isinstance(st.value, ast.Call) and au.call_tail(st.value) == "append" \
                    and isinstance(st.value.func, ast.Attribute) and is_edges(st.value.func.value) and st.value.args:
                val = st.value.args[0]
            elif isinstance(st, ast.Assign) and isinstance(st.targets[0], ast.Subscript) and is_edges(st.targets[0].value):
                val = st.value
            elif isinstance(st, ast.AugAssign) and is_edges(st.target):
                val = st.value
            if val is None:
                continue
            n += 1
            r = b.resolve(val, at=st)
            ok = common.is_keyify(r)
            if not ok and isinstance(r, (ast.ListComp, ast.GeneratorExp)):
                ok = common.is_keyify(r.elt)
            ctx.check(ok, "C02-K1", ctx.site(MD, fn, st),
                      f"{fn.name}: edge stored without keyify normalisation (`{au.src(val)}`)",
                      "every stored edge must have its low index first; edge_id() and the feature / border code look edges up "
                      "under sorted keys", note="edge stored through keyify")
    ctx.require_count("C02-K1 edge stores", n, 3)


# ---------------------------------------------------------------------------- P2
def p2_check_then_add(ctx):
    repo = ctx.repo
    for q, cont in [(RMD + "._complete_edges_from_faces", "edges"), (RMD + "._complete_faces_from_cells", "faces")]:
        fn = repo.func(MD, q)
        site = ctx.site(MD, fn)
        b = sym.Bindings(fn)
        apps = [c for c in au.calls(fn) if au.call_tail(c) == "append" and isinstance(c.func, ast.Attribute)
                and au.is_self_attr(c.func.value, cont) and c.args]
        if not apps:
            ctx.fail("C02-P2", site, f"{fn.name}: no append to self.{cont}", "completion no longer adds the missing elements")
            continue
        for c in apps:
            st = au.enclosing_stmt(c)
            s = ctx.site(MD, fn, c)
            x = c.args[0]
            key = b.resolve(x, at=st)
            gs = au.guards(c)
            ok_guard = False
            setname = None
            for t, pol in gs:
                if isinstance(t, ast.Compare) and len(t.ops) == 1 and isinstance(t.comparators[0], ast.Name):
                    notin = isinstance(t.ops[0], ast.NotIn) and pol or isinstance(t.ops[0], ast.In) and not pol
                    k = b.resolve(t.left, at=st)
                    same_key = au.same(k, key) or (common.is_keyify(k) and len(k.args) == 1 and au.same(k.args[0], key))
                    if notin and same_key and common.is_keyify(k):
                        ok_guard, setname, keyexpr = True, t.comparators[0].id, k
            ctx.check(ok_guard, "C02-P2", s, f"{fn.name}: append to self.{cont} is not guarded by `keyify(element) not in <set>`",
                      "an element already present (declared, or shared by two faces / cells) would be stored twice")
            if not ok_guard:
                continue
            blk, _ = au.enclosing_block(st)
            adds = [c2 for s2 in blk for c2 in au.calls(s2) if au.call_tail(c2) == "add" and isinstance(c2.func, ast.Attribute)
                    and isinstance(c2.func.value, ast.Name) and c2.func.value.id == setname and c2.args
                    and au.same(b.resolve(c2.args[0], at=s2), keyexpr)]
            ctx.check(bool(adds), "C02-P2", s, f"{fn.name}: the key of the appended element is not added to `{setname}` in the same block",
                      "the second face / cell sharing the element would append it again")
            # the set is seeded from the elements already in the container
            seed = b.defs.get(setname)
            seed_ok = False
            if isinstance(seed, ast.Call) and au.call_tail(seed) == "set" and seed.args:
                comp = seed.args[0]
                if isinstance(comp, (ast.ListComp, ast.GeneratorExp, ast.SetComp)):
                    seed_ok = common.is_keyify(comp.elt) and au.is_self_attr(comp.generators[0].iter, cont)
            elif isinstance(seed, ast.SetComp):
                seed_ok = common.is_keyify(seed.elt) and au.is_self_attr(seed.generators[0].iter, cont)
            ctx.check(seed_ok, "C02-P2", s, f"{fn.name}: `{setname}` is not seeded with the keyified elements already in self.{cont}",
                      "a declared element would be appended a second time by the completion")
        if cont == "edges":
            # every side (i, i+1 mod n) of every face
            ok = False
            for st in au.stmts(fn.body):
                if isinstance(st, ast.For) and au.is_self_attr(st.iter, "faces") and isinstance(st.target, ast.Name):
                    f = st.target.id
                    for s2 in st.body:
                        if isinstance(s2, ast.For) and isinstance(s2.iter, ast.Call) and au.call_tail(s2.iter) == "range" \
                                and len(s2.iter.args) == 1 and isinstance(s2.target, ast.Name):
                            i = s2.target.id
                            nsrc = au.src(s2.iter.args[0])
                            n_ok = au.src(b.resolve(s2.iter.args[0], at=s2)) == f"len({f})"
                            for c in apps:
                                if any(a is s2 for a in au.ancestors(c)):
                                    k = b.resolve(c.args[0], at=au.enclosing_stmt(c), keep=(i, f, nsrc))
                                    if common.is_keyify(k) and len(k.args) == 2:
                                        offs = [sym.mod_offset(a.slice, i, nsrc) if isinstance(a, ast.Subscript)
                                                and au.src(a.value) == f else None for a in k.args]
                                        ok = n_ok and None not in offs and sorted(offs) == [0, 1] and not au.guards(s2, stop=fn)[1:]
            ctx.check(ok, "C02-P2", site, "completed edges are not `keyify(f[i], f[(i+1)%len(f)])` for every i of every face",
                      "every side of every face must become an edge exactly once")


# ---------------------------------------------------------------------------- O1
def o1_is_valid(ctx):
    repo = ctx.repo
    outer = repo.func(MD, RMD + "._prepare_edges")
    q = RMD + "._prepare_edges.<locals>.is_valid"
    site = ctx.site(MD, outer)
    if not repo.has_func(MD, q):
        ctx.fail("C02-O1", site, "validity predicate is_valid(a,b) of _prepare_edges not found", "")
        return
    fn = repo.func(MD, q)
    ps = au.params(fn)
    rets = [st for st in fn.body if isinstance(st, ast.Return)]
    if len(ps) != 2 or len(rets) != 1 or rets[0].value is None:
        ctx.fail("C02-O1", site, "is_valid is not a two-argument single-return predicate", "")
        return
    bo = sym.Bindings(outer)
    ren = {ps[0]: "a", ps[1]: "b"}

    def s(node):
        if isinstance(node, ast.Name) and node.id in ren:
            return ren[node.id]
        if isinstance(node, ast.Name):
            d = bo.defs.get(node.id)
            if d is not None and au.src(d) == "len(self.vertices)":
                return "N"
        if au.src(node) == "len(self.vertices)":
            return "N"
        raise order.Unsupported(f"unknown operand {au.src(node)}")
    try:
        w, n = order.compare(rets[0].value, "a != b and 0 <= a and a < N and 0 <= b and b < N", s)
    except order.Unsupported as e:
        ctx.fail("C02-O1", ctx.site(MD, fn), "is_valid uses an operand other than its arguments and the vertex count", str(e))
        return
    ctx.check(w is None, "C02-O1", ctx.site(MD, fn),
              f"is_valid is `{au.src(rets[0].value)}`, not `a != b and 0 <= a < N and 0 <= b < N`",
              f"differs from the specification for {w}: a self-loop or out-of-range edge would be kept (or a valid edge dropped)",
              note=f"{n} orderings")
    # the filter and the rebuild use the same predicate
    uses = [c for c in au.calls(outer) if isinstance(c.func, ast.Name) and c.func.id == "is_valid"]
    ctx.check(len(uses) >= 2, "C02-O1", site, "the edge filter and the rebuild no longer share is_valid",
              "the decision to rebuild and the decision to keep an edge must be the same predicate")


# ---------------------------------------------------------------------------- F1
def f1_compaction(ctx):
    fn = ctx.repo.func(MD, RMD + "._prepare_edges")
    site = ctx.site(MD, fn)
    b = sym.Bindings(fn)
    apps = [c for c in au.calls(fn) if au.call_tail(c) == "append" and isinstance(c.func, ast.Attribute)
            and isinstance(c.func.value, ast.Name) and c.func.value.id != "self"]
    apps = [c for c in apps if isinstance(b.defs.get(c.func.value.id), ast.Call) and au.call_tail(b.defs[c.func.value.id]) == "DataContainer"]
    if len(apps) != 1:
        ctx.fail("C02-F1", site, "filtered rebuild: expected exactly one append to the new edge container", "")
        return
    app = apps[0]
    st = au.enclosing_stmt(app)
    blk, owner = au.enclosing_block(st)
    # guard: is_valid(a, b)
    g = au.guards(app, stop=None)
    inner = g[0] if g else None
    ok = inner is not None and inner[1] and isinstance(inner[0], ast.Call) and au.call_tail(inner[0]) == "is_valid"
    ctx.check(ok, "C02-F1", site, "kept edges are not exactly those satisfying is_valid", "")
    def _inc(s):
        i = au.increment(s)
        return i is not None and i[1] == 1 and au.const(i[2]) == 1 and i[0].isidentifier()
    incs = [s for s in blk if _inc(s)]
    if len(incs) != 1:
        ctx.fail("C02-F1", site, f"compacted edge index advanced {len(incs)} time(s) per kept edge instead of once",
                 "the new index of a kept edge is the number of edges kept before it")
        return
    nvar = au.increment(incs[0])[0]
    init = [s for s in au.stmts(fn.body) if isinstance(s, ast.Assign) and isinstance(s.targets[0], ast.Name)
            and s.targets[0].id == nvar and not _inc(s)]
    loops = [a for a in au.ancestors(st) if isinstance(a, ast.For)]
    ok = len(init) == 1 and au.const(init[0].value) == 0 and loops and not any(a is loops[-1] for a in au.ancestors(init[0])) \
        and len([s for s in au.stmts(fn.body) if au.increment(s) is not None and au.increment(s)[0] == nvar]) == 1
    ctx.check(ok, "C02-F1", site, f"compacted index `{nvar}` is not initialised to 0 before the loop and advanced only with the append",
              "surviving edges must be numbered 0,1,2,... in order")
    # attribute copy under index nvar, before the increment, guarded by `ie in old`
    copies = [s for s in au.stmts(blk) if isinstance(s, ast.Assign) and isinstance(s.targets[0], ast.Subscript)
              and isinstance(s.targets[0].value, ast.Subscript)]
    okc = False
    for s in copies:
        if au.src(s.targets[0].slice) == nvar and isinstance(s.value, ast.Subscript):
            old_idx = au.src(s.value.slice)
            gs = au.guards(s, stop=owner)
            sparse = any(isinstance(t, ast.Compare) and isinstance(t.ops[0], ast.In) and pol and au.src(t.left) == old_idx
                         and au.same(t.comparators[0], s.value.value) for t, pol in gs)
            top = s
            while au.enclosing_block(top)[0] is not blk:
                top = au.parent(top)
                if top is None:
                    break
            before = top is not None and [id(x) for x in blk].index(id(top)) < [id(x) for x in blk].index(id(incs[0]))
            # old index must be the loop variable over the old edges
            loopvar = loops[0].target.id if loops and isinstance(loops[0].target, ast.Name) else None
            okc = sparse and before and old_idx == loopvar
    ctx.check(okc, "C02-F1", site,
              "surviving attribute values are not copied as new[n] = old[ie] (ie present in old) before n advances",
              "an edge that survives the filter keeps its attribute values under its new index; dropped edges lose theirs")
    ok = any(isinstance(s, ast.Assign) and au.is_self_attr(s.targets[0], "edges") and isinstance(s.value, ast.Name)
             and s.value.id == app.func.value.id for s in au.stmts(fn.body))
    ctx.check(ok, "C02-F1", site, "the rebuilt edge container is not installed as self.edges", "")


# ---------------------------------------------------------------------------- D1
CLASS_DIM = {"PointCloud": ("mesh.datatypes.pointcloud", 0), "PolyLine": ("mesh.datatypes.linear", 1),
             "SurfaceMesh": ("mesh.datatypes.surface", 2), "VolumeMesh": ("mesh.datatypes.volume", 3)}


def d1_dispatch(ctx):
    repo = ctx.repo
    fn = repo.func(MESH, "_instanciate_raw_mesh_data")
    site = ctx.site(MESH, fn)
    table = {}
    for st in fn.body:
        if isinstance(st, ast.If) and isinstance(st.test, ast.Compare) and len(st.test.ops) == 1 \
                and isinstance(st.test.ops[0], ast.Eq) and isinstance(st.test.left, ast.Name) \
                and isinstance(au.const(st.test.comparators[0]), int) and len(st.body) == 1 \
                and isinstance(st.body[0], ast.Return) and isinstance(st.body[0].value, ast.Call) \
                and isinstance(st.body[0].value.func, ast.Name):
            table[au.const(st.test.comparators[0])] = st.body[0].value.func.id
    ctx.check(set(table) == {0, 1, 2, 3}, "C02-D1", site,
              f"class dispatch covers dimensions {sorted(table)} instead of 0..3", "a mesh of a missing dimension would come back as None")
    for d, cname in sorted(table.items()):
        if cname not in CLASS_DIM:
            ctx.fail("C02-D1", site, f"dimension {d} dispatches to unknown class {cname}", "")
            continue
        cmod, cdim = CLASS_DIM[cname]
        init = repo.func(cmod, cname + ".__init__")
        lit = None
        for c in au.calls(init):
            if au.call_name(c) == "Mesh.__init__" and len(c.args) >= 2:
                lit = au.const(c.args[1])
        ctx.check(lit == d, "C02-D1", ctx.site(cmod, init),
                  f"dimension {d} is dispatched to {cname}, which builds itself with dimension {lit}",
                  "the class returned must be the one matching the highest-dimensional element present",
                  note=f"dim {d} -> {cname}")
    # dim = max(dim, data.dimensionality) before the dispatch
    ok = any(isinstance(st, ast.Assign) and isinstance(st.value, ast.Call) and au.call_tail(st.value) == "max"
             and any(au.src(a).endswith(".dimensionality") for a in st.value.args) for st in fn.body)
    ctx.check(ok, "C02-D1", site, "the dispatched dimension is not max(requested, dimensionality of the data)", "")
    ok = any(isinstance(st, ast.Expr) and isinstance(st.value, ast.Call) and au.call_tail(st.value) == "prepare" for st in fn.body[:2])
    ctx.check(ok, "C02-D1", site, "data is not prepared before its dimensionality is read", "")
    # dimensionality: cells -> 3, faces -> 2, edges -> 1, else 0 - decided as a decision table over (container empty?) atoms, so
    # that the spelling of the if / elif chain does not matter
    fn = repo.func(MD, RMD + "._compute_dimensionality")
    from .. import decide

    def atom(e):
        if isinstance(e, ast.Call) and au.call_tail(e) == "empty" and au.is_self_attr(e.func.value):
            return e.func.value.attr
        if isinstance(e, ast.Compare) and len(e.ops) == 1 and isinstance(e.left, ast.Call) and au.call_tail(e.left) == "len" \
                and e.left.args and au.is_self_attr(e.left.args[0]) and au.const(e.comparators[0]) == 0:
            if isinstance(e.ops[0], ast.Eq):
                return (e.left.args[0].attr, True)
            if isinstance(e.ops[0], (ast.Gt, ast.NotEq)):
                return (e.left.args[0].attr, False)
        return None
    bad = None
    try:
        names, rows = decide.table(fn.body, atom)
        for env, taken in rows:
            want = 3 if not env.get("cells", True) else 2 if not env.get("faces", True) else 1 if not env.get("edges", True) else 0
            vals = [au.const(st.value) for p in taken for st in p.stmts if isinstance(st, ast.Assign) and au.is_self_attr(st.targets[0], "_dimensionality")]
            if len(taken) != 1 or vals[-1:] != [want]:
                bad = bad or (env, vals)
        if set(names) != {"cells", "faces", "edges"}:
            bad = bad or ("containers tested", names)
    except decide.Unknown as e:
        bad = ("condition not on the emptiness of a container", str(e))
    ctx.check(bad is None, "C02-D1", ctx.site(MD, fn),
              "dimensionality is not 3 / 2 / 1 / 0 for the highest-dimensional non-empty container among cells, faces, edges",
              f"differs for {bad}", note="dimensionality decision table (8 cases)")
    # Mesh.__init__ thresholds
    fn = repo.func(BASE, "Mesh.__init__")
    exposed = {}
    for st in fn.body:
        if isinstance(st, ast.Assign) and au.is_self_attr(st.targets[0]):
            exposed[st.targets[0].attr] = (-1, au.src(st.value))
        k = _gt_threshold(st.test) if isinstance(st, ast.If) else None
        if k is not None:
            for s in st.body:
                if isinstance(s, ast.Assign) and au.is_self_attr(s.targets[0]):
                    exposed[s.targets[0].attr] = (k, au.src(s.value))
    want = {"vertices": -1, "edges": 0, "faces": 1, "face_corners": 1, "cells": 2, "cell_corners": 2, "cell_faces": 2}
    got = {k: v[0] for k, v in exposed.items()}
    src_ok = all(v[1].endswith("." + k) for k, v in exposed.items())
    ctx.check(got == want and src_ok, "C02-D1", ctx.site(BASE, fn),
              f"Mesh.__init__ exposes containers {got}", f"expected thresholds {want}, each bound to the data container of the same name")


# ---------------------------------------------------------------------------- H1
def h1_hard_edges(ctx, RULE="C02-H1"):
    repo = ctx.repo
    fn = repo.func(MD, RMD + "._complete_edges_from_faces")
    site = ctx.site(MD, fn)
    b = sym.Bindings(fn)
    stores = []
    for st in au.stmts(fn.body):
        if isinstance(st, ast.Assign) and isinstance(st.targets[0], ast.Subscript) and au.const(st.value) is True:
            base = b.resolve(st.targets[0].value, at=st)
            if isinstance(base, ast.Call) and au.call_tail(base) in ("create_attribute", "get_attribute") and base.args \
                    and au.const(base.args[0]) == "hard_edges":
                stores.append(st)
    if not stores:
        ctx.fail(RULE, site, "declared edges are no longer flagged in the 'hard_edges' attribute", "")
        return
    init = repo.func(MD, RMD + ".__init__")
    inherits = any(isinstance(st, (ast.Assign, ast.AnnAssign)) and au.is_self_attr(au.assign_targets(st)[0], "_prepared")
                   and st.value is not None and not isinstance(st.value, ast.Constant) for st in au.stmts(init.body))
    for st in stores:
        gs = au.guards(st, stop=fn)
        guarded = False
        for t, pol in gs:
            s = au.src(t)
            if "hard_edges" in s and ("has_attribute" in s or "attributes" in s) and (
                    (isinstance(t, ast.UnaryOp) and pol) or (isinstance(t, ast.Compare) and isinstance(t.ops[0], ast.NotIn) and pol)
                    or (isinstance(t, ast.Call) and not pol) or (isinstance(t, ast.Compare) and isinstance(t.ops[0], ast.In) and not pol)):
                guarded = True
        ctx.check(guarded or inherits, RULE, ctx.site(MD, fn, st),
                  "every current edge is flagged hard each time prepare() runs, also on data wrapped from an already built mesh",
                  "RawMeshData(mesh) starts unprepared and shares the mesh's containers: re-preparing (every editing block of "
                  "subdivision.py does) marks the edges generated from faces as hard edges; only edges the caller declared may be "
                  "flagged and building again must change nothing",
                  note="hard-edge flagging guarded against re-preparation")
    # the flag loop ranges over the edges present *before* completion
    st = stores[0]
    loops = [a for a in au.ancestors(st) if isinstance(a, ast.For)]
    first_app = [c for c in au.calls(fn) if au.call_tail(c) == "append" and au.is_self_attr(c.func.value, "edges")]
    ok = bool(loops) and au.src(loops[0].iter) in ("self.id_edges", "range(len(self.edges))") and first_app \
        and loops[0].lineno < first_app[0].lineno
    ctx.check(ok, RULE, site, "hard-edge flagging does not range over exactly the edges present before completion",
              "edges generated from faces must not be flagged")




def _hard_attr_test(t):
    """(is_test_on_hard_edges_attribute, polarity_meaning_exists) for has_attribute('hard_edges') / 'hard_edges' in X.attributes"""
    if isinstance(t, ast.Call) and au.call_tail(t) == "has_attribute" and t.args and au.const(t.args[0]) == "hard_edges":
        return True
    if isinstance(t, ast.Compare) and len(t.ops) == 1 and isinstance(t.ops[0], ast.In) and au.const(t.left) == "hard_edges":
        return True
    return False


def h2_hard_edges_typestate(ctx, RULE="C02-H1"):
    """(a) after _complete_edges_from_faces ran past its `faces.empty()` exit the 'hard_edges' attribute exists on every path,
    so that a later re-preparation can recognise prepared data; (b) the completion of missing edges is reachable when the
    attribute already exists (re-preparing an edited mesh must still add the new edges)."""
    from ..flow import Flow, TOP
    fn = ctx.repo.func(MD, RMD + "._complete_edges_from_faces")
    site = ctx.site(MD, fn)

    def refine(state, e, branch):
        if state is TOP:
            return state
        if isinstance(e, ast.UnaryOp) and isinstance(e.op, ast.Not):
            return refine(state, e.operand, not branch)
        if isinstance(e, ast.BoolOp):
            if isinstance(e.op, ast.And) and branch or isinstance(e.op, ast.Or) and not branch:
                for v in e.values:
                    state = refine(state, v, branch)
            return state
        if isinstance(e, ast.Compare) and len(e.ops) == 1 and isinstance(e.ops[0], ast.NotIn) and au.const(e.left) == "hard_edges":
            return refine(state, ast.Compare(left=e.left, ops=[ast.In()], comparators=e.comparators), not branch)
        if _hard_attr_test(e):
            if branch:
                return TOP if "absent" in state else state | {"exists"}
            return TOP if "exists" in state else state | {"absent"}
        return state
    visited = {}

    def stmt(state, st):
        if state is TOP:
            return state
        if not hasattr(st, "loop"):
            for c in au.calls(st):
                if au.call_tail(c) == "create_attribute" and c.args and au.const(c.args[0]) == "hard_edges":
                    state = (state - {"absent"}) | {"exists"}
                if au.call_tail(c) == "append" and au.is_self_attr(c.func.value, "edges"):
                    visited.setdefault("append", []).append(state)
        return state
    # (a) from an unknown state
    fl = Flow(stmt, lambda s_, e: s_, refine)
    fl.run(fn.body, frozenset())
    bad_exits = []
    for kind, node, st_ in fl.exits:
        if kind == "raise" or st_ is TOP:
            continue
        early = node is not None and any(isinstance(t, ast.Call) and au.call_tail(t) == "empty" and au.is_self_attr(t.func.value, "faces")
                                         for t, pol in au.guards(node, stop=fn) if pol)
        if not early and "exists" not in st_:
            bad_exits.append(node.lineno if node is not None else "end")
    ctx.check(not bad_exits, RULE, site,
              "_complete_edges_from_faces can finish without the 'hard_edges' attribute existing",
              "the attribute is what marks data as already prepared: if a first preparation can leave it absent (e.g. when no edge was "
              "declared), the next preparation of the built mesh flags every edge generated from faces as a hard edge",
              note="hard_edges exists on every normal exit")
    # (b) with the attribute present, the completion append must still be reachable
    visited.clear()
    fl2 = Flow(stmt, lambda s_, e: s_, refine)
    fl2.run(fn.body, frozenset({"exists"}))
    reach = [s_ for s_ in visited.get("append", []) if s_ is not TOP]
    ctx.check(bool(reach), RULE, site,
              "edges of faces are no longer completed when the 'hard_edges' attribute already exists",
              "re-preparing a mesh that was edited in place (triangulated quads, fan splits) must still add the new sides as edges; "
              "otherwise faces have sides that are not edges",
              note="edge completion independent of the hard_edges attribute")

# ---------------------------------------------------------------------------- M1
def m1_prepare_order(ctx):
    fn = ctx.repo.func(MD, RMD + ".prepare")
    site = ctx.site(MD, fn)
    body = [st for st in fn.body if not (isinstance(st, ast.Expr) and isinstance(st.value, ast.Constant))]
    first = body[0] if body else None
    ok = isinstance(first, ast.If) and au.is_self_attr(first.test, "_prepared") and len(first.body) == 1 \
        and isinstance(first.body[0], ast.Return)
    ctx.check(ok, "C02-M1", site, "prepare() does not start with `if self._prepared: return`",
              "building again from an already prepared object must change nothing")
    last = body[-1] if body else None
    ok = isinstance(last, ast.Assign) and au.is_self_attr(last.targets[0], "_prepared") and au.const(last.value) is True
    ctx.check(ok, "C02-M1", site, "prepare() does not end with `self._prepared = True`", "")
    seq = [c.func.attr for st in body for c in sorted(au.calls(st), key=lambda c: (c.lineno, c.col_offset))
           if isinstance(c.func, ast.Attribute) and au.is_self_attr(c.func)]
    need = ["_complete_faces_from_cells", "_complete_edges_from_faces", "_prepare_vertices", "_prepare_edges",
            "_generate_face_corners", "_generate_cell_corners", "_generate_cell_faces", "_compute_dimensionality"]
    missing = [x for x in need if x not in seq]
    ctx.check(not missing, "C02-M1", site, f"prepare() no longer calls {missing}", "")
    if missing:
        return
    before = [("_complete_faces_from_cells", "_complete_edges_from_faces"),
              ("_complete_edges_from_faces", "_prepare_edges"), ("_complete_faces_from_cells", "_generate_face_corners"),
              ("_complete_faces_from_cells", "_generate_cell_faces"), ("_complete_edges_from_faces", "_compute_dimensionality"),
              ("_complete_faces_from_cells", "_compute_dimensionality")]
    for a, bb in before:
        ctx.check(seq.index(a) < seq.index(bb), "C02-M1", site, f"prepare() calls {bb} before {a}",
                  "edges of completed faces / corners of completed faces would be missing")


# ---------------------------------------------------------------------------- C1
def c1_corner_generation(ctx):
    repo = ctx.repo
    for q, cont, elems in [(RMD + "._generate_face_corners", "face_corners", "faces"),
                           (RMD + "._generate_cell_corners", "cell_corners", "cells")]:
        fn = repo.func(MD, q)
        site = ctx.site(MD, fn)
        ok = False
        for st in au.stmts(fn.body):
            if isinstance(st, ast.For) and isinstance(st.iter, ast.Call) and au.call_tail(st.iter) == "enumerate" \
                    and st.iter.args and au.is_self_attr(st.iter.args[0], elems) and isinstance(st.target, ast.Tuple):
                idx, row = (x.id if isinstance(x, ast.Name) else None for x in st.target.elts)
                for s in st.body:
                    if isinstance(s, ast.For) and isinstance(s.iter, ast.Name) and s.iter.id == row and isinstance(s.target, ast.Name):
                        v = s.target.id
                        for c in au.calls(s):
                            if au.call_tail(c) == "append" and au.is_self_attr(c.func.value, cont) and len(c.args) == 2:
                                ok = ok or (au.src(c.args[0]) == v and au.src(c.args[1]) == idx and not au.guards(c, stop=st))
        ctx.check(ok, "C02-C1", site,
                  f"{fn.name}: corners are not generated as `for i,row in enumerate({elems}): for v in row: {cont}.append(v, i)`",
                  "one corner record per incidence, in element order, with (element, owner)")
    fn = repo.func(MD, RMD + "._generate_cell_faces")
    site = ctx.site(MD, fn)
    # each face of the table is recorded through the keyified lookup and owner iC, unconditionally
    b = sym.Bindings(fn)
    oke = oka = False
    for st in au.stmts(fn.body):
        for w in _side_write(st):
            base, side, kind, val = w
            if base.endswith("cell_faces") and kind == "fill" and isinstance(val, ast.Call):
                loops = [a for a in au.ancestors(st) if isinstance(a, ast.For)]
                if len(loops) < 2:
                    continue
                face = loops[0].target.id if isinstance(loops[0].target, ast.Name) else None
                outer_idx = loops[1].target.elts[0].id if isinstance(loops[1].target, ast.Tuple) else None
                arg = val.args[0] if val.args else None
                if side == "_elem" and isinstance(arg, ast.Subscript) and common.is_keyify(arg.slice) \
                        and au.src(arg.slice.args[0]) == face:
                    oke = True
                if side == "_adj" and arg is not None and au.src(arg) == outer_idx and not au.guards(st, stop=loops[0]):
                    oka = True
    ctx.check(oke, "C02-C1", site, "_generate_cell_faces: the recorded element is not face_id[keyify(face)] for each table face", "")
    ctx.check(oka, "C02-C1", site, "_generate_cell_faces: the owner cell is not recorded unconditionally for each table face",
              "cell_faces must hold one (face, cell) record per cell-face incidence; without the owner, cell_faces.adj() and "
              "attributes on cell faces are unusable")


def _gt_threshold(test):
    """test is `name > k` in any spelling (`k < name`, `name >= k+1`, `not name <= k`): returns k, else None"""
    t, pol = au.strip_not(test)
    if not (isinstance(t, ast.Compare) and len(t.ops) == 1):
        return None
    l, r, op = t.left, t.comparators[0], type(t.ops[0])
    if isinstance(r, ast.Name) and isinstance(au.const(l), int):
        l, r = r, l
        op = {ast.Lt: ast.Gt, ast.LtE: ast.GtE, ast.Gt: ast.Lt, ast.GtE: ast.LtE}.get(op)
    if not (isinstance(l, ast.Name) and isinstance(au.const(r), int)) or op is None:
        return None
    k = au.const(r)
    if not pol:
        op = {ast.Lt: ast.GtE, ast.LtE: ast.Gt, ast.Gt: ast.LtE, ast.GtE: ast.Lt}.get(op)
    return {ast.Gt: k, ast.GtE: k - 1}.get(op)


# ---------------------------------------------------------------------------- A1
def a1_from_arrays(ctx):
    fn = ctx.repo.func(MESH, "from_arrays")
    site = ctx.site(MESH, fn)
    ps = au.params(fn)
    V = ps[0]
    b = sym.Bindings(fn)
    # padding
    pad_ok = rej_ok = False
    for st in fn.body:
        if isinstance(st, ast.If) and isinstance(st.test, ast.Compare) and f"{V}.shape[1]" in [au.src(x) for x in [st.test.left] + st.test.comparators]:
            try:
                w, _ = order.compare(st.test, "w < 3", lambda node: "w" if au.src(node) == f"{V}.shape[1]" else (_ for _ in ()).throw(order.Unsupported("x")))
            except order.Unsupported:
                w = True
            pads = [c for c in au.calls(st.body) if au.call_tail(c) == "pad"]
            if w is None and pads and len(pads[0].args) >= 2:
                widths = au.src(pads[0].args[1]).replace(" ", "")
                pad_ok = widths == f"((0,0),(0,3-{V}.shape[1]))"
            for el in st.orelse:
                if isinstance(el, ast.If):
                    try:
                        w2, _ = order.compare(el.test, "w != 3", lambda node: "w" if au.src(node) == f"{V}.shape[1]" else (_ for _ in ()).throw(order.Unsupported("x")))
                    except order.Unsupported:
                        w2 = True
                    rej_ok = w2 is None and any(isinstance(x, ast.Raise) for x in el.body)
    ctx.check(pad_ok and rej_ok, "C02-A1", site, "from_arrays does not pad narrower vertex arrays to three columns and reject wider ones",
              "the finished object must have 3-D vertices", note="pad to 3 / reject others")
    nv = None
    for st in fn.body:
        for name, val in sym.split_assign(st):
            if au.src(val) == f"{V}.shape[0]":
                nv = name
    kinds = {"edges": None, "faces": None, "cells": None}
    for st in fn.body:
        if isinstance(st, ast.If) and isinstance(st.test, ast.Compare) and isinstance(st.test.ops[0], ast.IsNot) \
                and isinstance(st.test.left, ast.Name) and au.const(st.test.comparators[0]) is None and st.test.left.id in ps:
            arr = st.test.left.id
            adds = [s_ for s_ in st.body if isinstance(s_, ast.AugAssign) and isinstance(s_.target, ast.Attribute) and s_.target.attr in kinds]
            checks = [s_ for s_ in st.body if isinstance(s_, ast.If) and any(isinstance(x, ast.Raise) for x in s_.body)]
            rng = False
            for c in checks:
                for n in au.walk(c.test):
                    if isinstance(n, ast.Compare) and isinstance(n.ops[0], ast.GtE) and au.src(n.comparators[0]) == nv \
                            and arr in au.names(n.left):
                        rng = True
            if len(adds) == 1:
                payload = adds[0].value
                while isinstance(payload, ast.Call) and au.call_tail(payload) in ("list", "tuple") and len(payload.args) == 1:
                    payload = payload.args[0]
                before = all(c.lineno < adds[0].lineno for c in checks)
                kinds[adds[0].target.attr] = (arr, au.src(payload) == arr, rng and before)
    expect = dict(zip(("edges", "faces", "cells"), ps[1:4]))
    for k, arr in expect.items():
        got = kinds.get(k)
        ctx.check(got is not None and got[0] == arr and got[1] and got[2], "C02-A1", site,
                  f"from_arrays: the `{arr}` array is not range-checked (index >= number of vertices rejected) and appended to `{k}`",
                  f"found {got}; an index array must land in the container of its own kind", note=f"{arr} -> {k}, range-checked")
