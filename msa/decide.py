"""Decision tables: what a small branching body does under every truth assignment of its conditions.

`table(body, atom)` enumerates the structured paths of `body` (if / elif / else, early return / raise / continue, in any spelling)
and evaluates the guards of each path under every truth assignment of the atoms that `atom(expr)` names.  A rule can then state
its specification as a function of the atoms and compare, instead of matching the layout of the if-chain."""
from __future__ import annotations
import ast, itertools
from . import au, order
from .rules.c1120_util import paths


class Unknown(Exception):
    pass


def ev(test, env, atom):
    if isinstance(test, ast.UnaryOp) and isinstance(test.op, ast.Not):
        return not ev(test.operand, env, atom)
    if isinstance(test, ast.BoolOp):
        vals = [ev(v, env, atom) for v in test.values]
        return all(vals) if isinstance(test.op, ast.And) else any(vals)
    if isinstance(test, ast.Constant) and isinstance(test.value, bool):
        return test.value
    a = atom(test)
    if a is None:
        raise Unknown(au.src(test))
    if isinstance(a, tuple):          # (name, polarity)
        return env[a[0]] == a[1]
    return env[a]


def atoms_of(test, atom, out):
    if isinstance(test, ast.UnaryOp) and isinstance(test.op, ast.Not):
        return atoms_of(test.operand, atom, out)
    if isinstance(test, ast.BoolOp):
        for v in test.values:
            atoms_of(v, atom, out)
        return
    if isinstance(test, ast.Constant) and isinstance(test.value, bool):
        return
    a = atom(test)
    if a is None:
        raise Unknown(au.src(test))
    out.add(a[0] if isinstance(a, tuple) else a)


def table(body, atom, env_ok=None):
    """[(env, path)] - for every truth assignment `env` of the atoms (accepted by env_ok) the unique path taken.
    Raises Unknown when a condition is not expressible with the atoms."""
    ps = paths(body)
    names = set()
    for p in ps:
        for t, pol, kind in p.guards:
            if kind == "if":
                atoms_of(t, atom, names)
    names = sorted(names)
    out = []
    for vals in itertools.product((False, True), repeat=len(names)):
        env = dict(zip(names, vals))
        if env_ok is not None and not env_ok(env):
            continue
        taken = [p for p in ps if all(ev(t, env, atom) == pol for t, pol, kind in p.guards if kind == "if")]
        out.append((env, taken))
    return names, out
