"""Value resolution by reaching definitions, with the binding forms maintainers actually use (group I: C14 / C19).

`Flow(fn).resolve(expr, at)` rewrites `expr` as seen at program point `at` into an expression over the *inputs* of the function:
local names are replaced by the definition that reaches `at`, through

  * plain / annotated / tuple assignments (`a, b = x, y`;  `a, b = f()` gives `f()[0]`, `f()[1]`;  `a, b = (g(v) for v in S)` gives
    `g(S[0])`, `g(S[1])`),
  * augmented assignments (`w /= s` gives `w_before / s`),
  * walrus bindings in an earlier statement or in the test of an enclosing `if` / `while`,
  * `if` statements that bind the name in one or both branches: a conditional expression `a if test else b` (so a rule that must
    hold for every definition that can reach a use inspects every alternative),
  * loop and comprehension targets, written as the synthetic calls  `__elem__(S)` (an element of S, in order), `__index__(S)` (the
    counter of `enumerate(S)`), `__range__(args)` (the variable of a `range` loop); `zip` gives an `__elem__` per argument.

Names that are parameters, that are carried around a loop, or whose binding form is not understood are left as they are.
Two spellings of the same data flow resolve to the same tree, which the rules then compare structurally."""
from __future__ import annotations
import ast
from .. import au, sym

SYNTH = ("__elem__", "__index__", "__range__", "__mutated__")
INPLACE = ("sort", "reverse", "shuffle", "partition", "fill", "resize", "put", "itemset", "byteswap")
COMPS = (ast.ListComp, ast.GeneratorExp, ast.SetComp, ast.DictComp)


def clone(e):
    return sym.clone(e)


def call(name, *args):
    return ast.Call(func=ast.Name(id=name, ctx=ast.Load()), args=[clone(a) for a in args], keywords=[])


def is_synth(e, name=None):
    return isinstance(e, ast.Call) and isinstance(e.func, ast.Name) and e.func.id in SYNTH and (name is None or e.func.id == name)


def index(e, k):
    """element k of a value: of a literal tuple / list, of a one-generator comprehension, else `e[k]`"""
    if isinstance(e, (ast.Tuple, ast.List)) and k < len(e.elts) and not any(isinstance(x, ast.Starred) for x in e.elts):
        return e.elts[k]
    if isinstance(e, (ast.GeneratorExp, ast.ListComp)) and len(e.generators) == 1 and not e.generators[0].ifs \
            and isinstance(e.generators[0].target, ast.Name):
        g = e.generators[0]
        item = g.iter.elts[k] if isinstance(g.iter, (ast.Tuple, ast.List)) and k < len(g.iter.elts) and not any(isinstance(x, ast.Starred) for x in g.iter.elts) \
            else ast.Subscript(value=clone(g.iter), slice=ast.Constant(k), ctx=ast.Load())
        out = sym.subst(e.elt, {g.target.id: item})
        # the variable may already have been resolved to `__elem__(iterable)`: that element is entry k too
        key = ast.dump(g.iter)

        class T(ast.NodeTransformer):
            def visit_Call(self, node):
                if is_synth(node, "__elem__") and len(node.args) == 1 and ast.dump(node.args[0]) == key:
                    return clone(item)
                return self.generic_visit(node)
        return T().visit(out)
    return ast.Subscript(value=clone(e), slice=ast.Constant(k), ctx=ast.Load())


def target_value(target, value, name):
    """the value bound to `name` by `target = value` (None if `name` is not bound by this target)"""
    if isinstance(target, ast.Name):
        return value if target.id == name else None
    if isinstance(target, ast.Starred):
        return None
    if isinstance(target, (ast.Tuple, ast.List)):
        if any(isinstance(x, ast.Starred) for x in target.elts):
            return None
        for k, t in enumerate(target.elts):
            if name in au.assigned_names(t):
                return target_value(t, index(value, k), name)
    return None


def loop_binding(target, it, name):
    """value bound to `name` by `for target in it`"""
    if isinstance(it, ast.Call) and isinstance(it.func, ast.Name) and it.func.id == "zip" and all(k.arg == "strict" for k in it.keywords):
        it = ast.copy_location(ast.Call(func=it.func, args=it.args, keywords=[]), it)
    if isinstance(it, ast.Call) and isinstance(it.func, ast.Name) and it.func.id == "enumerate" and 1 <= len(it.args) <= 2 \
            and all(k.arg == "start" for k in it.keywords) and len(it.args) + len(it.keywords) == 2 \
            and isinstance(target, (ast.Tuple, ast.List)) and len(target.elts) == 2:
        start = it.args[1] if len(it.args) == 2 else it.keywords[0].value
        if name in au.assigned_names(target.elts[0]):
            return ast.BinOp(left=call("__index__", it.args[0]), op=ast.Add(), right=clone(start)) if isinstance(target.elts[0], ast.Name) else None
        return loop_binding(target.elts[1], it.args[0], name)
    if isinstance(it, ast.Call) and isinstance(it.func, ast.Name) and not it.keywords:
        f = it.func.id
        if f == "range":
            if isinstance(target, ast.Name) and target.id == name:
                return call("__range__", *it.args)
            return None
        if f == "enumerate" and len(it.args) == 1 and isinstance(target, (ast.Tuple, ast.List)) and len(target.elts) == 2:
            if name in au.assigned_names(target.elts[0]):
                return call("__index__", it.args[0]) if isinstance(target.elts[0], ast.Name) else None
            return loop_binding(target.elts[1], it.args[0], name)
        if f == "zip" and isinstance(target, (ast.Tuple, ast.List)) and len(target.elts) == len(it.args):
            for t, a in zip(target.elts, it.args):
                if name in au.assigned_names(t):
                    return loop_binding(t, a, name)
            return None
        if f in ("reversed", "sorted", "list", "tuple", "iter") and len(it.args) == 1 and f in ("list", "tuple", "iter"):
            return loop_binding(target, it.args[0], name)
    return target_value(target, call("__elem__", it), name)


def _pattern_names(p):
    return {n.name for n in ast.walk(p) if isinstance(n, (ast.MatchAs, ast.MatchStar)) and getattr(n, "name", None)} | \
        {n.rest for n in ast.walk(p) if isinstance(n, ast.MatchMapping) and n.rest}


def _binds(node, name):
    """does the statement (deeply, not entering nested defs) bind `name`?"""
    return sym.Bindings._assigns(node, name)


def _walrus(expr, name):
    """value of a `(name := v)` inside `expr` (not inside a comprehension / lambda), else None"""
    if expr is None:
        return None
    todo = [expr]
    while todo:
        n = todo.pop()
        if isinstance(n, ast.NamedExpr) and n.target.id == name:
            return n.value
        if isinstance(n, COMPS + (ast.Lambda,)):
            continue
        todo.extend(ast.iter_child_nodes(n))
    return None


KILL = object()


class Flow:
    def __init__(self, fn, helpers=None):
        """`helpers`: name -> FunctionDef of the private helpers of the module (`"self.name"` for the private methods of the class);
        a call to one of them is replaced by the value it returns (see `inline_calls`) in every resolved expression"""
        self.fn = fn
        self.helpers = {k: v for k, v in (helpers or {}).items() if v is not fn and not k.startswith("record:") and not k.startswith("const:")}
        self.consts = {k[len("const:"):]: v for k, v in (helpers or {}).items() if k.startswith("const:")}
        self.locals_ = ({n.id for n in au.walk(fn) if isinstance(n, ast.Name) and isinstance(n.ctx, ast.Store)} | set(au.params(fn))) \
            if isinstance(fn, (ast.FunctionDef, ast.AsyncFunctionDef)) else set()
        # functions defined inside `fn` are helpers too; their free variables are those of `fn` (re-resolved at the call site)
        self.nested = {}
        if isinstance(fn, (ast.FunctionDef, ast.AsyncFunctionDef)):
            for st in au.stmts(fn.body):
                if isinstance(st, ast.FunctionDef) and st.name not in self.helpers:
                    self.nested[st.name] = st
            for st in au.stmts(fn.body):
                if isinstance(st, ast.Assign) and len(st.targets) == 1 and isinstance(st.targets[0], ast.Name) and isinstance(st.value, ast.Lambda) \
                        and st.targets[0].id in self.nested:
                    del self.nested[st.targets[0].id]
            self.helpers.update(self.nested)
        self.records = {}
        for k, v in (helpers or {}).items():
            if k.startswith("record:"):
                info = record_info(v) or object_info(v)
                if info is not None:
                    self.records[k[len("record:"):]] = info
        self.params = set(au.params(fn)) if isinstance(fn, (ast.FunctionDef, ast.AsyncFunctionDef)) else set()

    # ---------------------------------------------------------------- definitions
    def _def_in_stmt(self, s, name, depth):
        """definition of `name` made by statement `s` as a whole: expression | KILL | None (name untouched)"""
        if isinstance(s, ast.Assign):
            out = None
            for t in s.targets:
                if name in au.assigned_names(t):
                    v = target_value(t, s.value, name)
                    out = v if v is not None else KILL
            if out is not None:
                return out
            w = _walrus(s.value, name)
            return w
        if isinstance(s, ast.AnnAssign):
            if name in au.assigned_names(s.target):
                return s.value if (s.value is not None and isinstance(s.target, ast.Name)) else KILL
            return _walrus(s.value, name)
        if isinstance(s, ast.AugAssign):
            if isinstance(s.target, ast.Name) and s.target.id == name:
                prev = self._lookup(name, s, depth + 1)
                return ast.BinOp(left=prev if prev is not None else ast.Name(id=name, ctx=ast.Load()), op=s.op, right=s.value)
            if name in au.assigned_names(s.target):
                return KILL
            return _walrus(s.value, name)
        if isinstance(s, ast.If):
            d1 = self._def_in_block(s.body, name, depth)
            d2 = self._def_in_block(s.orelse, name, depth)
            w = _walrus(s.test, name)
            if d1 is None and d2 is None:
                return w
            if d1 is KILL or d2 is KILL:
                return KILL
            prior = w if w is not None else self._lookup(name, s, depth + 1)
            if prior is None:
                prior = ast.Name(id=name, ctx=ast.Load())
            # a branch that always leaves (return / raise / continue / break) does not reach the code after the `if`
            if d1 is not None and au._leaves(s.body):
                return d2 if d2 is not None else prior
            if d2 is not None and au._leaves(s.orelse):
                return d1 if d1 is not None else prior
            return ast.IfExp(test=s.test, body=d1 if d1 is not None else prior, orelse=d2 if d2 is not None else prior)
        if isinstance(s, ast.Expr) and isinstance(s.value, ast.Call):
            # an in-place reordering / overwrite of the object the name refers to makes a new version of it:
            #   x.sort()   np.random.shuffle(x)   ->   __mutated__(x_before, 'sort')
            c = s.value
            tgt = None
            if isinstance(c.func, ast.Attribute) and c.func.attr in INPLACE:
                if isinstance(c.func.value, ast.Name) and c.func.value.id == name:
                    tgt = c.func.attr
                elif c.func.attr == "shuffle" and c.args and isinstance(c.args[0], ast.Name) and c.args[0].id == name:
                    tgt = "shuffle"
            elif isinstance(c.func, ast.Name) and c.func.id == "shuffle" and c.args and isinstance(c.args[0], ast.Name) and c.args[0].id == name:
                tgt = "shuffle"
            if tgt is not None:
                prev = self._lookup(name, s, depth + 1)
                return call("__mutated__", prev if prev is not None and prev is not KILL else ast.Name(id=name, ctx=ast.Load()), ast.Constant(tgt))
            # `np.add(a, b, out=x)`: x receives the value of the call
            if any(k.arg == "out" and isinstance(k.value, ast.Name) and k.value.id == name for k in c.keywords):
                return ast.Call(func=c.func, args=list(c.args), keywords=[k for k in c.keywords if k.arg != "out"])
        if isinstance(s, (ast.Expr, ast.Return, ast.Assert, ast.Raise)):
            return _walrus(getattr(s, "value", None) or getattr(s, "test", None) or getattr(s, "exc", None), name)
        if isinstance(s, ast.Try):
            # a name bound in the protected body reaches the code after the `try` when every handler leaves (raise / return)
            d = self._def_in_block(s.body + s.orelse, name, depth)
            in_handlers = any(_binds(h_, name) for h in s.handlers for h_ in h.body) or any(_binds(x, name) for x in s.finalbody)
            if d is None and not in_handlers:
                return None
            if d is not None and d is not KILL and not in_handlers and all(au._leaves(h.body) for h in s.handlers):
                return d
            return KILL
        if hasattr(ast, "Match") and isinstance(s, ast.Match):
            w = _walrus(s.subject, name)
            if any(_binds(x, name) for c in s.cases for x in c.body) or any(name in _pattern_names(c.pattern) for c in s.cases):
                return KILL
            return w
        if isinstance(s, (ast.FunctionDef, ast.AsyncFunctionDef, ast.ClassDef)):
            return KILL if s.name == name else None
        if isinstance(s, (ast.Import, ast.ImportFrom)):
            return KILL if any((a.asname or a.name.split(".")[0]) == name for a in s.names) else None
        if _binds(s, name):
            return KILL
        return None

    def _def_in_block(self, block, name, depth):
        for s in reversed(block):
            d = self._def_in_stmt(s, name, depth)
            if d is not None:
                return d
        return None

    def _lookup(self, name, at, depth=0):
        """definition of `name` reaching node `at` (expression, not yet resolved) or None"""
        if depth > 12:
            return None
        # comprehension generators enclosing `at`
        child = at
        for a in au.ancestors(at):
            if isinstance(a, COMPS):
                gens = a.generators
                # generators visible from `child`: all for the element / conditions, the earlier ones for a later generator's iterable
                upto = len(gens)
                for k, g in enumerate(gens):
                    if child is g:
                        upto = k     # inside generator k: its own target is visible only in its ifs
                        sub = child
                        if any(x is at or any(y is at for y in ast.walk(x)) for x in g.ifs):
                            upto = k + 1
                        break
                for g in reversed(gens[:upto]):
                    if name in au.assigned_names(g.target):
                        self._site = g.iter
                        return loop_binding(g.target, g.iter, name)
            if isinstance(a, ast.Lambda) and name in au.params(a):
                return None
            if isinstance(a, (ast.FunctionDef, ast.AsyncFunctionDef)):
                break
            child = a
        cur = au.enclosing_stmt(at)
        # a walrus earlier in the same statement (e.g. in the test of the `if` whose body we are not in) is handled by the owner scan
        first = True
        while cur is not None and cur is not self.fn and not isinstance(cur, ast.Module):
            if isinstance(cur, (ast.FunctionDef, ast.AsyncFunctionDef, ast.Lambda)) and cur is not at and name in au.params(cur):
                return None         # a parameter of the nested function we are leaving
            blk, owner = au.enclosing_block(cur)
            if blk is None:
                if isinstance(owner, ast.ExceptHandler):
                    blk = owner.body
                elif hasattr(ast, "match_case") and isinstance(owner, ast.match_case):
                    blk = owner.body
                else:
                    return None
            idx = next((i for i, x in enumerate(blk) if x is cur), None)
            if idx is None:
                return None
            if first and not isinstance(cur, (ast.If, ast.For, ast.While, ast.With, ast.Try, ast.AsyncFor, ast.AsyncWith)):
                # walrus inside the statement itself, textually before the use
                w = self._walrus_before(cur, name, at)
                if w is not None:
                    self._site = cur
                    return w
            first = False
            for s in reversed(blk[:idx]):
                d = self._def_in_stmt(s, name, depth)
                if d is KILL:
                    return None
                if d is not None:
                    self._site = s
                    return d
            if isinstance(owner, (ast.If, ast.While)):
                w = _walrus(owner.test, name)
                if w is not None and not (isinstance(owner, ast.While) and any(_binds(s, name) for s in owner.body)):
                    self._site = owner
                    return w
            if isinstance(owner, (ast.For, ast.AsyncFor)):
                if name in au.assigned_names(owner.target) and any(cur is s for s in owner.body):
                    self._site = owner
                    return loop_binding(owner.target, owner.iter, name)
                if any(_binds(s, name) for s in owner.body):
                    return None
            if isinstance(owner, ast.While) and any(_binds(s, name) for s in owner.body):
                return None
            if isinstance(owner, (ast.With, ast.AsyncWith)):
                for it in owner.items:
                    if it.optional_vars is not None and name in au.assigned_names(it.optional_vars):
                        return None
            if isinstance(owner, ast.ExceptHandler):
                if owner.name == name:
                    return None
                owner = au.parent(owner)
            if hasattr(ast, "match_case") and isinstance(owner, ast.match_case):
                if name in _pattern_names(owner.pattern):
                    return None
                owner = au.parent(owner)
                w = _walrus(owner.subject, name)
                if w is not None:
                    self._site = owner
                    return w
            cur = owner
        return None

    def _walrus_before(self, stmt, name, at):
        best = None
        for n in au.walk_ordered(stmt):
            if n is at:
                break
            if isinstance(n, ast.NamedExpr) and n.target.id == name:
                best = n.value
        return best

    # ---------------------------------------------------------------- resolution
    def resolve(self, expr, at=None, keep=(), depth=12):
        at = at if at is not None else expr
        out = _resolve_tree(expr, at, self, frozenset(keep), depth, frozenset())
        if out is None or not (self.helpers or self.records or any(isinstance(n, ast.Dict) for n in ast.walk(out))):
            return out
        for _ in range(3):      # helpers return objects, objects have methods that call helpers ...
            before = ast.dump(out)
            if any(isinstance(n, ast.Dict) for n in ast.walk(out)):
                out = _Dispatch().visit(out)
            out = _ElemOfComp().visit(out)
            if self.records:
                out = _Records(self.records, self.helpers, 3).visit(out)
            if self.helpers and any(isinstance(n, ast.Call) for n in ast.walk(out)):
                out = inline_calls(out, self.helpers, depth=3)
            if ast.dump(out) == before:
                break
        if self.nested and any(isinstance(n, ast.Name) and isinstance(n.ctx, ast.Load) for n in ast.walk(out)):
            out = _resolve_tree(out, at, self, frozenset(keep) | frozenset(self.nested), depth, frozenset())
        return out

    def lookup(self, name, at):
        """(definition, site) of `name` reaching `at`; definition None when there is none the analysis understands"""
        self._site = None
        d = self._lookup(name, at)
        if d is None or d is KILL:
            return None, None
        return d, self._site


class _NoFlow:
    """resolution context of module-level expressions: no local definitions"""
    helpers, records, consts, locals_, nested, params = {}, {}, {}, set(), {}, set()

    def lookup(self, name, at):
        return None, None


_NOFLOW = _NoFlow()


class _ElemOfComp(ast.NodeTransformer):
    """`__elem__([E for v in X])` -> E once v has been substituted in E (the element of a comprehension is its element expression)"""

    def visit_Subscript(self, node):
        self.generic_visit(node)
        k = au.const(node.slice) if not isinstance(node.slice, (ast.Slice, ast.Tuple)) else None
        if isinstance(node.value, (ast.Tuple, ast.List)) and isinstance(k, int) and not isinstance(k, bool) \
                and not any(isinstance(x, ast.Starred) for x in node.value.elts) and -len(node.value.elts) <= k < len(node.value.elts):
            return node.value.elts[k]        # (a, b)[0] -> a
        return node

    def visit_Call(self, node):
        self.generic_visit(node)
        if is_synth(node, "__elem__") and len(node.args) == 1:
            c = strip_calls(node.args[0], ("list", "tuple", "iter"))
            if isinstance(c, (ast.ListComp, ast.GeneratorExp)) and len(c.generators) == 1 and not c.generators[0].ifs \
                    and not (set(au.assigned_names(c.generators[0].target)) & au.names(c.elt)):
                return c.elt
        return node


class _Dispatch(ast.NodeTransformer):
    """`{k1: v1, k2: v2}[key]` -> `v1 if key == k1 else v2` (a missing key raises either way);  `(f if c else g)(args)` -> `f(args) if c else g(args)`"""

    def visit_Subscript(self, node):
        self.generic_visit(node)
        d = node.value
        if isinstance(d, ast.Dict) and d.keys and all(isinstance(k, ast.Constant) for k in d.keys) and not isinstance(node.slice, (ast.Slice, ast.Tuple)):
            out = d.values[-1]
            for k, v in reversed(list(zip(d.keys[:-1], d.values[:-1]))):
                out = ast.IfExp(test=ast.Compare(left=clone(node.slice), ops=[ast.Eq()], comparators=[k]), body=v, orelse=out)
            return ast.fix_missing_locations(ast.copy_location(out, node)) if hasattr(node, "lineno") else out
        return node

    def visit_Call(self, node):
        self.generic_visit(node)
        if isinstance(node.func, ast.IfExp):
            f = node.func
            mk = lambda fn_: self.visit_Call(ast.Call(func=fn_, args=[clone(a) for a in node.args],
                                                      keywords=[ast.keyword(arg=k.arg, value=clone(k.value)) for k in node.keywords]))
            return ast.IfExp(test=f.test, body=mk(f.body), orelse=mk(f.orelse))
        return node


def _resolve_tree(expr, at, flow, keep, depth, busy):
    """substitute the names of `expr` (nodes of the original tree keep their `_parent`, so look-ups are position aware)"""
    if depth <= 0:
        return clone(expr)

    def rec(node, site, bound):
        # `site`: the original node whose position governs the look-up of names in `node`
        if isinstance(node, ast.Name):
            if not isinstance(node.ctx, ast.Load) or node.id in keep or node.id in SYNTH or node.id in bound:
                return clone(node)
            origin = node if getattr(node, "_parent", None) is not None else site
            key = (node.id, id(origin))
            if key in busy:
                return clone(node)
            d, dsite = flow.lookup(node.id, origin)
            if d is None:
                if node.id in flow.consts and node.id not in flow.locals_ and len(busy) < 8:
                    # a named constant / lookup table of the module
                    return _resolve_tree(flow.consts[node.id], origin, _NOFLOW, keep, depth - 1, busy | {key})
                return clone(node)
            if getattr(d, "_parent", None) is not None:
                dsite = d
            elif dsite is None:
                dsite = origin
            return _resolve_tree(d, dsite, flow, keep, depth - 1, busy | {key})
        if isinstance(node, ast.Lambda):
            new = clone(node)
            new.body = rec(node.body, site, bound | set(au.params(node)))
            return new
        if not isinstance(node, ast.AST):
            return node
        if isinstance(node, ast.Call) and isinstance(node.func, ast.Name) and node.func.id in flow.records \
                and not isinstance(flow.records[node.func.id][0], ast.FunctionDef) and len(node.args) == 1 \
                and isinstance(node.args[0], ast.Starred) and isinstance(node.args[0].value, (ast.GeneratorExp, ast.ListComp)):
            # Rec(*(f(x) for x in seq)): one element per field, taken before the comprehension variable is resolved
            info = flow.records[node.func.id]
            free = [f for f in info[0] if f not in {k.arg for k in node.keywords}]
            here_ = node if getattr(node, "_parent", None) is not None else site
            new = ast.Call(func=clone(node.func), args=[rec(index(node.args[0].value, k), here_, bound) for k in range(len(free))],
                           keywords=[ast.keyword(arg=k.arg, value=rec(k.value, here_, bound)) for k in node.keywords])
            return ast.copy_location(new, node)
        if isinstance(node, COMPS) and getattr(node, "_parent", None) is None and not isinstance(node, ast.DictComp) \
                and all(not g.ifs for g in node.generators):
            # a comprehension that is itself the value of a name (cloned, no position of its own): its variables are bound here
            new = type(node)()
            gens, local = [], {}
            for g in node.generators:
                it = rec(g.iter, site, bound)
                if local:
                    it = sym.subst(it, local)
                for nm in au.assigned_names(g.target):
                    v = loop_binding(g.target, it, nm)
                    if v is not None and nm not in keep:
                        local[nm] = v
                gens.append(ast.comprehension(target=clone(g.target), iter=it, ifs=[], is_async=g.is_async))
            elt = rec(node.elt, site, bound | {x for g in node.generators for x in au.assigned_names(g.target)})
            new.elt = sym.subst(elt, local) if local else elt
            new.generators = gens
            return ast.copy_location(new, node) if hasattr(node, "lineno") else new
        if isinstance(node, ast.NamedExpr):
            if node.target.id in keep:
                return ast.Name(id=node.target.id, ctx=ast.Load())
            return rec(node.value, site, bound)
        new = type(node)()
        here = node if getattr(node, "_parent", None) is not None else site
        for f in node._fields:
            if not hasattr(node, f):
                continue
            v = getattr(node, f)
            if isinstance(v, list):
                setattr(new, f, [rec(x, here, bound) if isinstance(x, ast.AST) else x for x in v])
            elif isinstance(v, ast.AST):
                setattr(new, f, rec(v, here, bound))
            else:
                setattr(new, f, v)
        for a in ("lineno", "col_offset", "end_lineno", "end_col_offset"):
            if hasattr(node, a):
                setattr(new, a, getattr(node, a))
        if isinstance(new, COMPS):
            # the targets of the generators have been substituted in the element: drop generators whose target no longer occurs
            pass
        return new
    return rec(expr, at, frozenset())


# ---------------------------------------------------------------------- small matchers on resolved trees
def strip_calls(e, tails):
    """peel conversions `f(x)` / `x.f()` for f in `tails`"""
    while True:
        if isinstance(e, ast.Call) and au.call_tail(e) in tails:
            if isinstance(e.func, ast.Attribute) and not _is_mod(e.func.value):
                e = e.func.value         # x.reshape(...), x.astype(...), x.copy(): the receiver
                continue
            if e.args:
                e = e.args[0]            # np.asarray(x, ...), list(x): the first argument
                continue
        return e


def _is_mod(e):
    c = au.chain(e)
    return bool(c) and c[0] in ("np", "numpy", "math")


def alternatives(e):
    """leaves of the conditional-expression tree of a resolved value: [(conditions, expr)]"""
    if isinstance(e, ast.IfExp):
        return [([(e.test, True)] + c, x) for c, x in alternatives(e.body)] + [([(e.test, False)] + c, x) for c, x in alternatives(e.orelse)]
    return [([], e)]


def expand(e, limit=32):
    """every conditional expression of `e` (at any depth) resolved one way or the other:
    [(conditions, copy of the expression without IfExp)]; truncated to `limit` alternatives"""
    import itertools

    def rec(node):
        if isinstance(node, ast.IfExp):
            out = []
            for pol, br in ((True, node.body), (False, node.orelse)):
                for c, x in rec(br):
                    out.append(([(node.test, pol)] + c, x))
            return out[:limit]
        if not isinstance(node, ast.AST):
            return [([], node)]
        slots = []      # (field, index | None, alternatives)
        for f in node._fields:
            if not hasattr(node, f):
                continue
            v = getattr(node, f)
            if isinstance(v, list):
                for k, x in enumerate(v):
                    if isinstance(x, ast.AST):
                        slots.append((f, k, rec(x)))
            elif isinstance(v, ast.AST):
                slots.append((f, None, rec(v)))
        out = []
        for combo in itertools.islice(itertools.product(*[alts for _, _, alts in slots]), limit):
            new = type(node)()
            for f in node._fields:
                if hasattr(node, f):
                    v = getattr(node, f)
                    setattr(new, f, list(v) if isinstance(v, list) else v)
            conds = []
            for (f, k, _), (c, x) in zip(slots, combo):
                conds += c
                if k is None:
                    setattr(new, f, x)
                else:
                    getattr(new, f)[k] = x
            for a in ("lineno", "col_offset", "end_lineno", "end_col_offset"):
                if hasattr(node, a):
                    setattr(new, a, getattr(node, a))
            out.append((conds, new))
        return out
    return rec(e)


def find_calls(e, tail):
    return [n for n in ast.walk(e) if isinstance(n, ast.Call) and au.call_tail(n) == tail]


def contains(e, pred):
    return any(pred(n) for n in ast.walk(e))


# ---------------------------------------------------------------------- helper calls
RAISES = object()


def function_value(fn):
    """the value returned by a small helper as one expression over its parameters (conditional expressions for its branches);
    None when the helper is not a straight if / return structure (loops that return, try, with ...)"""
    fl = Flow(fn)
    yields = [n for n in au.walk(fn) if isinstance(n, (ast.Yield, ast.YieldFrom))]
    if yields:
        # a generator helper of the form `for x in seq: ...; yield E`: the sequence (E for x in seq)
        body = [st for st in fn.body if not (isinstance(st, ast.Expr) and isinstance(st.value, ast.Constant))]
        loops = [st for st in body if isinstance(st, ast.For)]
        if len(yields) == 1 and isinstance(yields[0], ast.Yield) and yields[0].value is not None and len(loops) == 1 and body[-1] is loops[0] \
                and not loops[0].orelse and not any(isinstance(n, (ast.Return, ast.Break, ast.Continue)) for n in au.walk(fn)) \
                and all(isinstance(st, (ast.Assign, ast.AnnAssign)) for st in body[:-1]):
            loop = loops[0]
            ys = au.enclosing_stmt(yields[0])
            if isinstance(ys, ast.Expr) and ys.value is yields[0] and ys in loop.body and ys is loop.body[-1] \
                    and all(isinstance(st, (ast.Assign, ast.AnnAssign)) for st in loop.body[:-1]):
                elt = fl.resolve(yields[0].value, at=ys)
                it = fl.resolve(loop.iter, at=loop)
                return ast.GeneratorExp(elt=elt, generators=[ast.comprehension(target=clone(loop.target), iter=it, ifs=[], is_async=0)])
        return None

    # the fill idiom `X = zeros(...); for i, r in enumerate(S): X[i, :] = E(r); return X`  ==  [E(r) for r in S]
    body = [st for st in fn.body if not (isinstance(st, ast.Expr) and isinstance(st.value, ast.Constant))]
    if len(body) == 3 and isinstance(body[0], ast.Assign) and len(body[0].targets) == 1 and isinstance(body[0].targets[0], ast.Name) \
            and isinstance(body[0].value, ast.Call) and au.call_tail(body[0].value) in ("zeros", "empty", "ones", "zeros_like", "empty_like") \
            and isinstance(body[1], ast.For) and not body[1].orelse and isinstance(body[2], ast.Return) \
            and isinstance(body[2].value, ast.Name) and body[2].value.id == body[0].targets[0].id:
        arr, loop = body[0].targets[0].id, body[1]
        stores = [st for st in au.stmts(loop.body) if any(isinstance(t, ast.Subscript) and isinstance(t.value, ast.Name) and t.value.id == arr
                                                          for t in au.assign_targets(st))]
        others = [n for n in au.walk(loop) if isinstance(n, ast.Name) and n.id == arr]
        if len(stores) == 1 and isinstance(stores[0], ast.Assign) and stores[0] in loop.body and len(others) == 1 \
                and not any(isinstance(n, (ast.Break, ast.Continue, ast.Return)) for n in au.walk(loop)):
            tg = stores[0].targets[0]
            idx = tg.slice.elts[0] if isinstance(tg.slice, ast.Tuple) and tg.slice.elts else tg.slice
            rest_full = not isinstance(tg.slice, ast.Tuple) or all(isinstance(x, ast.Slice) and x.lower is None and x.upper is None and x.step is None
                                                                   for x in tg.slice.elts[1:])
            counter = fl.resolve(idx, at=stores[0]) if isinstance(idx, ast.Name) else None
            if rest_full and counter is not None and (is_synth(counter, "__index__") or is_synth(counter, "__range__")):
                elt = fl.resolve(stores[0].value, at=stores[0])
                return ast.ListComp(elt=elt, generators=[ast.comprehension(target=clone(loop.target), iter=fl.resolve(loop.iter, at=loop), ifs=[], is_async=0)])

    def val(stmts):
        for i, st in enumerate(stmts):
            rest = stmts[i + 1:]
            if isinstance(st, ast.Return):
                return fl.resolve(st.value, at=st) if st.value is not None else ast.Constant(None)
            if isinstance(st, ast.Raise):
                return RAISES
            if isinstance(st, ast.If):
                a = val(st.body + ([] if au._leaves(st.body) else rest))
                b = val(st.orelse + ([] if (st.orelse and au._leaves(st.orelse)) else rest))
                if a is None or b is None:
                    return None
                if a is RAISES:
                    return b
                if b is RAISES:
                    return a
                return ast.IfExp(test=fl.resolve(st.test, at=st), body=a, orelse=b)
            if isinstance(st, (ast.For, ast.AsyncFor, ast.While, ast.With, ast.AsyncWith, ast.Try)):
                if any(isinstance(x, ast.Return) for x in au.stmts([st])):
                    return None
        return ast.Constant(None)
    return val(list(fn.body))


def module_constants(tree):
    """name -> value node of the names bound exactly once at module level to a literal (numbers, strings, tuples / lists / dicts of
    literals and of names, arithmetic of those): lookup tables and named constants"""
    counts, values = {}, {}
    for st in tree.body:
        for t in au.assign_targets(st) if isinstance(st, (ast.Assign, ast.AnnAssign, ast.AugAssign)) else []:
            for n in au.assigned_names(t):
                counts[n] = counts.get(n, 0) + 1
        if isinstance(st, (ast.FunctionDef, ast.AsyncFunctionDef, ast.ClassDef)):
            counts[st.name] = counts.get(st.name, 0) + 2
        if isinstance(st, ast.Assign) and len(st.targets) == 1 and isinstance(st.targets[0], ast.Name):
            values[st.targets[0].id] = st.value
        elif isinstance(st, ast.AnnAssign) and isinstance(st.target, ast.Name) and st.value is not None:
            values[st.target.id] = st.value

    def literal(e, depth=0):
        if depth > 6:
            return False
        if isinstance(e, ast.Constant):
            return True
        if isinstance(e, ast.Name):
            return True
        if isinstance(e, (ast.Tuple, ast.List, ast.Set)):
            return all(literal(x, depth + 1) for x in e.elts)
        if isinstance(e, ast.Dict):
            return all(k is not None and literal(k, depth + 1) for k in e.keys) and all(literal(v, depth + 1) for v in e.values)
        if isinstance(e, ast.UnaryOp):
            return literal(e.operand, depth + 1)
        if isinstance(e, ast.BinOp):
            return literal(e.left, depth + 1) and literal(e.right, depth + 1)
        if isinstance(e, ast.Attribute):
            return au.chain(e) is not None
        return False
    return {n: v for n, v in values.items() if counts.get(n) == 1 and literal(v)}


def record_info(cls):
    """(fields, defaults, methods) of a NamedTuple / dataclass declaration, None for any other class"""
    is_nt = any(au.src(b).split(".")[-1] == "NamedTuple" for b in cls.bases)
    is_dc = any((au.chain(d.func if isinstance(d, ast.Call) else d) or [""])[-1] == "dataclass" for d in cls.decorator_list)
    if not (is_nt or is_dc):
        return None
    fields, defaults = [], {}
    for st in cls.body:
        if isinstance(st, ast.AnnAssign) and isinstance(st.target, ast.Name):
            fields.append(st.target.id)
            if st.value is not None:
                defaults[st.target.id] = st.value
    methods = {st.name: st for st in cls.body if isinstance(st, ast.FunctionDef)}
    if "__init__" in methods or "__new__" in methods or "__post_init__" in methods:
        return None
    methods = {k: v for k, v in methods.items() if not v.decorator_list or all(isinstance(d, ast.Name) and d.id == "property" for d in v.decorator_list)}
    return fields, defaults, methods


def object_info(cls):
    """a plain class whose constructor only stores values computed from its arguments: (__init__, {attribute: expression over
    the parameters}, methods); None for anything else (inheritance, computed state, properties with setters are not followed)"""
    if cls.bases or cls.decorator_list:
        return None
    methods = {st.name: st for st in cls.body if isinstance(st, ast.FunctionDef)}
    init = methods.get("__init__")
    if init is None or "__new__" in methods or "__getattr__" in methods or "__getattribute__" in methods:
        return None
    if init.args.vararg or init.args.kwarg:
        return None
    attrs = {}
    for st in init.body:
        if isinstance(st, ast.Expr) and isinstance(st.value, ast.Constant):
            continue
        if isinstance(st, ast.If) and not st.orelse and all(isinstance(x, ast.Raise) for x in st.body):
            continue
        if isinstance(st, ast.Assign) and len(st.targets) == 1 and au.is_self_attr(st.targets[0]) and st.targets[0].attr not in attrs:
            if any(au.is_self_attr(n) for n in ast.walk(st.value)):
                return None
            attrs[st.targets[0].attr] = st.value
            continue
        return None
    # attributes rebound by other methods are not constructor state
    for m in methods.values():
        if m is init:
            continue
        for n in ast.walk(m):
            if isinstance(n, ast.Attribute) and isinstance(n.ctx, (ast.Store, ast.Del)) and au.is_self_attr(n) and n.attr in attrs:
                return None
    plain = {k: v for k, v in methods.items() if not v.decorator_list and not (k.startswith("__") and k != "__call__")}
    return init, attrs, plain


def record_fields(ctor, info):
    """field name -> argument expression of the constructor call `ctor` of a record class; None when the binding is not plain"""
    fields, defaults, _ = info
    pos = []
    for a in ctor.args:
        if isinstance(a, ast.Starred):
            v = a.value
            if isinstance(v, (ast.Tuple, ast.List)) and not any(isinstance(x, ast.Starred) for x in v.elts):
                pos += list(v.elts)
            elif isinstance(v, (ast.GeneratorExp, ast.ListComp)) and not pos and len(ctor.args) == 1:
                n_free = len([f for f in fields if f not in {k.arg for k in ctor.keywords}])
                pos += [index(v, k) for k in range(n_free)]       # the record takes one element per field
            else:
                return None
        else:
            pos.append(a)
    if len(pos) > len(fields) or any(k.arg is None for k in ctor.keywords):
        return None
    out = dict(zip(fields, pos))
    for k in ctor.keywords:
        out[k.arg] = k.value
    for f in fields:
        if f not in out:
            if f not in defaults:
                return None
            out[f] = defaults[f]
    return out


class _Records(ast.NodeTransformer):
    """`Rec(a, b).field` -> `a`;  `Rec(a, b).method(x)` -> the value returned by the method with `self.field` read from the constructor"""

    def __init__(self, records, functions, depth):
        self.records, self.functions, self.depth = records, functions, depth

    def _ctor(self, e):
        if isinstance(e, ast.Call) and isinstance(e.func, ast.Name) and e.func.id in self.records:
            info = self.records[e.func.id]
            if isinstance(info[0], ast.FunctionDef):        # object_info: (__init__, attributes, methods)
                mapping = bind_args(info[0], e, method=True)
                if mapping is None:
                    return None
                return (list(info[1]), {}, info[2]), {k: sym.subst(v, mapping) for k, v in info[1].items()}
            fv = record_fields(e, info)
            if fv is not None:
                return info, fv
        return None

    def visit_Attribute(self, node):
        self.generic_visit(node)
        c = self._ctor(node.value)
        if c is not None and node.attr in c[1] and isinstance(node.ctx, ast.Load):
            return clone(c[1][node.attr])
        return node

    def visit_Call(self, node):
        self.generic_visit(node)
        f = node.func
        if isinstance(f, ast.Attribute) and self.depth > 0:
            c = self._ctor(f.value)
            if c is not None and f.attr in c[0][2]:
                m = c[0][2][f.attr]
                mapping = bind_args(m, node, method=True)
                v = function_value(m)
                names = [p.arg for p in m.args.posonlyargs + m.args.args]
                if mapping is not None and v is not None and v is not RAISES and names:
                    mapping = dict(mapping)
                    mapping[names[0]] = f.value
                    out = sym.subst(v, mapping)
                    out = _Records(self.records, self.functions, self.depth - 1).visit(out)
                    return inline_calls(out, self.functions, self.depth - 1) if self.functions else out
        return node


def helper_key(call):
    """the key under which the callee of `call` would be listed in a helper table: `name` or `self.name`"""
    f = call.func
    if isinstance(f, ast.Name):
        return f.id
    if isinstance(f, ast.Attribute) and isinstance(f.value, ast.Name) and f.value.id in ("self", "cls"):
        return "self." + f.attr
    return None


def bind_args(fn, call, method=False):
    """parameter name -> argument expression of `call` to the helper `fn` (defaults filled in); None when the binding is not plain"""
    if any(k.arg is None for k in call.keywords):
        return None
    a = fn.args
    if a.vararg or a.kwarg:
        return None
    names = [p.arg for p in a.posonlyargs + a.args]
    defaults = dict(zip(names[len(names) - len(a.defaults):], a.defaults)) if a.defaults else {}
    static = any(isinstance(d, ast.Name) and d.id == "staticmethod" for d in fn.decorator_list)
    if method and not static:
        names = names[1:]
    if any(isinstance(x, ast.Starred) for x in call.args):
        # f(x, *seq): when no parameter left has a default the sequence holds exactly one value per remaining parameter
        stars = [x for x in call.args if isinstance(x, ast.Starred)]
        if len(stars) != 1 or call.args[-1] is not stars[0] or defaults:
            return None
        free = [n for n in names[len(call.args) - 1:] if n not in {k.arg for k in call.keywords}]
        call = ast.Call(func=call.func, args=list(call.args[:-1]) + [index(stars[0].value, k) for k in range(len(free))], keywords=call.keywords)
    if len(call.args) > len(names):
        return None
    mapping = dict(zip(names, call.args))
    for k in call.keywords:
        mapping[k.arg] = k.value
    for p_, d_ in zip(a.kwonlyargs, a.kw_defaults):
        if d_ is not None:
            defaults[p_.arg] = d_
    for n_ in names + [p_.arg for p_ in a.kwonlyargs]:
        if n_ not in mapping:
            if n_ not in defaults:
                return None
            mapping[n_] = defaults[n_]
    return mapping


def inline_calls(e, functions, depth=2):
    """calls `f(args)` / `self.f(args)` to the helpers `functions` (name | "self.name" -> FunctionDef) replaced by the value they return"""
    if depth <= 0 or e is None:
        return e
    cache = {}

    class T(ast.NodeTransformer):
        def visit_Call(self, node):
            self.generic_visit(node)
            key = helper_key(node)
            if key is not None and key in functions:
                fn = functions[key]
                if key not in cache:
                    cache[key] = function_value(fn)
                v = cache[key]
                if v is None or v is RAISES:
                    return node
                mapping = bind_args(fn, node, method=key.startswith("self."))
                if mapping is None:
                    return node
                return inline_calls(sym.subst(v, mapping), functions, depth - 1)
            return node
    return T().visit(clone(e))


def appended_values(flow, attr, depth=2, verbs=("append", "extend")):
    """values stored into `<mesh>.<attr>` by the function of `flow`, directly or by the helpers (flow.helpers) the mesh is handed to:
    [(statement of the function to report at, resolved value)]; values of helpers are expressed in the caller's terms"""
    fn = flow.fn
    out = []
    for st in au.stmts(fn.body):
        v = None
        callee = st.value.func if isinstance(st, ast.Expr) and isinstance(st.value, ast.Call) else None
        if isinstance(callee, ast.Name) and callee.id not in flow.helpers:
            callee = flow.resolve(callee, at=st)         # add_vertex = out.vertices.append
        if isinstance(callee, ast.Attribute) and callee.attr in verbs and isinstance(callee.value, ast.Attribute) \
                and callee.value.attr == attr and st.value.args:
            v = st.value.args[0]
        elif isinstance(st, ast.AugAssign) and isinstance(st.op, ast.Add) and isinstance(st.target, ast.Attribute) and st.target.attr == attr:
            v = st.value
        if v is not None:
            out.append((st, flow.resolve(v, at=st)))
    if depth > 0 and flow.helpers:
        for c in au.calls(fn):
            key = helper_key(c)
            if key is None or key not in flow.helpers:
                continue
            h = flow.helpers[key]
            mapping = bind_args(h, c, method=key.startswith("self."))
            sub = appended_values(Flow(h, flow.helpers), attr, depth - 1, verbs)
            if not sub:
                continue
            st = au.enclosing_stmt(c)
            if mapping is None:
                out.append((st, None))
                continue
            mapping = {k: flow.resolve(v, at=c) for k, v in mapping.items()}
            for _, val in sub:
                out.append((st, sym.subst(val, mapping) if val is not None else None))
    return out
