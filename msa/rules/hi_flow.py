"""Value resolution by reaching definitions, with the binding forms maintainers actually use (group I: C14 / C19).

`Flow(fn).resolve(expr, at)` rewrites `expr` as seen at program point `at` into an expression over the *inputs* of the function:
local names are replaced by the definition that reaches `at`, through

  * plain / annotated / tuple assignments (`a, b = x, y`;  `a, b = f()` gives `f()[0]`, `f()[1]`;  `a, b = (g(v) for v in S)` gives
    `g(S[0])`, `g(S[1])`),
  * augmented assignments (`w /= s` gives `w_before / s`),
  * walrus bindings in an earlier statement or in the test of an enclosing `if` / `while`,
  * `if` statements that bind the name in one or both branches: a conditional expression `a if test else b` (so a rule that must
    hold for every definition that can reach a use inspects every alternative),
  * loop and comprehension targets, written as the synthetic calls  `__elem__(S)` (an element of S, in order), `__index__(S)` (the
    counter of `enumerate(S)`), `__range__(args)` (the variable of a `range` loop); `zip` gives an `__elem__` per argument.

Names that are parameters, that are carried around a loop, or whose binding form is not understood are left as they are.
Two spellings of the same data flow resolve to the same tree, which the rules then compare structurally."""
from __future__ import annotations
import ast
from .. import au, sym

SYNTH = ("__elem__", "__index__", "__range__", "__mutated__")
INPLACE = ("sort", "reverse", "shuffle", "partition", "fill", "resize", "put", "itemset", "byteswap")
COMPS = (ast.ListComp, ast.GeneratorExp, ast.SetComp, ast.DictComp)


def clone(e):
    return sym.clone(e)


def call(name, *args):
    return ast.Call(func=ast.Name(id=name, ctx=ast.Load()), args=[clone(a) for a in args], keywords=[])


def is_synth(e, name=None):
    return isinstance(e, ast.Call) and isinstance(e.func, ast.Name) and e.func.id in SYNTH and (name is None or e.func.id == name)


def index(e, k):
    """element k of a value: of a literal tuple / list, of a one-generator comprehension, else `e[k]`"""
    if isinstance(e, (ast.Tuple, ast.List)) and k < len(e.elts) and not any(isinstance(x, ast.Starred) for x in e.elts):
        return e.elts[k]
    if isinstance(e, (ast.GeneratorExp, ast.ListComp)) and len(e.generators) == 1 and not e.generators[0].ifs \
            and isinstance(e.generators[0].target, ast.Name):
        g = e.generators[0]
        if isinstance(g.iter, (ast.Tuple, ast.List)) and k < len(g.iter.elts):
            return sym.subst(e.elt, {g.target.id: g.iter.elts[k]})
        return sym.subst(e.elt, {g.target.id: ast.Subscript(value=clone(g.iter), slice=ast.Constant(k), ctx=ast.Load())})
    return ast.Subscript(value=clone(e), slice=ast.Constant(k), ctx=ast.Load())


def target_value(target, value, name):
    """the value bound to `name` by `target = value` (None if `name` is not bound by this target)"""
    if isinstance(target, ast.Name):
        return value if target.id == name else None
    if isinstance(target, ast.Starred):
        return None
    if isinstance(target, (ast.Tuple, ast.List)):
        if any(isinstance(x, ast.Starred) for x in target.elts):
            return None
        for k, t in enumerate(target.elts):
            if name in au.assigned_names(t):
                return target_value(t, index(value, k), name)
    return None


def loop_binding(target, it, name):
    """value bound to `name` by `for target in it`"""
    if isinstance(it, ast.Call) and isinstance(it.func, ast.Name) and not it.keywords:
        f = it.func.id
        if f == "range":
            if isinstance(target, ast.Name) and target.id == name:
                return call("__range__", *it.args)
            return None
        if f == "enumerate" and len(it.args) == 1 and isinstance(target, (ast.Tuple, ast.List)) and len(target.elts) == 2:
            if name in au.assigned_names(target.elts[0]):
                return call("__index__", it.args[0]) if isinstance(target.elts[0], ast.Name) else None
            return loop_binding(target.elts[1], it.args[0], name)
        if f == "zip" and isinstance(target, (ast.Tuple, ast.List)) and len(target.elts) == len(it.args):
            for t, a in zip(target.elts, it.args):
                if name in au.assigned_names(t):
                    return loop_binding(t, a, name)
            return None
        if f in ("reversed", "sorted", "list", "tuple", "iter") and len(it.args) == 1 and f in ("list", "tuple", "iter"):
            return loop_binding(target, it.args[0], name)
    return target_value(target, call("__elem__", it), name)


def _pattern_names(p):
    return {n.name for n in ast.walk(p) if isinstance(n, (ast.MatchAs, ast.MatchStar)) and getattr(n, "name", None)} | \
        {n.rest for n in ast.walk(p) if isinstance(n, ast.MatchMapping) and n.rest}


def _binds(node, name):
    """does the statement (deeply, not entering nested defs) bind `name`?"""
    return sym.Bindings._assigns(node, name)


def _walrus(expr, name):
    """value of a `(name := v)` inside `expr` (not inside a comprehension / lambda), else None"""
    if expr is None:
        return None
    todo = [expr]
    while todo:
        n = todo.pop()
        if isinstance(n, ast.NamedExpr) and n.target.id == name:
            return n.value
        if isinstance(n, COMPS + (ast.Lambda,)):
            continue
        todo.extend(ast.iter_child_nodes(n))
    return None


KILL = object()


class Flow:
    def __init__(self, fn):
        self.fn = fn
        self.params = set(au.params(fn)) if isinstance(fn, (ast.FunctionDef, ast.AsyncFunctionDef)) else set()

    # ---------------------------------------------------------------- definitions
    def _def_in_stmt(self, s, name, depth):
        """definition of `name` made by statement `s` as a whole: expression | KILL | None (name untouched)"""
        if isinstance(s, ast.Assign):
            out = None
            for t in s.targets:
                if name in au.assigned_names(t):
                    v = target_value(t, s.value, name)
                    out = v if v is not None else KILL
            if out is not None:
                return out
            w = _walrus(s.value, name)
            return w
        if isinstance(s, ast.AnnAssign):
            if name in au.assigned_names(s.target):
                return s.value if (s.value is not None and isinstance(s.target, ast.Name)) else KILL
            return _walrus(s.value, name)
        if isinstance(s, ast.AugAssign):
            if isinstance(s.target, ast.Name) and s.target.id == name:
                prev = self._lookup(name, s, depth + 1)
                return ast.BinOp(left=prev if prev is not None else ast.Name(id=name, ctx=ast.Load()), op=s.op, right=s.value)
            if name in au.assigned_names(s.target):
                return KILL
            return _walrus(s.value, name)
        if isinstance(s, ast.If):
            d1 = self._def_in_block(s.body, name, depth)
            d2 = self._def_in_block(s.orelse, name, depth)
            w = _walrus(s.test, name)
            if d1 is None and d2 is None:
                return w
            if d1 is KILL or d2 is KILL:
                return KILL
            prior = w if w is not None else self._lookup(name, s, depth + 1)
            if prior is None:
                prior = ast.Name(id=name, ctx=ast.Load())
            # a branch that always leaves (return / raise / continue / break) does not reach the code after the `if`
            if d1 is not None and au._leaves(s.body):
                return d2 if d2 is not None else prior
            if d2 is not None and au._leaves(s.orelse):
                return d1 if d1 is not None else prior
            return ast.IfExp(test=s.test, body=d1 if d1 is not None else prior, orelse=d2 if d2 is not None else prior)
        if isinstance(s, ast.Expr) and isinstance(s.value, ast.Call):
            # an in-place reordering / overwrite of the object the name refers to makes a new version of it:
            #   x.sort()   np.random.shuffle(x)   ->   __mutated__(x_before, 'sort')
            c = s.value
            tgt = None
            if isinstance(c.func, ast.Attribute) and c.func.attr in INPLACE:
                if isinstance(c.func.value, ast.Name) and c.func.value.id == name:
                    tgt = c.func.attr
                elif c.func.attr == "shuffle" and c.args and isinstance(c.args[0], ast.Name) and c.args[0].id == name:
                    tgt = "shuffle"
            elif isinstance(c.func, ast.Name) and c.func.id == "shuffle" and c.args and isinstance(c.args[0], ast.Name) and c.args[0].id == name:
                tgt = "shuffle"
            if tgt is not None:
                prev = self._lookup(name, s, depth + 1)
                return call("__mutated__", prev if prev is not None and prev is not KILL else ast.Name(id=name, ctx=ast.Load()), ast.Constant(tgt))
            # `np.add(a, b, out=x)`: x receives the value of the call
            if any(k.arg == "out" and isinstance(k.value, ast.Name) and k.value.id == name for k in c.keywords):
                return ast.Call(func=c.func, args=list(c.args), keywords=[k for k in c.keywords if k.arg != "out"])
        if isinstance(s, (ast.Expr, ast.Return, ast.Assert, ast.Raise)):
            return _walrus(getattr(s, "value", None) or getattr(s, "test", None) or getattr(s, "exc", None), name)
        if isinstance(s, ast.Try):
            # a name bound in the protected body reaches the code after the `try` when every handler leaves (raise / return)
            d = self._def_in_block(s.body + s.orelse, name, depth)
            in_handlers = any(_binds(h_, name) for h in s.handlers for h_ in h.body) or any(_binds(x, name) for x in s.finalbody)
            if d is None and not in_handlers:
                return None
            if d is not None and d is not KILL and not in_handlers and all(au._leaves(h.body) for h in s.handlers):
                return d
            return KILL
        if hasattr(ast, "Match") and isinstance(s, ast.Match):
            w = _walrus(s.subject, name)
            if any(_binds(x, name) for c in s.cases for x in c.body) or any(name in _pattern_names(c.pattern) for c in s.cases):
                return KILL
            return w
        if isinstance(s, (ast.FunctionDef, ast.AsyncFunctionDef, ast.ClassDef)):
            return KILL if s.name == name else None
        if isinstance(s, (ast.Import, ast.ImportFrom)):
            return KILL if any((a.asname or a.name.split(".")[0]) == name for a in s.names) else None
        if _binds(s, name):
            return KILL
        return None

    def _def_in_block(self, block, name, depth):
        for s in reversed(block):
            d = self._def_in_stmt(s, name, depth)
            if d is not None:
                return d
        return None

    def _lookup(self, name, at, depth=0):
        """definition of `name` reaching node `at` (expression, not yet resolved) or None"""
        if depth > 12:
            return None
        # comprehension generators enclosing `at`
        child = at
        for a in au.ancestors(at):
            if isinstance(a, COMPS):
                gens = a.generators
                # generators visible from `child`: all for the element / conditions, the earlier ones for a later generator's iterable
                upto = len(gens)
                for k, g in enumerate(gens):
                    if child is g:
                        upto = k     # inside generator k: its own target is visible only in its ifs
                        sub = child
                        if any(x is at or any(y is at for y in ast.walk(x)) for x in g.ifs):
                            upto = k + 1
                        break
                for g in reversed(gens[:upto]):
                    if name in au.assigned_names(g.target):
                        self._site = g.iter
                        return loop_binding(g.target, g.iter, name)
            if isinstance(a, ast.Lambda) and name in au.params(a):
                return None
            if isinstance(a, (ast.FunctionDef, ast.AsyncFunctionDef)):
                break
            child = a
        cur = au.enclosing_stmt(at)
        # a walrus earlier in the same statement (e.g. in the test of the `if` whose body we are not in) is handled by the owner scan
        first = True
        while cur is not None and not isinstance(cur, (ast.FunctionDef, ast.AsyncFunctionDef, ast.Module)):
            blk, owner = au.enclosing_block(cur)
            if blk is None:
                if isinstance(owner, ast.ExceptHandler):
                    blk = owner.body
                elif hasattr(ast, "match_case") and isinstance(owner, ast.match_case):
                    blk = owner.body
                else:
                    return None
            idx = next((i for i, x in enumerate(blk) if x is cur), None)
            if idx is None:
                return None
            if first and not isinstance(cur, (ast.If, ast.For, ast.While, ast.With, ast.Try, ast.AsyncFor, ast.AsyncWith)):
                # walrus inside the statement itself, textually before the use
                w = self._walrus_before(cur, name, at)
                if w is not None:
                    self._site = cur
                    return w
            first = False
            for s in reversed(blk[:idx]):
                d = self._def_in_stmt(s, name, depth)
                if d is KILL:
                    return None
                if d is not None:
                    self._site = s
                    return d
            if isinstance(owner, (ast.If, ast.While)):
                w = _walrus(owner.test, name)
                if w is not None and not (isinstance(owner, ast.While) and any(_binds(s, name) for s in owner.body)):
                    self._site = owner
                    return w
            if isinstance(owner, (ast.For, ast.AsyncFor)):
                if name in au.assigned_names(owner.target) and any(cur is s for s in owner.body):
                    self._site = owner
                    return loop_binding(owner.target, owner.iter, name)
                if any(_binds(s, name) for s in owner.body):
                    return None
            if isinstance(owner, ast.While) and any(_binds(s, name) for s in owner.body):
                return None
            if isinstance(owner, (ast.With, ast.AsyncWith)):
                for it in owner.items:
                    if it.optional_vars is not None and name in au.assigned_names(it.optional_vars):
                        return None
            if isinstance(owner, ast.ExceptHandler):
                if owner.name == name:
                    return None
                owner = au.parent(owner)
            if hasattr(ast, "match_case") and isinstance(owner, ast.match_case):
                if name in _pattern_names(owner.pattern):
                    return None
                owner = au.parent(owner)
                w = _walrus(owner.subject, name)
                if w is not None:
                    self._site = owner
                    return w
            cur = owner
        return None

    def _walrus_before(self, stmt, name, at):
        best = None
        for n in au.walk_ordered(stmt):
            if n is at:
                break
            if isinstance(n, ast.NamedExpr) and n.target.id == name:
                best = n.value
        return best

    # ---------------------------------------------------------------- resolution
    def resolve(self, expr, at=None, keep=(), depth=12):
        at = at if at is not None else expr
        return _resolve_tree(expr, at, self, frozenset(keep), depth, frozenset())

    def lookup(self, name, at):
        """(definition, site) of `name` reaching `at`; definition None when there is none the analysis understands"""
        self._site = None
        d = self._lookup(name, at)
        if d is None or d is KILL:
            return None, None
        return d, self._site


def _resolve_tree(expr, at, flow, keep, depth, busy):
    """substitute the names of `expr` (nodes of the original tree keep their `_parent`, so look-ups are position aware)"""
    if depth <= 0:
        return clone(expr)

    def rec(node, site, bound):
        # `site`: the original node whose position governs the look-up of names in `node`
        if isinstance(node, ast.Name):
            if not isinstance(node.ctx, ast.Load) or node.id in keep or node.id in SYNTH or node.id in bound:
                return clone(node)
            origin = node if getattr(node, "_parent", None) is not None else site
            key = (node.id, id(origin))
            if key in busy:
                return clone(node)
            d, dsite = flow.lookup(node.id, origin)
            if d is None:
                return clone(node)
            if getattr(d, "_parent", None) is not None:
                dsite = d
            elif dsite is None:
                dsite = origin
            return _resolve_tree(d, dsite, flow, keep, depth - 1, busy | {key})
        if isinstance(node, ast.Lambda):
            new = clone(node)
            new.body = rec(node.body, site, bound | set(au.params(node)))
            return new
        if not isinstance(node, ast.AST):
            return node
        if isinstance(node, ast.NamedExpr):
            return rec(node.value, site, bound)
        new = type(node)()
        here = node if getattr(node, "_parent", None) is not None else site
        for f in node._fields:
            if not hasattr(node, f):
                continue
            v = getattr(node, f)
            if isinstance(v, list):
                setattr(new, f, [rec(x, here, bound) if isinstance(x, ast.AST) else x for x in v])
            elif isinstance(v, ast.AST):
                setattr(new, f, rec(v, here, bound))
            else:
                setattr(new, f, v)
        for a in ("lineno", "col_offset", "end_lineno", "end_col_offset"):
            if hasattr(node, a):
                setattr(new, a, getattr(node, a))
        if isinstance(new, COMPS):
            # the targets of the generators have been substituted in the element: drop generators whose target no longer occurs
            pass
        return new
    return rec(expr, at, frozenset())


# ---------------------------------------------------------------------- small matchers on resolved trees
def strip_calls(e, tails):
    """peel conversions `f(x)` / `x.f()` for f in `tails`"""
    while True:
        if isinstance(e, ast.Call) and au.call_tail(e) in tails:
            if isinstance(e.func, ast.Attribute) and not _is_mod(e.func.value):
                e = e.func.value         # x.reshape(...), x.astype(...), x.copy(): the receiver
                continue
            if e.args:
                e = e.args[0]            # np.asarray(x, ...), list(x): the first argument
                continue
        return e


def _is_mod(e):
    c = au.chain(e)
    return bool(c) and c[0] in ("np", "numpy", "math")


def alternatives(e):
    """leaves of the conditional-expression tree of a resolved value: [(conditions, expr)]"""
    if isinstance(e, ast.IfExp):
        return [([(e.test, True)] + c, x) for c, x in alternatives(e.body)] + [([(e.test, False)] + c, x) for c, x in alternatives(e.orelse)]
    return [([], e)]


def expand(e, limit=32):
    """every conditional expression of `e` (at any depth) resolved one way or the other:
    [(conditions, copy of the expression without IfExp)]; truncated to `limit` alternatives"""
    import itertools

    def rec(node):
        if isinstance(node, ast.IfExp):
            out = []
            for pol, br in ((True, node.body), (False, node.orelse)):
                for c, x in rec(br):
                    out.append(([(node.test, pol)] + c, x))
            return out[:limit]
        if not isinstance(node, ast.AST):
            return [([], node)]
        slots = []      # (field, index | None, alternatives)
        for f in node._fields:
            if not hasattr(node, f):
                continue
            v = getattr(node, f)
            if isinstance(v, list):
                for k, x in enumerate(v):
                    if isinstance(x, ast.AST):
                        slots.append((f, k, rec(x)))
            elif isinstance(v, ast.AST):
                slots.append((f, None, rec(v)))
        out = []
        for combo in itertools.islice(itertools.product(*[alts for _, _, alts in slots]), limit):
            new = type(node)()
            for f in node._fields:
                if hasattr(node, f):
                    v = getattr(node, f)
                    setattr(new, f, list(v) if isinstance(v, list) else v)
            conds = []
            for (f, k, _), (c, x) in zip(slots, combo):
                conds += c
                if k is None:
                    setattr(new, f, x)
                else:
                    getattr(new, f)[k] = x
            for a in ("lineno", "col_offset", "end_lineno", "end_col_offset"):
                if hasattr(node, a):
                    setattr(new, a, getattr(node, a))
            out.append((conds, new))
        return out
    return rec(e)


def find_calls(e, tail):
    return [n for n in ast.walk(e) if isinstance(n, ast.Call) and au.call_tail(n) == tail]


def contains(e, pred):
    return any(pred(n) for n in ast.walk(e))


# ---------------------------------------------------------------------- helper calls
RAISES = object()


def function_value(fn):
    """the value returned by a small helper as one expression over its parameters (conditional expressions for its branches);
    None when the helper is not a straight if / return structure (loops that return, try, with ...)"""
    fl = Flow(fn)

    def val(stmts):
        for i, st in enumerate(stmts):
            rest = stmts[i + 1:]
            if isinstance(st, ast.Return):
                return fl.resolve(st.value, at=st) if st.value is not None else ast.Constant(None)
            if isinstance(st, ast.Raise):
                return RAISES
            if isinstance(st, ast.If):
                a = val(st.body + ([] if au._leaves(st.body) else rest))
                b = val(st.orelse + ([] if (st.orelse and au._leaves(st.orelse)) else rest))
                if a is None or b is None:
                    return None
                if a is RAISES:
                    return b
                if b is RAISES:
                    return a
                return ast.IfExp(test=fl.resolve(st.test, at=st), body=a, orelse=b)
            if isinstance(st, (ast.For, ast.AsyncFor, ast.While, ast.With, ast.AsyncWith, ast.Try)):
                if any(isinstance(x, ast.Return) for x in au.stmts([st])):
                    return None
        return ast.Constant(None)
    return val(list(fn.body))


def inline_calls(e, functions, depth=2):
    """calls `f(args)` to the helpers `functions` (name -> FunctionDef) replaced by the value they return"""
    if depth <= 0 or e is None:
        return e
    cache = {}

    class T(ast.NodeTransformer):
        def visit_Call(self, node):
            self.generic_visit(node)
            if isinstance(node.func, ast.Name) and node.func.id in functions and not any(isinstance(a, ast.Starred) for a in node.args) \
                    and not any(k.arg is None for k in node.keywords):
                fn = functions[node.func.id]
                if fn.name not in cache:
                    cache[fn.name] = function_value(fn)
                v = cache[fn.name]
                if v is None or v is RAISES:
                    return node
                a = fn.args
                if a.vararg or a.kwarg:
                    return node
                names = [p.arg for p in a.posonlyargs + a.args]
                mapping = dict(zip(names, node.args))
                for k in node.keywords:
                    mapping[k.arg] = k.value
                defaults = dict(zip(names[len(names) - len(a.defaults):], a.defaults)) if a.defaults else {}
                for p_, d_ in zip(a.kwonlyargs, a.kw_defaults):
                    if d_ is not None:
                        defaults[p_.arg] = d_
                for n_ in names + [p_.arg for p_ in a.kwonlyargs]:
                    if n_ not in mapping:
                        if n_ not in defaults:
                            return node
                        mapping[n_] = defaults[n_]
                return inline_calls(sym.subst(v, mapping), functions, depth - 1)
            return node
    return T().visit(clone(e))
