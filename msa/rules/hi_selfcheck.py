"""Differential self-check of the bounded evaluator rules/hi_exec.py (group I) against the real python / numpy semantics.

Not part of any verdict and never run by `./check`: a development tool (`/venv/bin/python -m msa.rules.hi_selfcheck [-v]`, needs numpy).
It evaluates small *self-written* expressions and functions (below) twice - with python itself and with the evaluator, through a
repository overlay that replaces one module of the package by these snippets; nothing of mouette is imported or executed - and
reports every case where the evaluator gives a decided value that differs from python's (a decided wrong value is what could turn
into a false alarm with a concrete witness; an opaque / undecidable answer is always acceptable).  Exit status 1 on a mismatch."""
from __future__ import annotations
import ast, sys, itertools, functools, operator
from fractions import Fraction

SNIPPETS = r'''
np.arange(5)
np.arange(2, 9)
np.arange(1, 10, 3)
np.arange(6).reshape(2, 3)
np.arange(6).reshape((3, 2)).T
np.arange(6).reshape(2, 3, order="F")
np.arange(12).reshape(2, -1)
np.arange(12).reshape(-1, 4)[1]
np.arange(12).reshape(3, 4)[:, 1]
np.arange(12).reshape(3, 4)[1:, ::2]
np.arange(12).reshape(3, 4)[[0, 2]]
np.arange(12).reshape(3, 4)[[0, 2], [1, 3]]
np.arange(12).reshape(3, 4)[:, [1, 3]]
np.arange(12).reshape(3, 4)[-1, -1]
np.arange(12).reshape(3, 4)[..., 0]
np.arange(5)[::-1]
np.arange(5)[None, :]
np.arange(5)[:, None] + np.arange(3)[None, :]
np.arange(5)[:, np.newaxis] * 10 + np.arange(3)
(np.arange(5) + 1) % 5
(np.arange(5) * 2 + 1) // 3
np.arange(6) - 2
-np.arange(4)
np.mod(np.arange(6) + 1, 6)
np.remainder(np.arange(6), 4)
np.add(np.arange(3), 5)
np.multiply(np.arange(3), np.arange(3))
np.floor_divide(np.arange(7), 2)
np.roll(np.arange(5), 1)
np.roll(np.arange(5), -2)
np.roll(np.arange(6).reshape(2, 3), 1, axis=1)
np.roll(np.arange(6).reshape(2, 3), 1, axis=0)
np.roll(np.arange(6).reshape(2, 3), 1)
np.flip(np.arange(5))
np.flip(np.arange(6).reshape(2, 3), axis=1)
np.cumsum(np.arange(5))
np.cumsum(np.arange(6).reshape(2, 3), axis=1)
np.repeat(np.arange(3), 2)
np.repeat(np.arange(6).reshape(2, 3), 2, axis=0)
np.repeat(np.arange(6).reshape(2, 3), 2, axis=1)
np.repeat(np.arange(6).reshape(2, 3), 2)
np.tile(np.arange(3), 2)
np.tile(np.arange(6).reshape(2, 3), 2)
np.tile(np.arange(3), (2, 1))
np.outer(np.arange(3), np.arange(4))
np.stack((np.arange(3), np.arange(3) + 10))
np.stack((np.arange(3), np.arange(3) + 10), axis=1)
np.stack((np.arange(3), np.arange(3) + 10), axis=-1)
np.stack([np.arange(6).reshape(2, 3), np.arange(6).reshape(2, 3) + 10], axis=1)
np.stack([np.arange(6).reshape(2, 3), np.arange(6).reshape(2, 3) + 10], axis=2).reshape(-1, 2)
np.column_stack((np.arange(3), np.arange(3) + 10))
np.column_stack((np.arange(6).reshape(3, 2), np.arange(3)))
np.vstack((np.arange(3), np.arange(3) + 10))
np.vstack([np.arange(6).reshape(2, 3), np.arange(3)])
np.hstack((np.arange(3), np.arange(2)))
np.hstack([np.arange(6).reshape(2, 3), np.arange(4).reshape(2, 2)])
np.concatenate((np.arange(3), np.arange(2)))
np.concatenate([np.arange(6).reshape(2, 3), np.arange(3).reshape(1, 3)])
np.concatenate([np.arange(6).reshape(2, 3), np.arange(4).reshape(2, 2)], axis=1)
np.concatenate([np.arange(6).reshape(2, 3), np.arange(4).reshape(2, 2)], axis=None)
np.transpose(np.arange(6).reshape(2, 3))
np.transpose(np.arange(24).reshape(2, 3, 4), (1, 0, 2)).reshape(-1, 4)
np.arange(24).reshape(2, 3, 4).transpose(2, 0, 1).reshape(4, 6)
np.arange(24).reshape(2, 3, 4).swapaxes(0, 2).reshape(4, 6)
np.meshgrid(np.arange(2), np.arange(3))[0]
np.meshgrid(np.arange(2), np.arange(3))[1]
np.meshgrid(np.arange(2), np.arange(3), indexing="ij")[0]
np.meshgrid(np.arange(2), np.arange(3), indexing="ij")[1]
np.meshgrid(np.arange(2), np.arange(3), np.arange(2))[2].reshape(-1)
np.indices((2, 3))[0]
np.indices((2, 3))[1]
np.indices((2, 3)).reshape(2, -1)
np.indices((2, 3)).reshape(2, -1).T
np.take(np.arange(5) * 2, [0, 2, 4])
np.take(np.arange(5) * 2, np.arange(5) + 1, mode="wrap")
np.take(np.arange(5) * 2, np.arange(5) + 1, mode="clip")
np.take(np.arange(12).reshape(3, 4), [0, 2], axis=1)
np.take(np.arange(12).reshape(3, 4), [0, 2], axis=0)
np.take(np.arange(12).reshape(3, 4), [0, 5, 11])
np.take(np.arange(12).reshape(3, 4), (np.arange(4) + 1) % 4, axis=1)
np.append(np.arange(3), 7)
np.append(np.arange(3), [7, 8])
np.append(np.arange(6).reshape(2, 3), [[7, 8, 9]], axis=0)
np.zeros(3, dtype=int)
np.zeros((2, 2), dtype=int) + 1
np.ones(3, dtype=int) * 4
np.full(3, 7)
np.full((2, 2), 7)
np.full_like(np.arange(3), 5)
np.zeros_like(np.arange(3))
np.ones_like(np.arange(4).reshape(2, 2))
np.array([[1, 2], [3, 4]])
np.array([[1, 2], [3, 4]]).T
np.array([[1, 2], [3, 4]]).ravel()
np.array([[1, 2], [3, 4]]).ravel(order="F")
np.array([[1, 2], [3, 4]]).flatten()
np.array([[1, 2], [3, 4]]).tolist()
np.array([1, 2, 3], ndmin=2)
np.array(range(4))
np.asarray([(0, 1), (2, 3)])
np.array([[1, 2], [3, 4]]).sum()
np.array([[1, 2], [3, 4]]).sum(axis=0)
np.array([[1, 2], [3, 4]]).max()
np.array([1, 2, 3]).min()
np.arange(6).reshape(2, 3).shape
np.arange(6).reshape(2, 3).size
np.arange(6).reshape(2, 3).ndim
len(np.arange(6).reshape(2, 3))
list(np.arange(3))
[tuple(r) for r in np.arange(6).reshape(3, 2).tolist()]
[tuple(r) for r in np.arange(6).reshape(3, 2)]
np.arange(6).reshape(3, 2).squeeze()
np.arange(3).reshape(3, 1).squeeze()
np.arange(3).astype(int)
np.arange(3).copy()
divmod(7, 3)
divmod(np.arange(7), 3)[0]
divmod(np.arange(7), 3)[1]
np.divmod(np.arange(7), 3)[1]
list(range(2, 10, 3))
list(range(5, 0, -2))
list(enumerate("abc"))
list(enumerate([5, 6], start=3))
list(enumerate([5, 6], 2))
list(zip([1, 2, 3], "ab"))
list(zip(range(3), range(1, 4), range(2, 5)))
list(map(lambda x: x * 2, range(4)))
list(map(lambda x, y: x + y, range(3), range(10, 13)))
list(filter(lambda x: x % 2, range(6)))
list(filter(None, [0, 1, 2, 0, 3]))
sorted([3, 1, 2])
sorted([3, 1, 2], reverse=True)
sorted([(1, 2), (0, 5), (1, 0)])
sorted([3, 1, 2], key=lambda x: -x)
sorted(["b", "a"], key=lambda s: s)
sorted({(1, 0): 1, (0, 1): 2})
list(reversed([1, 2, 3]))
sum([1, 2, 3])
sum([1, 2, 3], 10)
sum(range(5), start=2)
min(3, 1, 2)
max([3, 1, 2])
min([3, 1, 2], key=lambda x: -x)
max([], default=4)
abs(-3)
round(2.5)
round(3.5)
round(7 / 2)
int(7 / 2)
int(-7 / 2)
7 // 2
-7 // 2
7 % 3
-7 % 3
2 ** 3
len("abcd")
[x * y for x in range(3) for y in range(2)]
[x for x in range(10) if x % 3 == 0]
[(i, j) for i in range(3) for j in range(i)]
{k: k * k for k in range(3)}
{k: v for k, v in zip("ab", range(2))}
list({1: 2, 3: 4}.items())
list({1: 2, 3: 4}.values())
dict([(1, 2), (3, 4)])
dict(a=1, b=2)
[1, 2, 3][::-1]
[1, 2, 3][-1]
[1, 2, 3][1:]
(1, 2, 3)[:2]
[1, 2] * 2
[0] * 3 + [1]
[*range(3), 7]
(*range(2), 5)
list(itertools.product(range(2), range(3)))
list(itertools.product(range(2), repeat=2))
list(itertools.chain(range(2), [5, 6]))
list(itertools.chain.from_iterable([[1, 2], [3]]))
list(itertools.pairwise(range(4)))
list(itertools.accumulate([1, 2, 3]))
list(itertools.accumulate([1, 2, 3], lambda a, b: a * b))
list(itertools.accumulate([1, 2, 3], initial=10))
list(itertools.accumulate(itertools.repeat(2, 3), lambda a, b: a * b, initial=1))
list(itertools.islice(range(10), 2, 8, 3))
list(itertools.islice(range(10), 3))
list(itertools.repeat(4, 3))
list(itertools.starmap(lambda a, b: a - b, [(5, 1), (7, 2)]))
list(itertools.zip_longest([1, 2, 3], [4], fillvalue=0))
functools.reduce(lambda a, b: a + b, range(5))
functools.reduce(lambda a, b: a * b, range(1, 5), 10)
functools.reduce(operator.add, [1, 2, 3], 0)
operator.mul(3, 4)
[i for i, x in enumerate([5, 6, 7]) if x > 5]
any(x > 2 for x in range(4))
all(x > 2 for x in range(4))
3 in [1, 2, 3]
(1, 2) in [(1, 2)]
4 not in range(4)
1 < 2 <= 2
(lambda a, b=2: a * b)(3)
(lambda *a: len(a))(1, 2, 3)
"ab" + "c"
"x".join(["a", "b"])
tuple(np.arange(3))
np.linspace(0, 1, 5).size
len(np.linspace(0, 1, 4, endpoint=False))
np.arange(10)[np.arange(10) % 2 == 0]
np.where(np.arange(5) > 2)[0]
np.argsort(np.array([3, 1, 2]))
np.unique(np.array([3, 1, 3]))
np.arange(6).reshape(2, 3).T.reshape(-1)
np.arange(6).reshape(2, 3).T.tolist()
np.arange(4).reshape(2, 2) @ np.arange(4).reshape(2, 2)
np.dot(np.arange(3), np.arange(3))
np.arange(3).dot(np.arange(3))
np.arange(3).repeat(2)
np.arange(6).reshape(2, 3).repeat(2, axis=1)
np.arange(6).reshape(2, 3).max(axis=1)
np.int64(3) + 1
int(np.int64(3))
np.c_[np.arange(3), np.arange(3) + 1]
np.r_[np.arange(3), 7]
np.stack((np.arange(3),) * 2, axis=1)
np.array([np.arange(3), np.arange(3) + 1])
np.array([np.arange(3), np.arange(3) + 1]).T
np.full(3, 2 * 3 + 1)
np.arange(3) == np.arange(3)
(np.arange(3) + 1).tolist()
np.arange(2 * 3).reshape(2, 3)[1].tolist()
np.ravel(np.arange(6).reshape(2, 3))
np.ravel(np.arange(6).reshape(2, 3), order="F")
np.reshape(np.arange(6), (2, 3))
np.reshape(np.arange(6), (2, 3), order="F")
np.reshape(np.arange(6), (3, -1))
np.squeeze(np.arange(3).reshape(1, 3))
np.expand_dims(np.arange(3), 0)
np.atleast_2d(np.arange(3))
np.swapaxes(np.arange(6).reshape(2, 3), 0, 1)
np.moveaxis(np.arange(6).reshape(2, 3), 0, 1)
np.arange(6).reshape(2, 3).flat[4]
list(np.arange(6).reshape(2, 3).flat)
np.arange(6).reshape(2, 3).item(4)
np.arange(3).tolist() + [9]
np.clip(np.arange(5), 1, 3)
np.minimum(np.arange(5), 2)
np.maximum(np.arange(5), 2)
np.sort(np.array([3, 1, 2]))
np.diff(np.array([1, 4, 9]))
np.prod(np.array([1, 2, 3]))
np.sum(np.arange(6).reshape(2, 3), axis=0)
np.sum(np.arange(4))
np.any(np.arange(3) > 1)
np.array_equal(np.arange(3), np.arange(3))
np.arange(5)[1:4][::-1]
np.arange(5)[np.array([0, 0, 1])]
np.arange(5)[-2:]
np.arange(12).reshape(3, 4)[1][2]
np.arange(12).reshape(3, 4)[1, 2]
np.arange(12).reshape(3, 4)[:2, :2].reshape(-1)
np.arange(12).reshape(3, 4)[::-1, 0]
np.arange(12).reshape(3, 4)[np.arange(3), np.arange(3)]
np.arange(12).reshape(3, 4)[:, -1]
np.arange(12).reshape(3, 4)[None].shape
np.tri(3, 4, dtype=bool)
np.tri(3)
np.tri(3, 2, 1, dtype=int)
np.nonzero(np.tri(3, 4, dtype=bool))[0]
np.nonzero(np.tri(3, 4, dtype=bool))[1]
np.nonzero(np.tri(0, 4, dtype=bool))[0]
np.nonzero(np.array([0, 2, 0, 3]))[0]
np.flatnonzero(np.array([[0, 1], [1, 0]]))
np.argwhere(np.array([[0, 1], [1, 0]]))
np.arange(5) < 3
np.arange(5) < np.arange(5)[::-1]
np.arange(6).reshape(2, 3) >= 2
np.arange(5)[np.arange(5) < 3]
np.arange(10)[np.arange(10) % 2 == 0]
np.arange(12).reshape(4, 3)[np.array([True, False, True, False])]
np.arange(12).reshape(4, 3)[np.stack((np.arange(2) < 1, np.ones(2, dtype=bool)), axis=-1).ravel()]
np.ones(3, dtype=bool)
np.zeros(2, dtype=bool)
np.linspace(0, 1, 3)[np.array([2, 0, 0])].size
np.nonzero(np.tri(3, 3, dtype=bool))[0].size
(np.arange(4) * (np.arange(4) + 1) // 2 + np.arange(4)[::-1])
'''.strip().splitlines()



PROGRAMS = r'''
def p(n):
    out = []
    for i in range(n):
        if i % 2:
            continue
        out.append(i)
    return out
---
def p(n):
    out = []
    for i in range(n):
        if i == 3:
            break
        out.append(i)
    else:
        out.append(-1)
    return out
---
def p(n):
    out = []
    i = 0
    while i < n:
        out.append((i, i * i))
        i += 2
    return out, i
---
def p(n):
    out = []
    for i in range(n):
        for j in range(i):
            if j == 2:
                break
            out.append((i, j))
    return out
---
def p(n):
    k = 0
    out = {}
    for i in range(n):
        for j in range(2):
            out[(i, j)] = k
            k += 1
    return [out[key] for key in sorted(out)], k
---
def p(n):
    def idx(i, j):
        return i * n + j
    return [idx(i, j) for i in range(2) for j in range(n)]
---
def p(n):
    count = 0
    def bump():
        nonlocal count
        count += 1
        return count
    return [bump() for _ in range(n)], count
---
def p(n):
    def gen():
        for i in range(n):
            yield i
            yield -i
    return list(gen())
---
def p(n):
    def gen(k):
        if k > 0:
            yield k
            yield from gen(k - 1)
    return list(gen(n))
---
def p(n):
    a = list(range(n))
    a[1:3] = [9]
    b = a[:]
    b.reverse()
    a.extend(b)
    a.insert(0, 7)
    x = a.pop()
    return a, x, a.index(9), a.count(7)
---
def p(n):
    a = [None] * n
    for k in range(n):
        a[k] = (k, (k + 1) % n)
    return a
---
def p(n):
    a = [[0] * 2 for _ in range(n)]
    a[0][1] = 5
    b = [[0] * 2] * n
    b[0][1] = 5
    return a, b
---
def p(n):
    nxt = list(range(1, n)) + [0]
    return [(i, nxt[i]) for i in range(n)]
---
def p(n):
    rows = []
    offset = 0
    for r in range(n):
        rows.append(list(range(offset, offset + r + 1)))
        offset += r + 1
    return rows, offset
---
def p(n):
    faces = []
    for i, (a, b) in enumerate(zip(range(n), range(1, n + 1))):
        faces += [(a, b, i)] if i % 2 else [(b, a, i), (a, a, i)]
    return faces
---
def p(n):
    q, r = divmod(7 * n, 3)
    return q, r, (q, r) == divmod(7 * n, 3)
---
def p(n):
    x = n if n > 2 else -n
    y = (n > 2) and (n < 10)
    z = n or 5
    w = not n
    return x, y, z, w
---
def p(n):
    t = tuple(range(n))
    a, *rest = t
    *init, last = t
    return a, rest, init, last, t[::-1], t + (1,)
---
def p(n):
    s = set()
    for i in range(n):
        s.add(i % 3)
    return sorted(s), len(s), 2 in s
---
def p(n):
    d = {}
    for i in range(n):
        d.setdefault(i % 2, []).append(i)
    return sorted(d.items())
---
def p(n):
    from collections import defaultdict
    d = defaultdict(list)
    for i in range(n):
        d[i % 2].append(i)
    return sorted(d.items())
---
def p(n):
    out = []
    for i in reversed(range(n)):
        out.append(i)
    for i in range(n - 1, -1, -1):
        out.append(i)
    return out
---
def p(n):
    total = 0
    for i in range(n):
        total += i
    assert total == n * (n - 1) // 2
    return total
---
def p(n):
    try:
        x = [1, 2, 3][n]
    except IndexError:
        x = -1
    return x
---
def p(n):
    ids = np.arange(n)
    nxt = (ids + 1) % n
    return [tuple(e) for e in np.column_stack((ids, nxt)).tolist()]
---
def p(n):
    grid = np.arange(n * 3).reshape(n, 3)
    quads = np.stack((grid[:-1, :-1], grid[:-1, 1:], grid[1:, 1:], grid[1:, :-1]), axis=-1).reshape(-1, 4)
    return [tuple(q) for q in quads.tolist()]
---
def p(n):
    i, j = np.meshgrid(np.arange(n), np.arange(3), indexing="ij")
    k = (i * 3 + j).ravel()
    return k.tolist(), k.shape
---
def p(n):
    a = np.empty((n, 2), dtype=int)
    for r in range(n):
        a[r] = (r, r + 1)
    a[:, 1] %= n
    return a.tolist()
---
def p(n):
    a = np.zeros(n, dtype=int)
    a[1:] = np.arange(n - 1) + 1
    a[0] = a[-1]
    return a.tolist()
---
def p(n):
    class K:
        def __init__(self, m):
            self.m = m
        def idx(self, i):
            return i * self.m
    k = K(n)
    return [k.idx(i) for i in range(3)]
---
def p(n):
    out = []
    it = iter(range(n))
    first = next(it)
    for x in it:
        out.append((first, x))
    return out
---
def p(n):
    pairs = list(itertools.pairwise(range(n))) + [(n - 1, 0)]
    return pairs
---
def p(n):
    acc = [0]
    for i in range(1, n):
        acc.append(acc[-1] + i)
    return acc, list(itertools.accumulate(range(n)))
---
def p(n):
    f = lambda i, j=1: (i + j) % n
    g = functools.partial(f, j=2)
    return [f(i) for i in range(n)], [g(i) for i in range(n)]
---
def p(n):
    out = []
    k = 0
    while True:
        if k >= n:
            break
        out.append(k)
        k += 1
    return out
---
def p(n):
    m = [[i * n + j for j in range(n)] for i in range(2)]
    flat = [x for row in m for x in row]
    tr = list(zip(*m))
    return m, flat, tr
---
def p(n):
    x = [1, 2, 3]
    y = x
    y += [4]
    z = x + [5]
    x *= 2
    return x, y, z
---
def p(n):
    a = list(range(n))
    del a[0]
    b = [v for v in a if v != 2]
    return a, b, a == b, a[1:] == b[1:]
---
def p(n):
    out = []
    for (i, j), k in zip(itertools.product(range(2), range(n)), itertools.count()):
        out.append((i, j, k))
    return out
---
def p(n):
    s = "ab"
    return [c for c in s], s * n, f"{n}-{s}", s.upper()

---
def p(n):
    fs = [lambda i=i: i * n for i in range(3)]
    gs = [lambda: i * n for i in range(3)]
    return [f() for f in fs], [g() for g in gs]
---
def p(n):
    def f(x, acc=[]):
        acc.append(x)
        return list(acc)
    return f(1), f(n)
---
def p(n):
    x = 10
    r = [x for x in range(n)]
    return x, r
---
def p(n):
    a = list(range(n + 2))
    a[::2] = [-1] * len(a[::2])
    b = a[-2:] + a[:-2]
    return a, b, a[-1], a[-n:]
---
def p(n):
    a = list(range(6))
    return a[1:n], a[n:], a[:-n], a[::-2], a[n:1:-1]
---
def p(n):
    seen = []
    def gen():
        for i in range(10):
            seen.append(i)
            yield i
    out = [x for x, _ in zip(gen(), range(n))]
    return out, seen
---
def p(n):
    g = (i * i for i in range(10))
    first = [next(g) for _ in range(n)]
    rest = list(g)
    return first, rest
---
def p(n):
    d = {}
    d["b"] = 1
    d["a"] = 2
    d["b"] = 3
    return list(d), list(d.values()), len(d)
---
def p(n):
    (a, b), c = (1, n), 3
    a, b = b, a
    x = y = []
    x.append(c)
    return a, b, x, y, x is y
---
def p(n):
    return -7 // n, -7 % n, 7 // -n, divmod(-7, n), int(-7 / n), round(-2.5), round(n / 2)
---
def p(n):
    return 1 < n < 5, n == 3 or n / 0, n != 3 and n > 3, (n, 1) < (4, 0), [1, 2] < [1, n]
---
def p(n):
    out = []
    for i in range(n):
        pass
    out.append(i)
    for j in range(0):
        out.append(j)
    else:
        out.append("done")
    return out
---
def p(n):
    m = np.arange(n * n).reshape(n, n)
    out = []
    for row in m:
        out.append(int(row[0]) + int(row[-1]))
    for v in m[0]:
        out.append(int(v))
    return out
---
def p(n):
    a = np.arange(n)
    b = a
    b += 1
    c = a + 1
    a[0] = 100
    return a.tolist(), b.tolist(), c.tolist()
---
def p(n):
    a = np.arange(6).reshape(2, 3)
    v = a[0]
    v[1] = 50
    w = a[:, 1].copy()
    w[0] = -1
    return a.tolist(), v.tolist(), w.tolist()
---
def p(n):
    x = [[1, 2], [3, 4]]
    y = list(x)
    y[0].append(n)
    z = [r[:] for r in x]
    z[1].append(n)
    return x, y, z
---
def p(n):
    def outer():
        k = n
        def inner():
            return k + 1
        k = k * 2
        return inner()
    return outer()
---
def p(n):
    total = 0
    for i in range(n):
        if i == 1:
            continue
        for j in range(n):
            if j > i:
                break
            total += 10 * i + j
        else:
            total += 1000
    return total
---
def p(n):
    items = [(2, "b"), (1, "z"), (2, "a")]
    return sorted(items), sorted(items, key=lambda t: t[0]), sorted(items, key=lambda t: t[1], reverse=True), min(items), max(items, key=lambda t: t[1])
---
def p(n):
    return [i for i in range(n) if i % 2 if i > 0], [(i, j) for i in range(n) if i for j in range(i) if j]
---
def p(n):
    s = 0
    i = 0
    while i < n:
        i += 1
        if i == 2:
            continue
        s += i
    else:
        s += 100
    return s, i
---
def p(n):
    a, b = [], []
    for k, x in enumerate(range(n), start=1):
        (a if k % 2 else b).append(x)
    return a, b
---
def p(n):
    return list(zip(*[(i, i * i) for i in range(n)])), list(map(list, zip(range(n), "abcdef")))
---
def p(n):
    t = ()
    for i in range(n):
        t += (i,)
    u = t * 2
    return t, u, len(u), u.count(0), t.index(n - 1)
'''.strip().split("\n---\n")




np = X = NArr = None        # bound by main(): numpy is needed by this tool only, never by the checks


def _imports():
    import numpy
    from .. import core
    from . import hi_exec
    from .hi_nd import NArr as narr
    return numpy, core, hi_exec, narr


def to_py(v):
    """normalise a real python/numpy value to nested python data"""
    if isinstance(v, np.ndarray):
        return ("arr", tuple(v.shape), [to_py(x) for x in v.reshape(-1).tolist()])
    if isinstance(v, (np.integer,)):
        return int(v)
    if isinstance(v, (np.floating,)):
        return float(v)
    if isinstance(v, (np.bool_,)):
        return bool(v)
    if isinstance(v, (list, tuple)):
        return (type(v).__name__, [to_py(x) for x in v])
    if isinstance(v, dict):
        return ("dict", [(to_py(k), to_py(x)) for k, x in v.items()])
    if isinstance(v, range):
        return ("list", list(v))
    return v


def from_x(v):
    """normalise a hi_exec value; raises ValueError when (partly) opaque"""
    if isinstance(v, NArr):
        return ("arr", tuple(v.shape), [from_x(x) for x in v.items])
    if isinstance(v, X.Opaque):
        raise ValueError("opaque")
    if isinstance(v, bool):
        return v
    if isinstance(v, X.Sample):
        return float(v)
    if isinstance(v, Fraction):
        return float(v) if v.denominator != 1 else int(v)
    if isinstance(v, (list, tuple)):
        return (type(v).__name__, [from_x(x) for x in v])
    if isinstance(v, range):
        return ("list", list(v))
    if isinstance(v, dict):
        return ("dict", [(from_x(k), from_x(x)) for k, x in v.items()])
    if isinstance(v, (int, float, str)) or v is None:
        return v
    raise ValueError("unmodelled " + type(v).__name__)


def same(a, b):
    if isinstance(a, tuple) and isinstance(b, tuple) and len(a) == len(b) and a and isinstance(a[0], str) and a[0] == b[0]:
        return all(same(x, y) for x, y in zip(a[1:], b[1:]))
    if isinstance(a, (list, tuple)) and isinstance(b, (list, tuple)):
        return len(a) == len(b) and all(same(x, y) for x, y in zip(a, b))
    if isinstance(a, bool) or isinstance(b, bool):
        return bool(a) == bool(b) and isinstance(a, (bool, int)) and isinstance(b, (bool, int))
    if isinstance(a, (int, float)) and isinstance(b, (int, float)):
        return abs(a - b) < 1e-9
    return a == b




def main(verbose=False):
    global np, X, NArr
    np, core, X, NArr = _imports()
    src = "import numpy as np\nimport itertools, functools, operator\n\n"
    for k, sn in enumerate(SNIPPETS):
        src += f"def f{k}():\n    return {sn}\n\n"
    for k, prog in enumerate(PROGRAMS):
        src += prog.replace("def p(", f"def p{k}(", 1) + "\n\n"
    repo = core.Repo(overlay={"mouette/utils/iterators.py": src})
    modname = "mouette.utils.iterators"
    ns = {}
    exec(compile(src, "<hi_selfcheck snippets>", "exec"), ns)       # the snippets above, not the package
    cases = [(f"f{k}", {}, sn) for k, sn in enumerate(SNIPPETS)] + [(f"p{k}", {"n": n}, prog) for k, prog in enumerate(PROGRAMS) for n in (3, 4, 5)]
    bad = opq = okc = 0
    for name, args, text in cases:
        try:
            want, err = to_py(ns[name](**args)), None
        except Exception as e:      # noqa: BLE001
            want, err = None, type(e).__name__
        fn = repo.func("utils.iterators", name)
        it = X.Interp(repo)
        try:
            got = it.call(fn, modname, dict(args))
            try:
                g = from_x(got)
            except ValueError:
                opq += 1
                if verbose:
                    print("opaque      ", name, args, text.splitlines()[0][:80])
                continue
            if err is not None:
                bad += 1
                print(f"MISMATCH {name} {args}: python raises {err}, the evaluator gives {g}\n{text}")
            elif not same(g, want):
                bad += 1
                print(f"MISMATCH {name} {args}:\n    python    {want}\n    evaluator {g}\n{text}")
            else:
                okc += 1
        except (X.Undecidable, X.Raised) as e:
            opq += 1
            if verbose:
                print("undecidable ", name, args, e)
        except X.Crash as e:
            if err is None:
                bad += 1
                print(f"MISMATCH {name} {args}: the evaluator reports a crash {e.args[:1]}, python gives {want}\n{text}")
            else:
                okc += 1
        except Exception as e:      # noqa: BLE001
            bad += 1
            print(f"EVALUATOR EXCEPTION {name} {args}: {type(e).__name__}: {e}\n{text}")
    print(f"hi_selfcheck: {len(cases)} cases: {okc} agree, {opq} opaque / undecidable, {bad} MISMATCH")
    return 1 if bad else 0


if __name__ == "__main__":
    sys.exit(main("-v" in sys.argv))
