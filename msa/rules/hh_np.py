"""A small model of numpy arrays for the finite-model evaluator (msa/rules/hh_eval.py).

Only what the geometric primitives need: n-d arrays of bool / int / float / complex held in a python list, views that share
their storage with the array they were taken from (`np.asarray(x)`, `x.view(cls)`, basic slices), broadcasting element-wise
operations, reductions along an axis, numpy's casting on item assignment (a float stored into an integer array is truncated).
Anything outside the modelled subset raises `Unknown`: the evaluator then reports the obligation as undecided - it never guesses.
"""
from __future__ import annotations
import itertools, math


class Unknown(Exception):
    """the construct is outside the modelled subset of python / numpy"""


class Raised(Exception):
    """the evaluated program raised an exception"""

    def __init__(self, etype, msg=""):
        Exception.__init__(self, msg)
        self.etype, self.msg = etype, msg

    def __str__(self):
        n = getattr(self.etype, "__name__", None) or getattr(self.etype, "name", str(self.etype))
        return f"{n}: {self.msg}"


ORDER = "bifcs"       # s: symbolic numbers of hh_sym (exact clauses)


def _is_sym(v):
    return type(v).__name__ in ("SymNum", "SymC")


def kind(v):
    if isinstance(v, bool):
        return "b"
    if isinstance(v, int):
        return "i"
    if isinstance(v, float):
        return "f"
    if isinstance(v, complex):
        return "c"
    if _is_sym(v):
        return "s"
    raise Unknown(f"array element of type {type(v).__name__}")


def join(kinds, default="f"):
    best = None
    for k in kinds:
        if best is None or ORDER.index(k) > ORDER.index(best):
            best = k
    return best or default


def cast(v, dt):
    if _is_sym(v):
        if dt in ("f", "c", "s"):
            return v                    # a symbolic float stays exact in a float array
        raise Unknown("a symbolic value stored into an integer / boolean array")
    if dt == "s":
        return v
    if dt == "f":
        if isinstance(v, complex):
            raise Raised(TypeError, "complex stored into a float array")
        return float(v)
    if dt == "i":
        if isinstance(v, complex):
            raise Raised(TypeError, "complex stored into an integer array")
        if isinstance(v, float):
            if v != v or v in (math.inf, -math.inf):
                raise Unknown("nan / inf stored into an integer array")
            return int(v)          # numpy truncates towards zero, silently
        return int(v)
    if dt == "b":
        return bool(v)
    if dt == "c":
        return complex(v)
    raise Unknown(f"dtype {dt}")


def _prod(shape):
    n = 1
    for s in shape:
        n *= s
    return n


class Arr:
    """n-d array: `store` is shared between an array and its views, `idx` lists the positions of the elements in C order"""
    __slots__ = ("store", "idx", "shape", "dtype", "cls")

    def __init__(self, store, idx, shape, dtype, cls=None):
        self.store, self.idx, self.shape, self.dtype, self.cls = store, idx, tuple(shape), dtype, cls

    @staticmethod
    def of(values, shape=None, dtype=None, cls=None):
        values = list(values)
        if shape is None:
            shape = (len(values),)
        if dtype is None:
            dtype = join(kind(v) for v in values)
        store = [cast(v, dtype) for v in values]
        if len(store) != _prod(shape):
            raise Unknown("shape mismatch")
        return Arr(store, list(range(len(store))), shape, dtype, cls)

    @property
    def size(self):
        return len(self.idx)

    @property
    def ndim(self):
        return len(self.shape)

    def vals(self):
        s = self.store
        return [s[i] for i in self.idx]

    def view(self, cls="keep"):
        return Arr(self.store, self.idx, self.shape, self.dtype, self.cls if cls == "keep" else cls)

    def copy(self, cls="keep"):
        return Arr.of(self.vals(), self.shape, self.dtype, self.cls if cls == "keep" else cls)

    def astype(self, dt):
        return Arr.of([cast(v, dt) for v in self.vals()], self.shape, dt, self.cls)

    def shares(self, other):
        return self.store is other.store and bool(set(self.idx) & set(other.idx))

    # ---------------------------------------------------------------- indexing
    def _select(self, index):
        """(positions into self.idx, result shape, is_view)"""
        if not isinstance(index, tuple):
            index = (index,)
        if len(index) == 1 and isinstance(index[0], Arr) and index[0].dtype == "b":
            m = index[0]
            if m.shape != self.shape[:m.ndim]:
                raise Raised(IndexError, "boolean index did not match")
            inner = _prod(self.shape[m.ndim:])
            pos = []
            for k, flag in enumerate(m.vals()):
                if flag:
                    pos.extend(range(k * inner, (k + 1) * inner))
            return pos, (sum(1 for f in m.vals() if f),) + self.shape[m.ndim:], False
        if any(x is Ellipsis or x is None for x in index):
            raise Unknown("Ellipsis / newaxis index")
        if len(index) > self.ndim:
            raise Raised(IndexError, "too many indices for array")
        sel, shape, is_view = [], [], True
        n_adv = 0
        for ax, n in enumerate(self.shape):
            ix = index[ax] if ax < len(index) else slice(None)
            if isinstance(ix, bool):
                raise Unknown("boolean scalar index")
            if isinstance(ix, int):
                if ix < -n or ix >= n:
                    raise Raised(IndexError, f"index {ix} is out of bounds for axis {ax} with size {n}")
                sel.append([ix % n])
            elif isinstance(ix, slice):
                r = list(range(*ix.indices(n)))
                sel.append(r)
                shape.append(len(r))
            elif isinstance(ix, (list, tuple, Arr)):
                items = ix.vals() if isinstance(ix, Arr) else list(ix)
                if isinstance(ix, Arr) and ix.ndim != 1:
                    raise Unknown("n-d fancy index")
                if items and all(isinstance(v, bool) for v in items):
                    if len(items) != n:
                        raise Raised(IndexError, "boolean index did not match")
                    items = [k for k, v in enumerate(items) if v]
                if not all(isinstance(v, int) and not isinstance(v, bool) for v in items):
                    raise Unknown("non-integer fancy index")
                if any(v < -n or v >= n for v in items):
                    raise Raised(IndexError, "index out of bounds")
                n_adv += 1
                if n_adv > 1:
                    raise Unknown("several fancy indices")
                sel.append([v % n for v in items])
                shape.append(len(items))
                is_view = False
            else:
                raise Unknown(f"index of type {type(ix).__name__}")
        strides, acc = [], 1
        for n in reversed(self.shape):
            strides.append(acc)
            acc *= n
        strides.reverse()
        pos = [sum(i * s for i, s in zip(combo, strides)) for combo in itertools.product(*sel)]
        return pos, tuple(shape), is_view

    def get(self, index):
        pos, shape, is_view = self._select(index)
        idx = [self.idx[p] for p in pos]
        if shape == () and is_view:
            return self.store[idx[0]]
        if is_view:
            return Arr(self.store, idx, shape, self.dtype, self.cls)
        return Arr.of([self.store[i] for i in idx], shape, self.dtype, self.cls)

    def set(self, index, value):
        pos, shape, _ = self._select(index)
        vals = broadcast_vals(value, shape)
        for p, v in zip(pos, vals):
            self.store[self.idx[p]] = cast(v, self.dtype)

    def rows(self):
        if self.ndim == 0:
            raise Raised(TypeError, "iteration over a 0-d array")
        return [self.get(i) for i in range(self.shape[0])]

    def tolist(self):
        if self.ndim == 0:
            return self.vals()[0]
        if self.ndim == 1:
            return self.vals()
        return [r.tolist() for r in self.rows()]

    def __repr__(self):
        return f"{'Vec' if self.cls is not None else 'array'}({self.tolist()})"


# -------------------------------------------------------------------- construction / broadcasting
def asarr(x, dtype=None):
    """np.asarray semantics: an array is returned as it is (a view), sequences and scalars are converted"""
    if isinstance(x, Arr):
        if dtype is not None and dtype != x.dtype:
            return x.astype(dtype)
        return x
    if isinstance(x, (bool, int, float, complex)) or _is_sym(x):
        return Arr.of([x], (), dtype)
    if isinstance(x, (list, tuple)):
        flat, shape = _flatten_seq(x)
        return Arr.of(flat, shape, dtype)
    raise Unknown(f"cannot convert {type(x).__name__} to an array")


def _flatten_seq(x):
    if isinstance(x, Arr):
        return x.vals(), x.shape
    if isinstance(x, (list, tuple)):
        if not x:
            return [], (0,)
        parts = [_flatten_seq(e) for e in x]
        shapes = {p[1] for p in parts}
        if len(shapes) != 1:
            raise Unknown("ragged nested sequence")
        flat = []
        for p in parts:
            flat.extend(p[0])
        return flat, (len(x),) + parts[0][1]
    if isinstance(x, (bool, int, float, complex)) or _is_sym(x):
        return [x], ()
    raise Unknown(f"array element of type {type(x).__name__}")


def bshape(*shapes):
    n = max(len(s) for s in shapes)
    out = []
    for k in range(n):
        dim = 1
        for s in shapes:
            j = len(s) - n + k
            if j >= 0 and s[j] != 1:
                if dim != 1 and dim != s[j]:
                    raise Raised(ValueError, f"operands could not be broadcast together with shapes {shapes}")
                dim = s[j]
        for s in shapes:
            j = len(s) - n + k
            if j >= 0 and s[j] == 0:
                dim = 0
        out.append(dim)
    return tuple(out)


def broadcast_vals(x, shape):
    """values of x broadcast to `shape`, in C order"""
    if not isinstance(x, Arr):
        if isinstance(x, (list, tuple)):
            x = asarr(x)
        else:
            return [x] * _prod(shape)
    if x.shape == shape:
        return x.vals()
    if x.size == 1:
        return x.vals() * _prod(shape)
    if len(x.shape) > len(shape):
        raise Raised(ValueError, f"could not broadcast input array from shape {x.shape} into shape {shape}")
    xs = (1,) * (len(shape) - len(x.shape)) + x.shape
    for a, b in zip(xs, shape):
        if a != b and a != 1:
            raise Raised(ValueError, f"could not broadcast input array from shape {x.shape} into shape {shape}")
    strides, acc = [], 1
    for n in reversed(xs):
        strides.append(0 if n == 1 else acc)
        acc *= n
    strides.reverse()
    v = x.vals()
    return [v[sum(i * s for i, s in zip(combo, strides))] for combo in itertools.product(*[range(n) for n in shape])]


def elementwise(f, args, promote=True, out=None):
    """apply the scalar function f element-wise with broadcasting; python scalars when no argument is an array"""
    conv = [asarr(a) if isinstance(a, (list, tuple)) else a for a in args]
    arrs = [a for a in conv if isinstance(a, Arr)]
    if not arrs:
        return f(*conv)
    shape = bshape(*[a.shape for a in arrs])
    cols = [broadcast_vals(a, shape) for a in conv]
    vals = [f(*t) for t in zip(*cols)]
    cls = next((a.cls for a in arrs if a.cls is not None), None)
    if promote:
        ks = [a.dtype for a in arrs]
        # python scalars take part in the promotion by kind only (numpy's value-based / weak scalar rule)
        ks += [kind(a) for a in conv if not isinstance(a, Arr)]
        ks += [kind(v) for v in vals[:1]]
        ks += [kind(v) for v in vals if isinstance(v, (float, complex))][:1]
        dt = join(ks)
    else:
        dt = join((kind(v) for v in vals), default="b")
    if out is not None:
        if out.shape != shape:
            raise Unknown("out= with another shape")
        for p, v in zip(out.idx, vals):
            out.store[p] = cast(v, out.dtype)
        return out
    return Arr.of(vals, shape, dt, cls)


def reduce_axis(a, f, axis=None, dtype=None):
    """reduce with the function f(list of values) along `axis` (None: all)"""
    a = asarr(a)
    if axis is None:
        return f(a.vals())
    if not isinstance(axis, int) or isinstance(axis, bool):
        raise Unknown("axis of type " + type(axis).__name__)
    if axis < 0:
        axis += a.ndim
    if not 0 <= axis < a.ndim:
        raise Raised(ValueError, f"axis {axis} is out of bounds for array of dimension {a.ndim}")
    rest = a.shape[:axis] + a.shape[axis + 1:]
    out = []
    for combo in itertools.product(*[range(n) for n in rest]):
        index = combo[:axis] + (slice(None),) + combo[axis:]
        sub = a.get(index)
        out.append(f(sub.vals() if isinstance(sub, Arr) else [sub]))
    if rest == ():
        return out[0]
    return Arr.of(out, rest, dtype, a.cls)
