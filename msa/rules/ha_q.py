"""Queries over the symbolic summaries of ha_sx (shared by the C01 / C03 rules)."""
from __future__ import annotations
import ast
from .. import au, sym
from . import ha_sx as sx
from .ha_sx import N, C, Policy, is_special


def summarise(repo, modname, cls_qual, fn, policy=None, recv=None, args=None):
    """Sx instance after running `fn`; `.ret` holds the return term (None when a return sits inside a loop)."""
    x = sx.Sx(repo, modname, cls_qual, policy=policy, recv=recv)
    x.ret = x.run(fn, args=args)
    x.fn = fn
    x.normalise_counters()
    return x


def field(t, recv="self"):
    """attribute name when `t` is `self.<name>`"""
    if isinstance(t, ast.Attribute) and isinstance(t.value, ast.Name) and t.value.id == recv:
        return t.attr
    return None


def alpha_map(frames):
    return {fr.var: N(f"$L{i}") for i, fr in enumerate(frames)}


def alpha(t, frames):
    """term with the index variables of `frames` renamed by nesting depth: two copies of one loop give equal terms"""
    if t is None:
        return None
    return sx.substitute(t, alpha_map(frames))


def frame_doms(frames):
    """normalised descriptions of a loop nest, outermost first (index variables renamed by depth)"""
    m = alpha_map(frames)
    return [(fr.kind, au.norm(sx.substitute(fr.dom, m))) for fr in frames]


def cond_srcs(conds, frames=()):
    return [au.canon_test(alpha(t, frames), p) for t, p in conds]


def same(a, b):
    return au.norm(a) == au.norm(b)


def names_in(t):
    return {n.id for n in ast.walk(t) if isinstance(n, ast.Name)}


def uses_var(t, var):
    return any(isinstance(n, ast.Name) and n.id == var for n in ast.walk(t))


# ------------------------------------------------------------------ look-ups in a dict-valued field
def lookup_key(t, table):
    """key K when `t` is `self.<table>[K]` or `self.<table>.get(K[, default])`, else None"""
    if isinstance(t, ast.Subscript) and field(t.value) == table:
        return t.slice
    if isinstance(t, ast.Call) and isinstance(t.func, ast.Attribute) and t.func.attr == "get" and field(t.func.value) == table \
            and 1 <= len(t.args) <= 2:
        return t.args[0]
    return None


def record_reads(t, table):
    """[(subscript node, key term, slot term)] for every `<record of table>[slot]` inside term t"""
    out = []
    for n in ast.walk(t):
        if isinstance(n, ast.Subscript):
            k = lookup_key(n.value, table)
            if k is not None:
                out.append((n, k, n.slice))
    return out


def pair(K):
    """(a, b) for a two-component key: a tuple display or an opaque key `K` (then K[0], K[1])"""
    if isinstance(K, ast.Tuple):
        return tuple(K.elts) if len(K.elts) == 2 else None
    return (sx.project(K, 0), sx.project(K, 1))


def reversed_pair(K1, K2):
    p, q = pair(K1), pair(K2)
    if p is None or q is None:
        return False
    return same(p[0], q[1]) and same(p[1], q[0]) and not same(p[0], p[1])


# ------------------------------------------------------------------ index arithmetic
def mod_offset(idx, var, row):
    """k when idx is `var`, or `(var + k) % len(row)`; None otherwise"""
    if isinstance(idx, ast.Name) and idx.id == var:
        return 0
    if isinstance(idx, ast.BinOp) and isinstance(idx.op, ast.Mod):
        m = idx.right
        if not (isinstance(m, ast.Call) and isinstance(m.func, ast.Name) and m.func.id == "len" and len(m.args) == 1 and same(m.args[0], row)):
            return None
        try:
            p = sym.to_poly(idx.left, opaque=False)
        except sym.NotPoly:
            return None
        if p.coeff(var) == sym.Poly.const(1) and p.without(var).is_const():
            c = p.without(var).const_value()
            if c.denominator == 1:
                return int(c)
    return None


def row_offset(t, var, row):
    """k when t is `row[(var + k) % len(row)]` (k = 0 for `row[var]`)"""
    if isinstance(t, ast.Subscript) and same(t.value, row):
        return mod_offset(t.slice, var, row)
    return None


# ------------------------------------------------------------------ effects
def setitems(x, table):
    """store effects `self.<table>[k] = v` (through local aliases of the container)"""
    out = []
    for e in x.effects:
        if e.kind == "setitem" and field(x.canon(e.base)) == table:
            out.append(e)
    return out


def method_calls(x, methods, on=None):
    """call effects `<base>.<m>(...)`, m in methods; `on(base term)` filters the receiver"""
    out = []
    for e in x.effects:
        if e.kind == "call" and e.method in methods and e.base is not None:
            b = x.canon(e.base)
            if on is None or on(b):
                out.append((e, b))
    return out


def returns_of(x):
    return [e for e in x.effects if e.kind == "return" and e.fn is x.fn]


def loop_of(frames, kind, dom_pred):
    for fr in frames:
        if fr.kind == kind and dom_pred(fr.dom):
            return fr
    return None


def is_attr_chain(t, *chain):
    """t is the dotted name chain[0].chain[1]..."""
    c = au.chain(t)
    return c is not None and list(chain) == c


def search_form(x):
    """`first element of a loop satisfying a test, else default`: (frames, conds, value, default) for
         for ..: if c: return v        and        return next((v for .. if c), default)
       None when the function does not have that shape."""
    rets = returns_of(x)
    if x.ret is None and len(rets) == 2 and rets[0].frames and not rets[1].frames and not rets[1].conds:
        return list(rets[0].frames), list(rets[0].conds), rets[0].value, rets[1].value
    t = x.ret
    if t is not None and isinstance(t, ast.Call) and isinstance(t.func, ast.Name) and t.func.id == "next" and len(t.args) == 2 \
            and isinstance(t.args[0], (ast.GeneratorExp, ast.ListComp)) and hasattr(t.args[0], "_frames"):
        g = t.args[0]
        return list(g._frames), list(g._conds), g.elt, t.args[1]
    return None


def comp_view(x, t):
    """(frames, conds, element) of a list-valued term: a comprehension, or a local list filled by appends in loops"""
    t = x.expand(t) if t is not None else t
    if isinstance(t, ast.Call) and isinstance(t.func, ast.Name) and t.func.id in ("list", "tuple") and len(t.args) == 1:
        t = t.args[0]
    if isinstance(t, (ast.ListComp, ast.GeneratorExp)) and hasattr(t, "_frames"):
        return list(t._frames), list(t._conds), t.elt
    if is_special(t, "$obj"):
        o = x.objs.get(t.id)
        ins = [e for e in x.effects if e.kind == "call" and e.method == "append" and is_special(e.base, "$obj") and e.base.id == t.id]
        others = [e for e in x.effects if e.kind in ("setitem", "aug", "call") and is_special(e.base, "$obj") and e.base.id == t.id
                  and not (e.kind == "call" and (e.method == "append" or e.method not in x.MUTATORS))]
        empty = o is not None and ((isinstance(o.init, ast.List) and not o.init.elts) or
                                   (isinstance(o.init, ast.Call) and isinstance(o.init.func, ast.Name) and o.init.func.id == "list" and not o.init.args))
        if len(ins) == 1 and not others and empty and len(ins[0].args) == 1:
            e = ins[0]
            # frames / conds relative to the creation of the list are those of the append itself
            return list(e.frames[len(o.frames):]), list(e.conds[len(o.conds):]), e.args[0]
    return None


# ------------------------------------------------------------------ truth tables over terms
class Unknown(Exception):
    pass


def _anyall(t):
    """any((a, b)) -> a or b ; all([a, b]) -> a and b  (literal displays only)"""
    if isinstance(t, ast.Call) and isinstance(t.func, ast.Name) and t.func.id in ("any", "all") and len(t.args) == 1 and not t.keywords \
            and isinstance(t.args[0], (ast.Tuple, ast.List)) and t.args[0].elts:
        return ast.BoolOp(op=ast.Or() if t.func.id == "any" else ast.And(), values=list(t.args[0].elts))
    return t


def bool_eval(t, env, atom):
    """value of a boolean term under the truth assignment env; atom(term) -> name | (name, polarity) | None (unknown)"""
    t = _anyall(t)
    if isinstance(t, ast.IfExp):
        return bool_eval(t.body if bool_eval(t.test, env, atom) else t.orelse, env, atom)
    if isinstance(t, ast.BoolOp):
        vals = [bool_eval(v, env, atom) for v in t.values]
        return all(vals) if isinstance(t.op, ast.And) else any(vals)
    if isinstance(t, ast.UnaryOp) and isinstance(t.op, ast.Not):
        return not bool_eval(t.operand, env, atom)
    if isinstance(t, ast.Constant):
        return bool(t.value)
    a = atom(t)
    if a is None:
        raise Unknown(au.src(t))
    if isinstance(a, tuple):
        return env[a[0]] == a[1]
    return env[a]


def select(t, env, atom):
    """the leaf of a nested conditional term selected by the truth assignment env"""
    while isinstance(t, ast.IfExp):
        t = t.body if bool_eval(t.test, env, atom) else t.orelse
    return t


def atoms_in(t, atom, out=None, value=True):
    """names of the atoms deciding term t (conditions of conditional terms; with value=True also t itself as a boolean)"""
    out = set() if out is None else out
    t = _anyall(t)
    if isinstance(t, ast.IfExp):
        atoms_in(t.test, atom, out, True)
        atoms_in(t.body, atom, out, value)
        atoms_in(t.orelse, atom, out, value)
        return out
    if not value:
        return out
    if isinstance(t, ast.BoolOp):
        for v in t.values:
            atoms_in(v, atom, out, True)
        return out
    if isinstance(t, ast.UnaryOp) and isinstance(t.op, ast.Not):
        return atoms_in(t.operand, atom, out, True)
    if isinstance(t, ast.Constant):
        return out
    a = atom(t)
    if a is None:
        raise Unknown(au.src(t))
    out.add(a[0] if isinstance(a, tuple) else a)
    return out


def assignments(names):
    import itertools
    names = sorted(names)
    for vals in itertools.product((False, True), repeat=len(names)):
        yield dict(zip(names, vals))


def none_test(t):
    """(X, polarity) when t is `X is None` (True) / `X is not None` (False) / `X == None` / `X != None`"""
    if isinstance(t, ast.Compare) and len(t.ops) == 1 and isinstance(t.comparators[0], ast.Constant) and t.comparators[0].value is None:
        if isinstance(t.ops[0], (ast.Is, ast.Eq)):
            return t.left, True
        if isinstance(t.ops[0], (ast.IsNot, ast.NotEq)):
            return t.left, False
    return None


# ------------------------------------------------------------------ contents of list / set valued fields
def _empty_container(t):
    if isinstance(t, (ast.List, ast.Set, ast.Tuple)) and not t.elts:
        return True
    if isinstance(t, ast.Dict) and not t.keys:
        return True
    return isinstance(t, ast.Call) and isinstance(t.func, ast.Name) and t.func.id in ("list", "set", "dict") and not t.args and not t.keywords


def _strip_conv(t):
    """list(X) / sorted(X) / tuple(X) / set(X) -> X  (same elements)"""
    n = 0
    while isinstance(t, ast.Call) and isinstance(t.func, ast.Name) and t.func.id in ("list", "tuple", "set", "sorted") and len(t.args) == 1:
        t = t.args[0]
        n += 1
    return t


class Contents:
    """What a function puts into the container stored in attribute `self.<f>`:
    ins = [(frames, conds, element, effect)], reset = the attribute is (re)bound to a fresh container in the function,
    unknown = list of things that could not be read."""

    def __init__(self, x, f, props=(), obj=None):
        """contents of attribute self.<f>, or (obj given) of the local container $objN"""
        self.ins, self.reset, self.unknown = [], False, []
        sets = [e for e in x.effects if e.kind == "setattr" and q_is_self(e.base) and e.key == f] if obj is None else []
        objs = set()
        if obj is not None:
            objs.add(obj)
            init = _strip_conv(x.objs[obj].init)
            if _empty_container(init):
                self.reset = True
            elif isinstance(init, (ast.ListComp, ast.SetComp, ast.GeneratorExp)) and hasattr(init, "_frames"):
                self.reset = True
                self.ins.append((list(init._frames), list(init._conds), init.elt, None))
            else:
                self.unknown.append(au.src(init))
        for e in sets:
            v = x.expand(e.value) if not is_special(e.value, "$obj") else e.value
            v = _strip_conv(v)
            if field(v) in (f,) + tuple(props):
                continue                      # self.f = list(self.f): same elements
            if is_special(v, "$obj"):
                o = x.objs[v.id]
                objs.add(v.id)
                init = _strip_conv(o.init)
                if _empty_container(init):
                    self.reset = True
                elif isinstance(init, (ast.ListComp, ast.SetComp, ast.GeneratorExp)) and hasattr(init, "_frames"):
                    self.reset = True
                    self.ins.append((list(init._frames), list(init._conds), init.elt, e))
                else:
                    self.unknown.append(au.src(init))
            elif _empty_container(v):
                self.reset = True
            elif isinstance(v, (ast.ListComp, ast.SetComp, ast.GeneratorExp)) and hasattr(v, "_frames"):
                self.reset = True
                self.ins.append((list(v._frames), list(v._conds), v.elt, e))
            else:
                self.unknown.append(au.src(v))
        for e in x.effects:
            if e.kind != "call" or e.base is None or e.method not in x.MUTATORS:
                continue
            b = e.base
            mine = (f is not None and field(b) == f) or (is_special(b, "$obj") and b.id in objs) or (field(b) is not None and field(b) in props)
            if not mine:
                continue
            o = x.objs.get(b.id) if is_special(b, "$obj") else None
            fr = e.frames[len(o.frames):] if o is not None else e.frames
            cs = e.conds[len(o.conds):] if o is not None else e.conds
            if e.method in ("append", "add") and len(e.args) == 1:
                self.ins.append((list(fr), list(cs), e.args[0], e))
            elif e.method in ("extend", "update") and len(e.args) == 1:
                a = x.expand(e.args[0])
                if isinstance(a, (ast.ListComp, ast.SetComp, ast.GeneratorExp)) and hasattr(a, "_frames"):
                    self.ins.append((list(fr) + list(a._frames), list(cs) + list(a._conds), a.elt, e))
                elif isinstance(a, (ast.List, ast.Tuple, ast.Set)):
                    for el in a.elts:
                        self.ins.append((list(fr), list(cs), el, e))
                else:
                    k = sx.Frame("seq", f"$k_upd{len(self.ins)}", a, e.node)       # every element of the iterable handed to extend / update
                    self.ins.append((list(fr) + [k], list(cs), ast.Subscript(value=a, slice=N(k.var), ctx=ast.Load()), e))
            elif e.method == "sort":
                pass
            else:
                self.unknown.append(f".{e.method}(..)")
        for e in x.effects:
            if e.kind == "aug" and e.key is None and f is not None and field(e.base) == f:
                a = x.expand(e.value)
                if isinstance(a, (ast.List, ast.Tuple)) and isinstance(e.op, ast.Add):
                    for el in a.elts:
                        self.ins.append((list(e.frames), list(e.conds), el, e))
                else:
                    self.unknown.append("augmented assignment")


def q_is_self(t):
    return isinstance(t, ast.Name) and t.id == "self"


def split_conds(ca, cb, frames_a, frames_b):
    """two condition lists that differ in the polarity of exactly one test: (test of list a, polarity in a, common canonical texts), else None"""
    A = [(au.norm(alpha(au.strip_not(t, p)[0], frames_a)), au.strip_not(t, p)[1], t) for t, p in ca]
    B = [(au.norm(alpha(au.strip_not(t, p)[0], frames_b)), au.strip_not(t, p)[1], t) for t, p in cb]
    if len(A) != len(B):
        return None
    diff = None
    common = []
    Bm = list(B)
    for k, p, t in A:
        hit = next((y for y in Bm if y[0] == k), None)
        if hit is None:
            return None
        Bm.remove(hit)
        if hit[1] == p:
            common.append(au.canon_test(t, p))
        elif diff is None:
            diff = (au.strip_not(t, p)[0], p)
        else:
            return None
    if diff is None:
        return None
    return diff[0], diff[1], common


# ------------------------------------------------------------------ function-valued terms
def apply_fn(x, f, args):
    """term of f(*args) for a function-valued term: a lambda / local def recorded by the summary, `d.__getitem__`, `d.get`; None otherwise"""
    if is_special(f, "$def") and f.id in x.defs:
        fn, env, act = x.defs[f.id]
        if isinstance(fn, ast.Lambda):
            ps = [a.arg for a in fn.args.posonlyargs + fn.args.args]
            if len(ps) != len(args):
                return None
            env = dict(env)
            env.update(zip(ps, args))
            x.stack.append(act)
            try:
                return x.ev(fn.body, sx._State(env, (), ()))
            finally:
                x.stack.pop()
        return None
    if isinstance(f, ast.Attribute) and f.attr in ("__getitem__", "get") and len(args) == 1:
        return ast.Subscript(value=f.value, slice=args[0], ctx=ast.Load())
    return None


def holds_none(t, p):
    """(X, True) when the condition (t with polarity p) says `X is None`, (X, False) for `X is not None`; None otherwise"""
    t, p = au.strip_not(t, p)
    nt = none_test(t)
    if nt is None:
        return None
    return nt[0], nt[1] == p


def holds_eq(t, p):
    """(a, b, True) when the condition says a == b, (a, b, False) for a != b; None otherwise"""
    t, p = au.strip_not(t, p)
    if isinstance(t, ast.Compare) and len(t.ops) == 1 and isinstance(t.ops[0], (ast.Eq, ast.NotEq)):
        return t.left, t.comparators[0], isinstance(t.ops[0], ast.Eq) == p
    return None
