"""Symbolic summaries of small functions (helper module of the C01 / C03 checks).

`Sx(repo, modname, cls_qual).run(fn)` walks the statements of `fn` once, in order, and produces

  * effects   - every store / method call / attribute assignment / return / yield, with all local names replaced by what they
                stand for (terms over `self`, the parameters, module globals and canonical loop variables), the loops it is
                nested in (`Frame`s) and the conditions under which it executes (enclosing tests and earlier early exits);
  * a return term - nested conditional expression over the path conditions.

Calls to private helpers, nested functions, lambdas, static helpers, generator helpers and bound-method locals are followed
(inlined, depth-bounded): a function split into helpers, or two copies merged into one helper, has the same summary as the
original.  Loops are canonical: `for x in S`, `for i in range(len(S))`, `for i, x in enumerate(S)`, a comprehension over S and a
loop over a generator helper that yields from such a loop all become "index variable $kN over S" with the element written
`S[$kN]`.  Nothing is executed: the terms are syntax, compared structurally (`au.norm`) or evaluated over small abstract
domains by the rules."""
from __future__ import annotations
import ast
from .. import au

MAXDEPTH = 5
_SEQ, _RANGE, _KEYS, _WHILE = "$seq", "$range", "$keys", "$while"


def N(id_):
    return ast.Name(id=id_, ctx=ast.Load())


def C(v):
    return ast.Constant(value=v)


def is_special(t, prefix):
    return isinstance(t, ast.Name) and t.id.startswith(prefix)


class Frame:
    """One loop level.  kind: seq (index var over a sequence / iterable `dom`, element dom[var]), range (var in range(dom) or
    range(lo, hi[, step]) with dom = the argument tuple), keys (var over the keys of dict `dom`), while (test `dom`)."""

    def __init__(self, kind, var, dom, node, extra=None):
        self.kind, self.var, self.dom, self.node = kind, var, dom, node
        self.extra = extra            # zip: list of zipped sequences
        self.carried = {}             # name -> {"init": term, "next": term|None}
        self.is_comp = False

    def key(self):
        return (self.kind, au.norm(self.dom))

    def __repr__(self):
        return f"<{self.kind} {self.var} in {au.src(self.dom)}>"


class Effect:
    __slots__ = ("kind", "base", "key", "value", "method", "args", "kwargs", "frames", "conds", "node", "fn", "op", "stmt_level", "seq")

    def __init__(self, kind, **kw):
        self.kind = kind
        for s in self.__slots__[1:]:
            setattr(self, s, kw.get(s))

    def __repr__(self):
        d = {"setitem": lambda: f"{au.src(self.base)}[{au.src(self.key)}] = {au.src(self.value)}",
             "aug": lambda: f"{au.src(self.base)}[{au.src(self.key) if self.key is not None else ''}] {type(self.op).__name__}= {au.src(self.value)}",
             "setattr": lambda: f"{au.src(self.base)}.{self.key} = {au.src(self.value)}",
             "call": lambda: f"{au.src(self.base) if self.base is not None else ''}.{self.method}({', '.join(au.src(a) for a in self.args)})",
             "return": lambda: f"return {au.src(self.value)}", "yield": lambda: f"yield {au.src(self.value)}",
             "assign": lambda: f"{self.key} := {au.src(self.value)}"}
        return f"<{d.get(self.kind, lambda: self.kind)()} | {list(self.frames)} | {[(au.src(t), p) for t, p in self.conds]}>"


class Obj:
    def __init__(self, n, init, node):
        self.n, self.init, self.node = n, init, node


class Policy:
    """Which callees are followed."""

    def __init__(self, also=(), never=(), props=(), private=True, modules=()):
        self.also, self.never, self.props, self.private = set(also), set(never), set(props), private
        self.modules = set(modules)      # module-level functions of these modules are followed whatever their name

    def follow(self, name, fn, kind):
        if name in self.never:
            return False
        if name in self.also or kind in ("local", "lambda"):
            return True
        if fn is not None and _is_generator(fn):
            return True
        if name.startswith("__"):
            return False
        return self.private and name.startswith("_")


def _is_generator(fn):
    return any(isinstance(n, (ast.Yield, ast.YieldFrom)) for n in au.walk(fn)) if not isinstance(fn, ast.Lambda) else False


def _decorators(fn):
    out = set()
    for d in getattr(fn, "decorator_list", []):
        if isinstance(d, ast.Name):
            out.add(d.id)
        elif isinstance(d, ast.Attribute):
            out.add(d.attr)
    return out


class _State:
    def __init__(self, env, frames=(), conds=()):
        self.env, self.frames, self.conds = env, tuple(frames), tuple(conds)

    def fork(self, cond=None):
        return _State(dict(self.env), self.frames, self.conds + ((cond,) if cond else ()))


class _Activation:
    def __init__(self, fn, modname, owner):
        self.fn, self.modname, self.owner = fn, modname, owner
        self.returns = []     # (conds relative, frames relative, value)
        self.yields = []


class Sx:
    def __init__(self, repo, modname, cls_qual=None, policy=None, recv=None):
        self.repo = repo
        self.mod = repo.module(modname)
        self.cls = repo.cls(modname, cls_qual) if cls_qual else None
        self.methods = repo.methods(self.mod, self.cls) if self.cls else {}
        self.mro = repo.mro(self.mod, self.cls) if self.cls else []
        self.policy = policy or Policy()
        self.recv = dict(recv or {})        # source text of a receiver term -> (modname, class qualname)
        self._recv_methods = {}
        self.effects = []
        self.objs = {}
        self.defs = {}
        self.arity = {}
        self.counter = 0
        self.stack = []
        self.unknown = []                   # constructs the walk could not model (informational)
        self.gens = {}
        self._cc = {}
        self.limports = {}
        self.id_ranges = id_ranges(repo)
        self.dict_fields = set()            # attributes of self that hold dictionaries: iterating them iterates their keys
        for m, c in self.mro:
            for n in ast.walk(c):
                if isinstance(n, ast.AnnAssign) and au.is_self_attr(n.target) and isinstance(n.annotation, ast.Name) and n.annotation.id in ("dict", "Dict"):
                    self.dict_fields.add(n.target.attr)
                elif isinstance(n, (ast.Assign, ast.AnnAssign)) and n.value is not None and \
                        (isinstance(n.value, (ast.Dict, ast.DictComp)) or (isinstance(n.value, ast.Call) and isinstance(n.value.func, ast.Name) and n.value.func.id == "dict")):
                    for t in au.assign_targets(n):
                        for a in (t.elts if isinstance(t, (ast.Tuple, ast.List)) else [t]):
                            if au.is_self_attr(a):
                                self.dict_fields.add(a.attr)
        self._gc = repo.__dict__.setdefault("_ha_gc", {})

    # ------------------------------------------------------------------ entry
    def run(self, fn, args=None, modname=None, owner=None):
        """Summarise `fn` (parameters stay symbolic unless bound in `args`).  Returns the return term."""
        env = {}
        for p in au.params(fn):
            env[p] = (args or {}).get(p, N(p))
        act = _Activation(fn, modname or self.mod.name, owner if owner is not None else self._owner_of(fn))
        self.root = act
        return self._activate(act, env, _State({}, (), ()))

    def _owner_of(self, fn):
        for m, c in self.mro:
            if any(st is fn for st in c.body):
                return c
        return self.cls

    def fresh(self, prefix):
        self.counter += 1
        return f"{prefix}{self.counter}"

    # ---------------------------------------------------------------- queries
    def obj_fields(self):
        """$objN -> term `self.f` for local containers that are stored into exactly one attribute of self"""
        out = {}
        for e in self.effects:
            if e.kind == "setattr" and is_special(e.value, "$obj") and isinstance(e.base, ast.Name) and e.base.id == "self":
                out.setdefault(e.value.id, set()).add(e.key)
        return {k: ast.Attribute(value=N("self"), attr=next(iter(v)), ctx=ast.Load()) for k, v in out.items() if len(v) == 1}

    def canon(self, t):
        """term with local containers replaced by the attribute they are stored in"""
        m = self.obj_fields()
        return substitute(t, m) if m and t is not None else t

    MUTATORS = {"append", "add", "extend", "insert", "remove", "pop", "discard", "clear", "update", "sort", "reverse", "setdefault", "popitem"}

    def mutated(self, objid):
        for e in self.effects:
            if e.kind in ("setitem", "aug") and is_special(e.base, "$obj") and e.base.id == objid:
                return True
            if e.kind == "call" and e.method in self.MUTATORS and is_special(e.base, "$obj") and e.base.id == objid:
                return True
        return False

    def expand(self, t):
        """term with never-mutated local containers replaced by the expression that created them"""
        for _ in range(6):
            ids = {n.id for n in ast.walk(t) if is_special(n, "$obj") and n.id in self.objs and not self.mutated(n.id)}
            if not ids:
                break
            t = substitute(t, {i: self.objs[i].init for i in ids})
        return t

    def index_counters(self):
        """{'$mu:i:$kN': term}: loop-carried counters that equal the loop position plus a constant (`i = c` before the loop,
        `i += 1` exactly once per iteration, no continue / break): they are the index variable of the loop in disguise"""
        from .. import sym
        out = {}
        frames = {}
        for e in self.effects:
            for fr in e.frames:
                frames[id(fr)] = fr
        for fr in frames.values():
            if fr.kind not in ("seq", "range", "keys") or not hasattr(fr, "entry_conds"):
                continue
            if any(e.kind in ("continue", "break", "return") and any(g is fr for g in e.frames) for e in self.effects):
                continue
            for name, d in fr.carried.items():
                mu = f"$mu:{name}:{fr.var}"
                if d["next"] is None or au.const(d["init"]) is None or isinstance(au.const(d["init"]), bool) or not isinstance(au.const(d["init"]), int):
                    continue
                try:
                    p = sym.to_poly(d["next"], opaque=False)
                except sym.NotPoly:
                    continue
                if not (p.coeff(mu) == sym.Poly.const(1) and p.without(mu).is_const() and p.without(mu).const_value() == 1):
                    continue
                asg = [e for e in self.effects if e.kind == "assign" and e.key == name and e.frames and e.frames[-1] is fr]
                if len(asg) == 1 and len(asg[0].conds) == fr.entry_conds:
                    c = au.const(d["init"])
                    out[mu] = N(fr.var) if c == 0 else ast.BinOp(left=N(fr.var), op=ast.Add(), right=C(c))
        return out

    def normalise_counters(self):
        m = self.index_counters()
        if not m:
            return
        for e in self.effects:
            for a in ("base", "key", "value"):
                t = getattr(e, a)
                if isinstance(t, ast.AST) and any(isinstance(n, ast.Name) and n.id in m for n in ast.walk(t)):
                    setattr(e, a, substitute(t, m))
            if e.args:
                e.args = [substitute(t, m) if any(isinstance(n, ast.Name) and n.id in m for n in ast.walk(t)) else t for t in e.args]

    def dump(self):
        return "\n".join(repr(e) for e in self.effects)

    # ------------------------------------------------------------- activation
    def _activate(self, act, env, outer):
        self.stack.append(act)
        st = _State(env, outer.frames, outer.conds)
        act.base_frames, act.base_conds = len(outer.frames), len(outer.conds)
        leaves = self.block(act.fn.body, st) if not isinstance(act.fn, ast.Lambda) else None
        if isinstance(act.fn, ast.Lambda):
            val = self.ev(act.fn.body, st)
            self.stack.pop()
            return val
        if not leaves:
            act.returns.append((st.conds[act.base_conds:], st.frames[act.base_frames:], C(None), None))
        self.stack.pop()
        return self._ret_term(act)

    def _ret_term(self, act):
        if any(fr for _, fr, _, _ in act.returns):
            return None
        rets = act.returns
        if not rets:
            return C(None)
        term = rets[-1][2]
        for conds, _, val, _ in reversed(rets[:-1]):
            term = ast.IfExp(test=conj(conds), body=val, orelse=term)
        return simplify_ite(term)

    # ------------------------------------------------------------- statements
    def block(self, body, st):
        """Executes the statements; returns True when every path through them leaves (return / raise / continue / break)."""
        for s in body:
            r = self.stmt(s, st)
            if r:
                return r
        return False

    def _emit(self, kind, st, node, **kw):
        e = Effect(kind, frames=st.frames, conds=st.conds, node=node, fn=self.stack[-1].fn, seq=len(self.effects), **kw)
        self.effects.append(e)
        return e

    def stmt(self, s, st):
        act = self.stack[-1]
        if isinstance(s, (ast.Assign, ast.AnnAssign)):
            if s.value is None:
                return False
            val = self.ev(s.value, st)
            targets = s.targets if isinstance(s, ast.Assign) else [s.target]
            if len(targets) > 1 and any(isinstance(t, ast.Name) for t in targets) and self._is_fresh_container(val):
                # a = self.f = dict(): one container, several names
                n = self.fresh("$obj")
                self.objs[n] = Obj(n, val, s)
                self.objs[n].frames, self.objs[n].conds = st.frames, st.conds
                val = N(n)
            for t in targets:
                self.assign(t, val, st, s)
            return False
        if isinstance(s, ast.AugAssign):
            val = self.ev(s.value, st)
            t = s.target
            if isinstance(t, ast.Name) and is_special(st.env.get(t.id), "$obj") and isinstance(s.op, (ast.BitOr, ast.Add, ast.BitAnd, ast.Sub)):
                self._emit("aug", st, s, base=st.env[t.id], key=None, value=val, op=s.op)     # in-place update of a local container
            elif isinstance(t, ast.Name):
                cur = st.env.get(t.id, N(t.id))
                new = ast.BinOp(left=cur, op=s.op, right=val)
                st.env[t.id] = new
                self._emit("assign", st, s, key=t.id, value=new)
            elif isinstance(t, ast.Subscript):
                self._emit("aug", st, s, base=self.ev(t.value, st), key=self.ev(t.slice, st), value=val, op=s.op)
            elif isinstance(t, ast.Attribute):
                self._emit("aug", st, s, base=self.ev(ast.Attribute(value=t.value, attr=t.attr, ctx=ast.Load()), st), key=None, value=val, op=s.op)
            return False
        if isinstance(s, ast.Expr):
            if isinstance(s.value, ast.Constant):
                return False
            if isinstance(s.value, (ast.Yield, ast.YieldFrom)):
                self._yield(s.value, st)
                return False
            self.ev(s.value, st, stmt_level=True)
            return False
        if isinstance(s, ast.Return):
            val = self.ev(s.value, st) if s.value is not None else C(None)
            act.returns.append((st.conds[act.base_conds:], st.frames[act.base_frames:], val, s))
            self._emit("return", st, s, value=val)
            return True
        if isinstance(s, ast.Raise):
            self._emit("raise", st, s, value=self.ev(s.exc, st) if s.exc is not None else None)
            return "raise"
        if isinstance(s, (ast.Continue, ast.Break)):
            self._emit("continue" if isinstance(s, ast.Continue) else "break", st, s)
            return True
        if isinstance(s, ast.If):
            return self._if(s, st)
        if isinstance(s, (ast.For, ast.AsyncFor)):
            self._for(s, st)
            return False
        if isinstance(s, ast.While):
            self._while(s, st)
            return False
        if isinstance(s, (ast.With, ast.AsyncWith)):
            for it in s.items:
                v = self.ev(it.context_expr, st)
                if it.optional_vars is not None:
                    self.assign(it.optional_vars, v, st, s)
            return self.block(s.body, st)
        if isinstance(s, ast.Try):
            leaves = self.block(s.body, st)
            for h in s.handlers:
                hs = st.fork((N(self.fresh("$exc")), True))
                self.block(h.body, hs)
                self._havoc(st, hs)
            if not leaves and s.orelse:
                leaves = self.block(s.orelse, st)
            if s.finalbody:
                leaves = self.block(s.finalbody, st) or leaves
            return leaves and not s.handlers
        if isinstance(s, (ast.FunctionDef, ast.AsyncFunctionDef)):
            n = self.fresh("$def")
            self.defs[n] = (s, dict(st.env), act)
            st.env[s.name] = N(n)
            return False
        if isinstance(s, ast.Assert):
            self.ev(s.test, st)
            return False
        if isinstance(s, ast.ImportFrom):
            try:
                src = self.repo._abs_import(self.repo.module(act.modname), s)
            except Exception:
                src = None
            for a in s.names:
                if src and a.name != "*":
                    self.limports[a.asname or a.name] = (src, a.name)
            return False
        if isinstance(s, (ast.Pass, ast.Import, ast.Global, ast.Nonlocal, ast.Delete, ast.ClassDef)):
            return False
        self.unknown.append(type(s).__name__)
        return False

    def _havoc(self, st, other):
        for k, v in other.env.items():
            if k not in st.env or au.norm(st.env[k]) != au.norm(v):
                st.env[k] = N(self.fresh("$u"))

    def _yield(self, y, st):
        act = self.stack[-1]
        if isinstance(y, ast.YieldFrom):
            val = self.ev(y.value, st)
            fr, elem, cs = self.iter_frame(val, y)
            act.yields.append((st.conds[act.base_conds:] + tuple(cs), st.frames[act.base_frames:] + tuple(fr), elem))
            return
        val = self.ev(y.value, st) if y.value is not None else C(None)
        act.yields.append((st.conds[act.base_conds:], st.frames[act.base_frames:], val))

    def _if(self, s, st):
        test = self.ev(s.test, st)
        known = fold_bool(test)
        if known is not None:          # a flag parameter bound to a constant by the caller: only one branch exists
            return self.block(s.body if known else s.orelse, st) if (s.body if known else s.orelse) else False
        a = st.fork((test, True))
        b = st.fork((test, False))
        la = self.block(s.body, a)
        lb = self.block(s.orelse, b) if s.orelse else False
        if la and lb:
            return "raise" if la == "raise" and lb == "raise" else True
        if la:
            # a branch that only raises is input validation: the rest of the function is not conditioned by it
            st.env, st.conds = b.env, (b.conds if la != "raise" else st.conds + b.conds[len(st.conds) + 1:])
            return False
        if lb:
            st.env, st.conds = a.env, (a.conds if lb != "raise" else st.conds + a.conds[len(st.conds) + 1:])
            return False
        # conditions that the branches picked up from nested early exits do not survive the merge
        for k in set(a.env) | set(b.env):
            va, vb = a.env.get(k), b.env.get(k)
            if va is None or vb is None:
                st.env[k] = ast.IfExp(test=test, body=va or N("$undef"), orelse=vb or N("$undef"))
            elif va is vb or au.norm(va) == au.norm(vb):
                st.env[k] = va
            else:
                st.env[k] = ast.IfExp(test=test, body=va, orelse=vb)
        return False

    @staticmethod
    def _assigned_in(body):
        out = []
        for x in au.stmts(body):
            for t in au.assign_targets(x):
                if isinstance(t, ast.Name):
                    out.append(t.id)
                elif isinstance(t, (ast.Tuple, ast.List)):
                    out += [n.id for n in ast.walk(t) if isinstance(n, ast.Name) and isinstance(n.ctx, ast.Store)
                            and not _under_subscript(t, n)]
            if isinstance(x, (ast.For, ast.AsyncFor)):
                out += au.assigned_names(x.target)
            if isinstance(x, (ast.With, ast.AsyncWith)):
                for it in x.items:
                    if it.optional_vars is not None:
                        out += au.assigned_names(it.optional_vars)
            for n in au.walk(x):
                if isinstance(n, ast.NamedExpr):
                    out.append(n.target.id)
        return list(dict.fromkeys(out))

    def _enter_loop(self, frames, body, st, extra_names=()):
        fr = frames[-1]
        rebound = set()
        for x_ in au.stmts(body):
            if not isinstance(x_, ast.AugAssign):
                for t in au.assign_targets(x_):
                    rebound.update(au.assigned_names(t))
            if isinstance(x_, (ast.For, ast.AsyncFor)):
                rebound.update(au.assigned_names(x_.target))
        for name in self._assigned_in(body):
            if name not in rebound and is_special(st.env.get(name), "$obj"):
                continue          # a local container only updated in place (x |= .., x += ..) keeps its identity through the loop
            if name in st.env and name not in extra_names:
                fr.carried[name] = {"init": st.env[name], "next": None}
                st.env[name] = N(f"$mu:{name}:{fr.var}")

    def _exit_loop(self, fr, inner, st, body):
        for name, d in fr.carried.items():
            d["next"] = inner.env.get(name)
        for name in self._assigned_in(body):
            if name not in fr.carried and is_special(st.env.get(name), "$obj") and is_special(inner.env.get(name), "$obj") \
                    and inner.env[name].id == st.env[name].id:
                continue
            st.env[name] = N(f"$after:{name}:{fr.var}")

    def _static_items(self, it):
        """the items of an iterable known statically: a literal tuple / list, range(small constant), enumerate of those"""
        if is_special(it, "$obj") and it.id in self.objs and not self.mutated(it.id) and isinstance(self.objs[it.id].init, (ast.Tuple, ast.List)):
            it = self.objs[it.id].init
        if isinstance(it, (ast.Tuple, ast.List)) and len(it.elts) <= 8 and not any(isinstance(x, ast.Starred) for x in it.elts):
            return list(it.elts)
        if isinstance(it, ast.Call) and isinstance(it.func, ast.Name) and not it.keywords:
            if it.func.id == "range" and len(it.args) == 1 and isinstance(au.const(it.args[0]), int) and 0 <= au.const(it.args[0]) <= 8:
                return [C(i) for i in range(au.const(it.args[0]))]
            if it.func.id == "enumerate" and len(it.args) == 1:
                inner = self._static_items(it.args[0])
                if inner is not None:
                    return [ast.Tuple(elts=[C(i), x], ctx=ast.Load()) for i, x in enumerate(inner)]
        return None

    def _for(self, s, st):
        it = self.ev(s.iter, st)
        items = self._static_items(it)
        if items is not None and not s.orelse and not _own_break(s.body):
            for x in items:
                inner = _State(st.env, st.frames, st.conds)      # same environment: iterations run one after the other
                self.assign(s.target, x, inner, s, loop_target=True)
                self.block(s.body, inner)
                st.env = inner.env
            return
        if isinstance(it, ast.IfExp) and not s.orelse and not _own_break(s.body):
            alts = leaves(it)
            if len(alts) <= 4 and all(self._static_items(leaf) is not None for _, leaf in alts):
                # for x in (A if c else B), A and B known statically: the loop of each alternative under its condition
                self._emit("iter", st, s, value=it)
                for conds, leaf in alts:
                    inner = _State(dict(st.env), st.frames, st.conds + tuple(conds))
                    for x_ in self._static_items(leaf):
                        self.assign(s.target, x_, inner, s, loop_target=True)
                        self.block(s.body, inner)
                    self._havoc(st, inner)
                return
        frames, elem, cs = self.iter_frame(it, s)
        inner = _State(dict(st.env), st.frames + tuple(frames), st.conds + tuple(cs))
        for fr in frames:
            fr.entry_conds = len(inner.conds)
        if frames:
            self._enter_loop(frames, s.body, inner, extra_names=au.assigned_names(s.target))
        self.assign(s.target, elem, inner, s, loop_target=True)
        self.block(s.body, inner)
        if frames:
            self._exit_loop(frames[-1], inner, st, s.body)
            for n in au.assigned_names(s.target):
                st.env[n] = N(f"$after:{n}:{frames[-1].var}")
        if s.orelse:
            self.block(s.orelse, st)

    def _while(self, s, st):
        fr = Frame("while", self.fresh("$w"), C(None), s)
        inner = _State(dict(st.env), st.frames + (fr,), st.conds)
        self._enter_loop([fr], s.body, inner)
        fr.dom = self.ev(s.test, inner)
        if not (isinstance(fr.dom, ast.Constant) and fr.dom.value is True):
            inner.conds = inner.conds + ((fr.dom, True),)
        self.block(s.body, inner)
        self._exit_loop(fr, inner, st, s.body)
        if s.orelse:
            self.block(s.orelse, st)

    # ------------------------------------------------------------- assignment
    def assign(self, target, val, st, node, loop_target=False):
        if isinstance(target, ast.Name):
            if not loop_target and self._is_fresh_container(val):
                n = self.fresh("$obj")
                self.objs[n] = Obj(n, val, node)
                self.objs[n].frames, self.objs[n].conds = st.frames, st.conds
                val = N(n)
            st.env[target.id] = val
            if not loop_target:
                self._emit("assign", st, node, key=target.id, value=val)
            return
        if isinstance(target, ast.Starred):
            return self.assign(target.value, N(self.fresh("$u")), st, node, loop_target)
        if isinstance(target, (ast.Tuple, ast.List)):
            n = len(target.elts)
            if isinstance(val, (ast.Tuple, ast.List)) and len(val.elts) == n and not any(isinstance(x, ast.Starred) for x in val.elts):
                for t, v in zip(target.elts, val.elts):
                    self.assign(t, v, st, node, loop_target)
                return
            if not any(isinstance(x, ast.Starred) for x in target.elts):
                self.arity[au.norm(val)] = n
            for i, t in enumerate(target.elts):
                self.assign(t, project(val, i), st, node, loop_target)
            return
        if isinstance(target, ast.Attribute):
            base = self.ev(target.value, st)
            if self._is_fresh_container(val) and not (isinstance(base, ast.Name) and base.id == "self"):
                pass
            self._emit("setattr", st, node, base=base, key=target.attr, value=val)
            return
        if isinstance(target, ast.Subscript):
            self._emit("setitem", st, node, base=self.ev(target.value, st), key=self.ev(target.slice, st), value=val)
            return
        self.unknown.append("target:" + type(target).__name__)

    @staticmethod
    def _is_fresh_container(v):
        if isinstance(v, (ast.List, ast.Set, ast.Dict, ast.ListComp, ast.SetComp, ast.DictComp)):
            return True
        if isinstance(v, ast.Call):
            t = au.call_tail(v)
            if isinstance(v.func, ast.Name) and t in ("list", "set", "dict", "defaultdict", "OrderedDict", "deque", "RawMeshData", "Counter"):
                return True
            if isinstance(v.func, ast.Attribute) and t in ("fromkeys", "create_attribute", "copy"):
                return True
        return False

    # ------------------------------------------------------------ expressions
    def ev(self, e, st, stmt_level=False):
        if e is None:
            return None
        m = getattr(self, "ev_" + type(e).__name__, None)
        if m is not None:
            return m(e, st) if type(e) is not ast.Call else m(e, st, stmt_level)
        return self._rebuild(e, st)

    def _rebuild(self, e, st):
        kw = {}
        for f in e._fields:
            v = getattr(e, f, None)
            if isinstance(v, ast.expr):
                kw[f] = self.ev(v, st)
            elif isinstance(v, list):
                kw[f] = [self.ev(x, st) if isinstance(x, ast.expr) else (self._kw(x, st) if isinstance(x, ast.keyword) else x) for x in v]
            else:
                kw[f] = v
        return type(e)(**kw)

    def _kw(self, k, st):
        return ast.keyword(arg=k.arg, value=self.ev(k.value, st))

    def ev_Constant(self, e, st):
        return e

    def ev_Name(self, e, st):
        if e.id in st.env:
            return st.env[e.id]
        g = self._global_const(e.id)
        return g if g is not None else N(e.id)

    def _global_const(self, name):
        act = self.stack[-1] if self.stack else None
        modname = act.modname if act else self.mod.name
        key = (modname, name)
        _GC = self._gc
        if key in _GC:
            return _GC[key]
        val = None
        try:
            mod = self.repo.module(modname)
        except Exception:
            mod = None
        if mod is not None:
            r = self.repo.resolve(mod.name, name)
            if r and r[0] == "var" and r[1] in self.repo.modules:
                val = _module_const(self.repo.modules[r[1]], r[2])
                if val is None:
                    val = self._module_dict(self.repo.modules[r[1]], r[2])
        _GC[key] = val
        return val

    def _module_dict(self, mod, name):
        """module-level dispatch table `NAME = {literal: CONSTANT_NAME | literal, ..}` bound once -> Dict display of the resolved constants"""
        found = [st for st in mod.tree.body if isinstance(st, (ast.Assign, ast.AnnAssign)) and st.value is not None
                 and any(isinstance(t, ast.Name) and t.id == name for t in au.assign_targets(st))]
        if len(found) != 1 or not isinstance(found[0].value, ast.Dict):
            return None
        d = found[0].value
        keys, vals = [], []
        for k, v in zip(d.keys, d.values):
            if k is None or au.literal(k) is None:
                return None
            if isinstance(v, ast.Name):
                v = _module_const(mod, v.id)
            elif au.literal(v) is not None:
                v = _strip(v)
            else:
                v = None
            if v is None:
                return None
            keys.append(_strip(k))
            vals.append(v)
        return ast.Dict(keys=keys, values=vals)

    def ev_NamedExpr(self, e, st):
        v = self.ev(e.value, st)
        st.env[e.target.id] = v
        return v

    def ev_Lambda(self, e, st):
        n = self.fresh("$def")
        self.defs[n] = (e, dict(st.env), self.stack[-1])
        return N(n)

    def ev_Tuple(self, e, st):
        out = self._rebuild(e, st)
        return fold_tuple(out, self.arity)

    def ev_Subscript(self, e, st):
        v = self.ev(e.value, st)
        s = self.ev(e.slice, st)
        return project_term(v, s)

    def _class_const(self, attr):
        """literal bound to `attr` in a class body of the MRO (never rebound on the instance): `self.<attr>` / `Class.<attr>` reads it"""
        if attr in self._cc:
            return self._cc[attr]
        val = None
        for m, c in self.mro:
            fake = type("M", (), {"tree": type("T", (), {"body": c.body})()})()
            val = _module_const(fake, attr)
            if val is not None or any(attr in au.assigned_names(t) for st_ in c.body for t in au.assign_targets(st_)):
                break
        if val is not None:
            for m, c in self.mro:
                for n in ast.walk(c):
                    if isinstance(n, ast.Attribute) and isinstance(n.ctx, ast.Store) and n.attr == attr:
                        val = None
        self._cc[attr] = val
        return val

    def ev_Attribute(self, e, st):
        v = self.ev(e.value, st)
        out = ast.Attribute(value=v, attr=e.attr, ctx=ast.Load())
        if self.cls is not None and isinstance(v, ast.Name) and (v.id == "self" or v.id in {c.name for _, c in self.mro}):
            cst = self._class_const(e.attr)
            if cst is not None:
                return cst
        # property reads that the policy follows
        if e.attr in self.policy.props:
            tgt = self._resolve_method(v, e.attr)
            if tgt is not None and "property" in _decorators(tgt[1]):
                r = self._inline(("method", e.attr, tgt[1], tgt[0].name, tgt[2], v, None), [], {}, st, e, force=True)
                if r is not None and r is not _NOVALUE:
                    return r
        return out

    def ev_IfExp(self, e, st):
        t = self.ev(e.test, st)
        known = fold_bool(t)
        if known is not None:
            return self.ev(e.body if known else e.orelse, st)
        a = self.ev(e.body, st.fork((t, True)))
        b = self.ev(e.orelse, st.fork((t, False)))
        return ast.IfExp(test=t, body=a, orelse=b)

    def ev_BoolOp(self, e, st):
        vals = []
        cur = st
        for v in e.values:
            t = self.ev(v, cur)
            vals.append(t)
            cur = cur.fork((t, isinstance(e.op, ast.And)))
            cur.env = st.env
        return ast.BoolOp(op=e.op, values=vals)

    def _comp(self, e, st):
        inner = _State(dict(st.env), st.frames, st.conds)
        gens = []
        for g in e.generators:
            it = self.ev(g.iter, inner)
            # static expansion of a comprehension over a literal tuple (a, b, c = (f(p) for p in (x, y, z)))
            frames, elem, cs = self.iter_frame(it, g)
            for fr in frames:
                fr.is_comp = True
            inner.frames = inner.frames + tuple(frames)
            inner.conds = inner.conds + tuple(cs)
            self.assign(g.target, elem, inner, g, loop_target=True)
            ifs = []
            for t in g.ifs:
                tt = self.ev(t, inner)
                ifs.append(tt)
                inner.conds = inner.conds + ((tt, True),)
            gens.append((frames, [t for t, _ in cs] + ifs))
        return inner, gens

    def _ev_comp(self, e, st, it_override=None):
        if len(e.generators) == 1 and not isinstance(e, ast.DictComp):
            it = self.ev(e.generators[0].iter, st) if it_override is None else it_override
            if isinstance(it, ast.IfExp) and it_override is None and len([1 for _ in leaves(it)]) <= 4:
                # one comprehension per alternative of the iterable: [f(x) for x in (A if c else B)]
                def dist(t):
                    if isinstance(t, ast.IfExp):
                        return ast.IfExp(test=t.test, body=dist(t.body), orelse=dist(t.orelse))
                    if self._static_items(t) is None:
                        return ast.Call(func=N("$comp_over"), args=[t], keywords=[])
                    return self._ev_comp(e, st, it_override=t)
                return dist(it)
            items = self._static_items(it)
            if items is not None:
                elts = []
                for x in items:
                    inner = _State(dict(st.env), st.frames, st.conds)
                    self.assign(e.generators[0].target, x, inner, e, loop_target=True)
                    keep = True
                    for t in e.generators[0].ifs:
                        v = fold_bool(self.ev(t, inner))
                        if v is None:
                            elts = None
                            break
                        keep = keep and v
                    if elts is None:
                        break
                    if keep:
                        elts.append(self.ev(e.elt, inner))
                if elts is not None:
                    return (ast.List if isinstance(e, (ast.ListComp, ast.SetComp)) else ast.Tuple)(elts=elts, ctx=ast.Load())
        inner, gens = self._comp(e, st)
        generators = []
        for frames, ifs in gens:
            for i, fr in enumerate(frames):
                generators.append(ast.comprehension(target=N(fr.var), iter=frame_marker(fr), ifs=ifs if i == len(frames) - 1 else [], is_async=0))
            if not frames:
                generators.append(ast.comprehension(target=N("$_"), iter=N("$none"), ifs=ifs, is_async=0))
        if isinstance(e, ast.DictComp):
            out = ast.DictComp(key=self.ev(e.key, inner), value=self.ev(e.value, inner), generators=generators)
        else:
            out = type(e)(elt=self.ev(e.elt, inner), generators=generators)
        out._frames = [fr for frames, _ in gens for fr in frames]
        out._conds = [(t, True) for _, ifs in gens for t in ifs]
        return out

    ev_ListComp = ev_SetComp = ev_GeneratorExp = ev_DictComp = lambda self, e, st: self._ev_comp(e, st)

    # ----------------------------------------------------------------- frames
    def iter_frame(self, it, node):
        """([Frame...], element term, [(cond, True)...]) for iterating the (evaluated) iterable `it`."""
        if isinstance(it, ast.Call):
            t = au.call_tail(it)
            if isinstance(it.func, ast.Name) and t == "range" and not it.keywords:
                k = self.fresh("$k")
                if len(it.args) == 1:
                    a = it.args[0]
                    if isinstance(a, ast.Call) and isinstance(a.func, ast.Name) and a.func.id == "len" and len(a.args) == 1:
                        return [Frame("seq", k, a.args[0], node)], N(k), []
                    return [Frame("range", k, a, node)], N(k), []
                return [Frame("range", k, ast.Tuple(elts=list(it.args), ctx=ast.Load()), node)], N(k), []
            if isinstance(it.func, ast.Name) and t == "enumerate" and len(it.args) == 1 and not it.keywords:
                frames, elem, cs = self.iter_frame(it.args[0], node)
                if len(frames) == 1 and frames[0].kind in ("seq", "keys") and not frames[0].extra and not cs:
                    return frames, ast.Tuple(elts=[N(frames[0].var), elem], ctx=ast.Load()), []
                k = self.fresh("$k")
                return [Frame("seq", k, it, node)], ast.Tuple(elts=[N(k), project_term(it.args[0], N(k))], ctx=ast.Load()), []
            if isinstance(it.func, ast.Name) and t == "zip" and len(it.args) >= 2 and not it.keywords \
                    and all(rotation_of(a, it.args[0]) is not None for a in it.args[1:]):
                # zip(X, X[1:] + X[:1]): consecutive elements of X, cyclically - the index loop over X in disguise
                k = self.fresh("$k")
                X = it.args[0]
                ln = ast.Call(func=N("len"), args=[X], keywords=[])
                elems = [project_term(X, N(k))]
                for a in it.args[1:]:
                    off = rotation_of(a, X)
                    elems.append(project_term(X, ast.BinOp(left=ast.BinOp(left=N(k), op=ast.Add(), right=C(off)), op=ast.Mod(), right=ln)))
                return [Frame("seq", k, X, node)], ast.Tuple(elts=elems, ctx=ast.Load()), []
            if isinstance(it.func, ast.Name) and t == "zip" and it.args and not it.keywords:
                k = self.fresh("$k")
                fr = Frame("seq", k, it, node, extra=list(it.args))
                return [fr], ast.Tuple(elts=[project_term(a, N(k)) for a in it.args], ctx=ast.Load()), []
            if isinstance(it.func, ast.Name) and t in ("list", "tuple", "iter") and len(it.args) == 1 and not it.keywords:
                return self.iter_frame(it.args[0], node)
            if isinstance(it.func, ast.Attribute) and t in ("items", "keys", "values") and not it.args:
                k = self.fresh("$k")
                d = it.func.value
                fr = Frame("keys", k, d, node)
                if t == "keys":
                    return [fr], N(k), []
                val = ast.Subscript(value=d, slice=N(k), ctx=ast.Load())
                return [fr], (val if t == "values" else ast.Tuple(elts=[N(k), val], ctx=ast.Load())), []
        if isinstance(it, ast.Attribute) and isinstance(it.value, ast.Name) and it.value.id == "self" and it.attr in self.dict_fields:
            k = self.fresh("$k")
            return [Frame("keys", k, it, node)], N(k), []
        if isinstance(it, ast.Attribute) and it.attr in self.id_ranges:
            k = self.fresh("$k")
            return [Frame("seq", k, ast.Attribute(value=it.value, attr=self.id_ranges[it.attr], ctx=ast.Load()), node)], N(k), []
        if is_special(it, "$obj") and it.id in self.objs:
            init0 = self.objs[it.id].init
            if isinstance(init0, (ast.Dict, ast.DictComp)) or (isinstance(init0, ast.Call) and isinstance(init0.func, ast.Name)
                                                             and init0.func.id in ("dict", "defaultdict", "OrderedDict")):
                k = self.fresh("$k")          # iterating a local dictionary iterates its keys
                return [Frame("keys", k, it, node)], N(k), []
        if is_special(it, "$obj") and it.id in self.objs and not self.mutated(it.id):
            init = self.objs[it.id].init
            if isinstance(init, (ast.ListComp, ast.GeneratorExp, ast.List, ast.Tuple)) or \
                    (isinstance(init, ast.Call) and isinstance(init.func, ast.Name) and init.func.id in ("list", "tuple") and len(init.args) == 1):
                return self.iter_frame(init, node)
        if is_special(it, "$gen"):
            g = self.gens.get(it.id)
            if g is not None:
                return g
        if isinstance(it, (ast.GeneratorExp, ast.ListComp)) and hasattr(it, "_frames") and len(it._frames) >= 1:
            # iterating a comprehension: its frames / conditions become those of the loop
            return list(it._frames), it.elt, list(it._conds)
        k = self.fresh("$k")
        return [Frame("seq", k, it, node)], ast.Subscript(value=it, slice=N(k), ctx=ast.Load()), []

    # ------------------------------------------------------------------ calls
    def ev_Call(self, e, st, stmt_level=False):
        f = e.func
        # super().m(...)
        recv = None
        if isinstance(f, ast.Attribute) and isinstance(f.value, ast.Call) and isinstance(f.value.func, ast.Name) and f.value.func.id == "super":
            func = ast.Attribute(value=N("$super"), attr=f.attr, ctx=ast.Load())
        else:
            func = self.ev(f, st)
        args = []
        for a in e.args:
            if isinstance(a, ast.Starred):
                v = self.ev(a.value, st)
                if is_special(v, "$obj") and v.id in self.objs and not self.mutated(v.id) and isinstance(self.objs[v.id].init, (ast.Tuple, ast.List)):
                    v = self.objs[v.id].init
                while isinstance(v, ast.Call) and isinstance(v.func, ast.Name) and v.func.id in ("tuple", "list") and len(v.args) == 1 and not v.keywords \
                        and isinstance(v.args[0], (ast.Tuple, ast.List)):
                    v = v.args[0]
                if isinstance(v, (ast.Tuple, ast.List)):
                    args.extend(v.elts)
                else:
                    args.append(ast.Starred(value=v, ctx=ast.Load()))
            else:
                args.append(self.ev(a, st))
        kws = [self._kw(k, st) for k in e.keywords]
        call = ast.Call(func=func, args=args, keywords=kws)
        if isinstance(func, ast.Attribute) and func.attr == "get" and isinstance(func.value, ast.Dict) and func.value.keys and 1 <= len(args) <= 2 and not kws:
            r = dict_lookup(func.value, args[0], args[1] if len(args) == 2 else C(None))
            if r is not None:
                return r
        if isinstance(func, ast.Name) and func.id == "map" and len(args) == 2 and not kws:
            g = self._map_as_comp(args[0], args[1], st, e)
            if g is not None:
                return g
        tgt = self._resolve_callee(func)
        if tgt is not None and not any(isinstance(a, ast.Starred) for a in args) and not any(k.arg is None for k in kws):
            r = self._inline(tgt, args, {k.arg: k.value for k in kws}, st, e)
            if r is not None:
                return r if r is not _NOVALUE else call
        if is_special(func, "$super") or (isinstance(func, ast.Attribute) and is_special(func.value, "$super")):
            call = ast.Call(func=ast.Attribute(value=ast.Call(func=N("super"), args=[], keywords=[]), attr=func.attr, ctx=ast.Load()), args=args, keywords=kws)
        base = func.value if isinstance(func, ast.Attribute) else None
        if isinstance(base, ast.IfExp):
            for b, pol in ((base.body, True), (base.orelse, False)):
                self._emit("call", st.fork((base.test, pol)), e, base=b, method=au.call_tail(call), args=args, kwargs={k.arg: k.value for k in kws},
                           value=call, stmt_level=stmt_level)
            return call
        self._emit("call", st, e, base=base, method=au.call_tail(call), args=args, kwargs={k.arg: k.value for k in kws}, value=call,
                   stmt_level=stmt_level)
        return call

    def _map_as_comp(self, f, it, st, node):
        """map(f, it) as the generator expression (f(x) for x in it)"""
        frames, elem, cs = self.iter_frame(it, node)
        inner = _State(dict(st.env), st.frames + tuple(frames), st.conds + tuple(cs))
        if isinstance(f, ast.Attribute) and f.attr in ("__getitem__",):
            elt = ast.Subscript(value=f.value, slice=elem, ctx=ast.Load())
        else:
            tgt = self._resolve_callee(f)
            elt = None
            if tgt is not None:
                r = self._inline(tgt, [elem], {}, inner, node)
                if r is not None and r is not _NOVALUE:
                    elt = r
            if elt is None:
                elt = ast.Call(func=f, args=[elem], keywords=[])
                self._emit("call", inner, node, base=f.value if isinstance(f, ast.Attribute) else None, method=au.call_tail(elt), args=[elem], kwargs={}, value=elt)
        for fr in frames:
            fr.is_comp = True
        gens = [ast.comprehension(target=N(fr.var), iter=frame_marker(fr), ifs=[t for t, _ in cs] if i == len(frames) - 1 else [], is_async=0)
                for i, fr in enumerate(frames)]
        if not gens:
            return None
        out = ast.GeneratorExp(elt=elt, generators=gens)
        out._frames, out._conds = list(frames), list(cs)
        return out

    def _resolve_method(self, recv, name):
        """(Module, FunctionDef, owner) of method `name` of the object denoted by receiver term `recv`."""
        if isinstance(recv, ast.Name) and recv.id == "self" and name in self.methods:
            return self.methods[name]
        key = au.src(recv)
        if key in self.recv:
            if key not in self._recv_methods:
                m, q = self.recv[key]
                mod = self.repo.module(m)
                self._recv_methods[key] = self.repo.methods(mod, self.repo.cls(m, q))
            return self._recv_methods[key].get(name)
        return None

    def _resolve_callee(self, func):
        """-> (kind, name, fn, modname, owner, bound receiver term | None, captured env | None)"""
        act = self.stack[-1]
        if isinstance(func, ast.Name):
            if func.id in self.defs:
                fn, env, dact = self.defs[func.id]
                kind = "lambda" if isinstance(fn, ast.Lambda) else "local"
                return (kind, getattr(fn, "name", "<lambda>"), fn, dact.modname, dact.owner, None, env)
            r = self.repo.resolve_func(act.modname, func.id)
            if (not r or r[1] is None) and func.id in self.limports and self.limports[func.id][0] in self.repo.modules:
                r = self.repo.resolve_func(*self.limports[func.id])
            if r and r[1] is not None:
                return ("func", func.id, r[1], r[0].name, None, None, None)
            return None
        if isinstance(func, ast.Attribute):
            v = func.value
            if is_special(v, "$super"):
                owner = act.owner
                idx = next((i for i, (m, c) in enumerate(self.mro) if c is owner), None)
                if idx is not None:
                    for m, c in self.mro[idx + 1:]:
                        for s in c.body:
                            if isinstance(s, ast.FunctionDef) and s.name == func.attr and not ({"setter", "deleter"} & _decorators(s)):
                                return ("method", func.attr, s, m.name, c, N("self"), None)
                return None
            t = self._resolve_method(v, func.attr)
            if t is not None:
                m, fn, owner = t
                return ("method", func.attr, fn, m.name, owner, v, None)
            # ClassName.method(...) for static helpers of the analysed class
            if isinstance(v, ast.Name) and self.cls is not None and func.attr in self.methods \
                    and v.id in {c.name for _, c in self.mro}:
                m, fn, owner = self.methods[func.attr]
                if "staticmethod" in _decorators(fn):
                    return ("method", func.attr, fn, m.name, owner, None, None)
            # module.function
            c = au.chain(func)
            if c and len(c) >= 2:
                r = self.repo.resolve(act.modname, c[0])
                if r and r[0] == "module" and r[1] in self.repo.modules:
                    modname = r[1]
                    for part in c[1:-1]:
                        rr = self.repo.resolve(modname, part)
                        if rr and rr[0] == "module" and rr[1] in self.repo.modules:
                            modname = rr[1]
                        else:
                            return None
                    rf = self.repo.resolve_func(modname, c[-1])
                    if rf and rf[1] is not None:
                        return ("func", c[-1], rf[1], rf[0].name, None, None, None)
        return None

    def _inline(self, tgt, args, kwargs, st, node, force=False):
        kind, name, fn, modname, owner, recv, cenv = tgt
        if not force and not self.policy.follow(name, fn, kind) and not (kind == "func" and name not in self.policy.never and any(
                modname == m or modname == "mouette." + m for m in self.policy.modules)):
            return None
        if any(a.fn is fn for a in self.stack) or len(self.stack) >= MAXDEPTH:
            return None
        decos = _decorators(fn) if not isinstance(fn, ast.Lambda) else set()
        a = fn.args
        pos = [x.arg for x in a.posonlyargs + a.args]
        env = dict(cenv or {})
        if kind == "method" and "staticmethod" not in decos and pos:
            env[pos[0]] = recv if recv is not None else N("self")
            pos = pos[1:]
        if len(args) > len(pos) and not a.vararg:
            return None
        for p, v in zip(pos, args):
            env[p] = v
        if a.vararg:
            env[a.vararg.arg] = ast.Tuple(elts=list(args[len(pos):]), ctx=ast.Load())
        defaults = dict(zip([x.arg for x in (a.posonlyargs + a.args)][-len(a.defaults):] if a.defaults else [], a.defaults))
        for x, d in zip(a.kwonlyargs, a.kw_defaults):
            if d is not None:
                defaults[x.arg] = d
        allp = pos + [x.arg for x in a.kwonlyargs]
        for k, v in kwargs.items():
            if k in allp:
                env[k] = v
            elif not a.kwarg:
                return None
        for p in allp:
            if p not in env:
                if p in defaults:
                    env[p] = self.ev(defaults[p], _State({}, (), ()))
                else:
                    return None
        act = _Activation(fn, modname, owner if owner is not None else self.stack[-1].owner)
        if _is_generator(fn):
            self.stack.append(act)
            s2 = _State(env, st.frames, st.conds)
            act.base_frames, act.base_conds = len(st.frames), len(st.conds)
            n_eff = len(self.effects)
            self.block(fn.body, s2)
            self.stack.pop()
            if len(act.yields) == 1:
                conds, frames, val = act.yields[0]
                g = self.fresh("$gen")
                self.gens[g] = (list(frames), val, list(conds))
                return N(g)
            if act.yields and all(not fr for _, fr, _ in act.yields):
                groups = []
                for conds, _, val in act.yields:
                    key = [au.canon_test(t, p) for t, p in conds]
                    if groups and groups[-1][0] == key:
                        groups[-1][2].append(val)
                    else:
                        groups.append((key, conds, [val]))
                if len({tuple(g[0]) for g in groups}) == len(groups):
                    term = ast.Tuple(elts=[], ctx=ast.Load())
                    for key, conds, vals in reversed(groups):
                        t_ = ast.Tuple(elts=vals, ctx=ast.Load())
                        term = t_ if not conds else ast.IfExp(test=conj(conds), body=t_, orelse=term)
                    return term
            del self.effects[n_eff:]
            return None
        r = self._activate(act, env, st)
        return r if r is not None else _NOVALUE


_NOVALUE = object()


def _own_break(body):
    """a break / continue that belongs to the loop whose body this is (not to a nested loop)"""
    for st in body:
        if isinstance(st, (ast.Break, ast.Continue)):
            return True
        if isinstance(st, (ast.For, ast.AsyncFor, ast.While, ast.FunctionDef, ast.AsyncFunctionDef, ast.ClassDef)):
            continue
        for fld in ("body", "orelse", "finalbody"):
            sub = getattr(st, fld, None)
            if isinstance(sub, list) and _own_break(sub):
                return True
        for h in getattr(st, "handlers", []) or []:
            if _own_break(h.body):
                return True
    return False


def _under_subscript(root, name):
    for n in ast.walk(root):
        if isinstance(n, (ast.Subscript, ast.Attribute)) and any(x is name for x in ast.walk(n)):
            return True
    return False


def _module_const(mod, name):
    """literal value bound once at module level to `name` (also through `a, b, c = range(3)` / tuple displays)"""
    found = []
    for st in mod.tree.body:
        if isinstance(st, (ast.Assign, ast.AnnAssign)) and st.value is not None:
            for t in (st.targets if isinstance(st, ast.Assign) else [st.target]):
                if isinstance(t, ast.Name) and t.id == name:
                    found.append(st.value)
                elif isinstance(t, (ast.Tuple, ast.List)):
                    for i, x in enumerate(t.elts):
                        if isinstance(x, ast.Name) and x.id == name:
                            v = st.value
                            if isinstance(v, (ast.Tuple, ast.List)) and len(v.elts) == len(t.elts):
                                found.append(v.elts[i])
                            elif isinstance(v, ast.Call) and isinstance(v.func, ast.Name) and v.func.id == "range" and len(v.args) == 1 \
                                    and au.const(v.args[0]) == len(t.elts):
                                found.append(C(i))
                            else:
                                found.append(None)
        elif isinstance(st, (ast.AugAssign,)) and name in au.assigned_names(st.target):
            found.append(None)
    if len(found) != 1 or found[0] is None:
        return None
    v = found[0]
    if au.literal(v) is None and not (isinstance(v, ast.Constant) and v.value is None):
        return None
    if isinstance(au.literal(v), (str, bytes)):
        return None
    return _strip(v)


def _strip(e):
    """copy of a literal expression without loader links"""
    if isinstance(e, ast.Constant):
        return C(e.value)
    if isinstance(e, (ast.Tuple, ast.List)):
        return type(e)(elts=[_strip(x) for x in e.elts], ctx=ast.Load())
    if isinstance(e, ast.UnaryOp):
        return ast.UnaryOp(op=e.op, operand=_strip(e.operand))
    return e


# ----------------------------------------------------------------------- terms
def conj(conds):
    vals = [t if p else ast.UnaryOp(op=ast.Not(), operand=t) for t, p in conds]
    if not vals:
        return C(True)
    return vals[0] if len(vals) == 1 else ast.BoolOp(op=ast.And(), values=vals)


def project(val, i):
    return project_term(val, C(i))


def dict_lookup(d, k, default=None):
    """value of a literal dictionary display at key k: the entry for a literal k, a chain of conditionals on `k == key` otherwise"""
    if not all(isinstance(x, ast.Constant) for x in d.keys):
        return None
    if isinstance(k, ast.Constant):
        for kk, vv in zip(d.keys, d.values):
            if kk.value == k.value:
                return vv
        return default
    out = default if default is not None else N("$missing")
    for kk, vv in reversed(list(zip(d.keys, d.values))):
        out = ast.IfExp(test=ast.Compare(left=k, ops=[ast.Eq()], comparators=[kk]), body=vv, orelse=out)
    return out


def rotation_of(t, X):
    """k when t is the sequence X rotated by k positions, written X[k:] + X[:k] (list()/tuple() wrappers and [X[0]] for X[:1] accepted)"""
    def conv(u):
        while isinstance(u, ast.Call) and isinstance(u.func, ast.Name) and u.func.id in ("list", "tuple") and len(u.args) == 1 and not u.keywords:
            u = u.args[0]
        return u
    t = conv(t)
    if not (isinstance(t, ast.BinOp) and isinstance(t.op, ast.Add)):
        return None
    a, b = conv(t.left), conv(t.right)
    xs = au.norm(X)
    if not (isinstance(a, ast.Subscript) and au.norm(a.value) == xs and isinstance(a.slice, ast.Slice) and a.slice.upper is None and a.slice.step is None
            and isinstance(au.const(a.slice.lower), int) and au.const(a.slice.lower) > 0):
        return None
    k = au.const(a.slice.lower)
    if isinstance(b, ast.Subscript) and au.norm(b.value) == xs and isinstance(b.slice, ast.Slice) and b.slice.lower is None and b.slice.step is None \
            and au.const(b.slice.upper) == k:
        return k
    if isinstance(b, (ast.List, ast.Tuple)) and len(b.elts) == k and all(isinstance(x_, ast.Subscript) and au.norm(x_.value) == xs and au.const(x_.slice) == i
                                                                      for i, x_ in enumerate(b.elts)):
        return k
    return None


def project_term(v, s):
    """v[s] with static simplification for literal displays"""
    if isinstance(v, ast.Dict) and v.keys and not isinstance(s, ast.Slice):
        r = dict_lookup(v, s)
        if r is not None:
            return r
    if isinstance(v, (ast.Tuple, ast.List)) and not any(isinstance(x, ast.Starred) for x in v.elts):
        i = au.const(s)
        if isinstance(i, int) and not isinstance(i, bool) and -len(v.elts) <= i < len(v.elts):
            return v.elts[i]
        if isinstance(s, ast.Slice) and s.step is None:
            lo = au.const(s.lower) if s.lower is not None else 0
            hi = au.const(s.upper) if s.upper is not None else len(v.elts)
            if isinstance(lo, int) and isinstance(hi, int):
                return type(v)(elts=v.elts[lo:hi], ctx=ast.Load())
    if isinstance(v, ast.IfExp) and (isinstance(au.const(s), int) or isinstance(s, ast.Slice)):
        return ast.IfExp(test=v.test, body=project_term(v.body, s), orelse=project_term(v.orelse, s))
    return ast.Subscript(value=v, slice=s, ctx=ast.Load())


def fold_tuple(t, arity):
    """(X[0], X[1], .., X[n-1]) -> X when X was destructured with n targets"""
    if not t.elts or not all(isinstance(x, ast.Subscript) and au.const(x.slice) == i for i, x in enumerate(t.elts)):
        return t
    x0 = au.norm(t.elts[0].value)
    if all(au.norm(x.value) == x0 for x in t.elts) and arity.get(x0) == len(t.elts):
        return t.elts[0].value
    return t


def fold_bool(t):
    """truth value of a test over constants (None when it is not decided by constants)"""
    if isinstance(t, ast.Constant):
        return bool(t.value)
    if isinstance(t, ast.UnaryOp) and isinstance(t.op, ast.Not):
        v = fold_bool(t.operand)
        return None if v is None else not v
    if isinstance(t, ast.BoolOp):
        vals = [fold_bool(v) for v in t.values]
        if isinstance(t.op, ast.And):
            return False if False in vals else (None if None in vals else True)
        return True if True in vals else (None if None in vals else False)
    if isinstance(t, ast.Compare) and len(t.ops) == 1:
        a, b = au.const(t.left, _NO), au.const(t.comparators[0], _NO)
        if a is not _NO and b is not _NO and type(t.ops[0]) in _CMP:
            try:
                return bool(_CMP[type(t.ops[0])](a, b))
            except Exception:
                return None
    return None


_NO = object()
import operator as _op
_CMP = {ast.Eq: _op.eq, ast.NotEq: _op.ne, ast.Lt: _op.lt, ast.LtE: _op.le, ast.Gt: _op.gt, ast.GtE: _op.ge, ast.Is: _op.is_, ast.IsNot: _op.is_not}


def lift_ite(t, limit=64):
    """conditional sub-terms hoisted to the top: f(a if c else b) -> f(a) if c else f(b)"""
    def first(n):
        for x in ast.walk(n):
            if isinstance(x, ast.IfExp) and x is not n:
                return x
        return None
    if limit <= 0:
        return t
    if isinstance(t, ast.IfExp):
        return ast.IfExp(test=t.test, body=lift_ite(t.body, limit - 1), orelse=lift_ite(t.orelse, limit - 1))
    x = first(t)
    if x is None or isinstance(t, (ast.ListComp, ast.SetComp, ast.GeneratorExp, ast.DictComp, ast.Lambda)):
        return t

    def repl(node, new):
        class T(ast.NodeTransformer):
            def visit(self, n):
                if n is x_copy[0]:
                    return new
                return self.generic_visit(n)
        return T().visit(node)
    # copy while remembering the image of x
    x_copy = [None]

    def cp(n):
        if isinstance(n, list):
            return [cp(i) for i in n]
        if not isinstance(n, ast.AST):
            return n
        new = type(n)()
        for f in n._fields:
            if hasattr(n, f):
                setattr(new, f, cp(getattr(n, f)))
        if n is x:
            x_copy[0] = new
        return new
    a = cp(t)
    ta = repl(a, x.body)
    b = cp(t)
    tb = repl(b, x.orelse)
    return ast.IfExp(test=x.test, body=lift_ite(ta, limit - 1), orelse=lift_ite(tb, limit - 1))


def frame_marker(fr):
    name = {"seq": _SEQ, "range": _RANGE, "keys": _KEYS, "while": _WHILE}[fr.kind]
    return ast.Call(func=N(name), args=[fr.dom], keywords=[])


def simplify_ite(t):
    """drop conditions that an enclosing branch already decided: IfExp(c, a, IfExp(not c and d, b, e)) -> IfExp(c, a, IfExp(d, b, e))"""
    def rec(t, known):
        if not isinstance(t, ast.IfExp):
            return t
        test = t.test
        vals = test.values if isinstance(test, ast.BoolOp) and isinstance(test.op, ast.And) else [test]
        keep = []
        for v in vals:
            tt, pol = au.strip_not(v, True)
            k = au.norm(tt)
            if k in known:
                if known[k] == pol:
                    continue
                return rec(t.orelse, known)
            keep.append(v)
        if not keep:
            return rec(t.body, known)
        test2 = keep[0] if len(keep) == 1 else ast.BoolOp(op=ast.And(), values=keep)
        kb, ko = dict(known), dict(known)
        if len(keep) == 1:
            tt, pol = au.strip_not(keep[0], True)
            kb[au.norm(tt)] = pol
            ko[au.norm(tt)] = not pol
        else:
            for v in keep:
                tt, pol = au.strip_not(v, True)
                kb[au.norm(tt)] = pol
        return ast.IfExp(test=test2, body=rec(t.body, kb), orelse=rec(t.orelse, ko))
    return rec(t, {})


def leaves(t, conds=()):
    """[(conds, leaf)] of a nested conditional term"""
    if isinstance(t, ast.IfExp):
        return leaves(t.body, conds + ((t.test, True),)) + leaves(t.orelse, conds + ((t.test, False),))
    return [(conds, t)]


def subterms(t):
    yield from ast.walk(t)


def assume_not_none(t):
    """The term under the assumption that no look-up misses: `X is None` -> False, `X is not None` -> True, `d.get(k, dflt)` -> d[k],
    conditional expressions on such tests collapse.  Used to read what a navigation step does on the regular path."""
    class T(ast.NodeTransformer):
        def visit_Compare(self, n):
            self.generic_visit(n)
            if len(n.ops) == 1 and isinstance(n.comparators[0], ast.Constant) and n.comparators[0].value is None:
                if isinstance(n.ops[0], (ast.Is, ast.Eq)):
                    return C(False)
                if isinstance(n.ops[0], (ast.IsNot, ast.NotEq)):
                    return C(True)
            return n

        def visit_IfExp(self, n):
            self.generic_visit(n)
            if isinstance(n.test, ast.Constant):
                return n.body if n.test.value else n.orelse
            return n

        def visit_UnaryOp(self, n):
            self.generic_visit(n)
            if isinstance(n.op, ast.Not) and isinstance(n.operand, ast.Constant):
                return C(not n.operand.value)
            return n

        def visit_BoolOp(self, n):
            self.generic_visit(n)
            vals = []
            for v in n.values:
                if isinstance(v, ast.Constant) and isinstance(v.value, bool):
                    if isinstance(n.op, ast.And) and not v.value:
                        return C(False)
                    if isinstance(n.op, ast.Or) and v.value:
                        return C(True)
                    continue
                vals.append(v)
            if not vals:
                return C(isinstance(n.op, ast.And))
            return vals[0] if len(vals) == 1 else ast.BoolOp(op=n.op, values=vals)

        def visit_Call(self, n):
            self.generic_visit(n)
            if isinstance(n.func, ast.Attribute) and n.func.attr == "get" and 1 <= len(n.args) <= 2 and not n.keywords:
                return ast.Subscript(value=n.func.value, slice=n.args[0], ctx=ast.Load())
            return n

        def visit_Subscript(self, n):
            self.generic_visit(n)
            return project_term(n.value, n.slice) if isinstance(n.value, (ast.Tuple, ast.List, ast.IfExp)) else n
    import copy
    return T().visit(_copy(t))


def _copy(t):
    if isinstance(t, list):
        return [_copy(x) for x in t]
    if not isinstance(t, ast.AST):
        return t
    new = type(t)()
    for f in t._fields:
        if hasattr(t, f):
            setattr(new, f, _copy(getattr(t, f)))
    for extra in ("_frames", "_conds"):
        if hasattr(t, extra):
            setattr(new, extra, getattr(t, extra))
    return new


def substitute(t, mapping):
    """replace Name ids by terms"""
    class T(ast.NodeTransformer):
        def visit_Name(self, n):
            return mapping.get(n.id, n)
    return T().visit(_copy(t))


def id_ranges(repo):
    """{'id_faces': 'faces', ...}: properties named id_* that are, in every class of the package defining them,
    `return range(len(self.<container>))` - iterating them is iterating the indices of the container."""
    cache = repo.__dict__.get("_ha_idr")
    if cache is not None:
        return cache
    seen = {}
    for mod in repo.modules.values():
        if not mod.name.startswith("mouette.mesh"):
            continue            # the mesh classes: the objects `self`, `self.mesh`, `mesh` of the analysed code
        for q, cls in mod.classes.items():
            for st in cls.body:
                if isinstance(st, ast.FunctionDef) and st.name.startswith("id_") and "property" in _decorators(st):
                    body = [b for b in st.body if not (isinstance(b, ast.Expr) and isinstance(b.value, ast.Constant))]
                    cont = None
                    if len(body) == 1 and isinstance(body[0], ast.Return) and isinstance(body[0].value, ast.Call):
                        c = body[0].value
                        if isinstance(c.func, ast.Name) and c.func.id == "range" and len(c.args) == 1 and isinstance(c.args[0], ast.Call) \
                                and isinstance(c.args[0].func, ast.Name) and c.args[0].func.id == "len" and len(c.args[0].args) == 1 \
                                and au.is_self_attr(c.args[0].args[0]):
                            cont = c.args[0].args[0].attr
                    seen.setdefault(st.name, set()).add(cont)
    out = {k: next(iter(v)) for k, v in seen.items() if len(v) == 1 and None not in v}
    repo.__dict__["_ha_idr"] = out
    return out
