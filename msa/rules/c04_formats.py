"""C04 per-format reader/writer models and the rules comparing them (used by msa/props/c04.py)."""
from __future__ import annotations
import ast
from .. import au, sym
from . import codec_c04 as cc

ATTR = "mesh.mesh_attributes"
GEO = "mesh.io.geogram_ascii"
IOMOD = {"medit": "mesh.io.medit", "obj": "mesh.io.obj", "off": "mesh.io.off", "tet": "mesh.io.tet",
         "xyz": "mesh.io.xyz", "geogram": GEO}
EXPORT = {"medit": "export_medit", "obj": "export_obj", "off": "export_off", "tet": "export_tet",
          "xyz": "export_xyz", "geogram": "export_geogram_ascii"}
IMPORT = {"medit": ["import_medit"], "obj": ["import_obj", "parse_obj_data"], "off": ["import_off", "parse_off_data"],
          "tet": ["import_tet", "parse_tet_data"], "xyz": ["import_xyz"], "geogram": ["import_geogram_ascii"]}
# index base of the file formats (frozen from the format definitions): value a conforming writer adds
BASE = {"obj": 1, "medit": 1, "off": 0, "tet": 0, "geogram": 0}
INDEX_KINDS = ("edges", "faces", "cells")
ORDER_DESTROYING = {"sorted", "reversed", "keyify", "set", "frozenset", "sort", "reverse", "unique", "flip", "roll",
                    "shuffle", "argsort"}
FLOAT_OK = {"float", "float64", "double", "float_", "longdouble"}
NUM_CONV = {"float", "int", "round", "float16", "float32", "float64", "half", "single", "double", "float_", "longdouble",
            "trunc", "floor", "ceil", "around", "round_", "rint"}


def floor(ctx, label, n, at_least, site):
    """fewer sites than expected were recognised: the construct changed shape -> undecided (neither a pass nor an alarm)"""
    rule = label.split()[0]
    what = label[len(rule):].strip()
    if n >= at_least:
        ctx.ok(rule, site, f"{what}: {n} site(s)")
        return True
    ctx.undecided(rule, site, f"{what}: not recognised", f"{n} site(s) recognised, at least {at_least} expected")
    return False


def run_formats(ctx):
    from ..core import AnalysisError
    from . import hc_text, hc_geo
    repo = ctx.repo
    codecs = {}
    geo = None
    for fmt, fn in (("medit", hc_text.run_medit), ("obj", hc_text.run_obj), ("off", hc_text.run_off), ("tet", hc_text.run_tet),
                    ("xyz", hc_text.run_xyz), ("geogram", hc_geo.run_geogram)):
        try:
            codecs[fmt] = fn(ctx)
            if fmt == "geogram":
                geo = codecs[fmt]
                codecs[fmt] = geo.cx
        except AnalysisError:
            raise
        except (IndexError, KeyError, AttributeError, TypeError, ValueError, RecursionError) as ex:
            # the anchored functions exist (repo.func succeeded) but the extraction met a shape it does not model
            ctx.undecided("C04-E1", ctx.site(IOMOD[fmt], repo.func(IOMOD[fmt], EXPORT[fmt])),
                          f"{fmt}: codec is not in a form whose reader/writer tables can be extracted",
                          f"extraction stopped with {type(ex).__name__}")
    model = hc_text.regeneration_model(ctx)
    if model is not None:
        for fmt in ("obj", "medit", "geogram", "off", "tet", "xyz"):
            try:
                cx = codecs.get(fmt) if isinstance(codecs.get(fmt), hc_text.Codec) else hc_text.Codec(ctx, fmt)
                hc_text.c1_emission(cx, model)
            except AnalysisError:
                raise
            except (IndexError, KeyError, AttributeError, TypeError, ValueError, RecursionError) as ex:
                ctx.undecided("C04-C1", ctx.site(IOMOD[fmt], repo.func(IOMOD[fmt], EXPORT[fmt])),
                              f"{fmt}: emission conditions of the exporter could not be extracted", type(ex).__name__)
    return geo
