"""C04 per-format reader/writer models and the rules comparing them (used by msa/props/c04.py)."""
from __future__ import annotations
import ast
from .. import au, sym
from . import codec_c04 as cc

ATTR = "mesh.mesh_attributes"
GEO = "mesh.io.geogram_ascii"
IOMOD = {"medit": "mesh.io.medit", "obj": "mesh.io.obj", "off": "mesh.io.off", "tet": "mesh.io.tet",
         "xyz": "mesh.io.xyz", "geogram": GEO}
EXPORT = {"medit": "export_medit", "obj": "export_obj", "off": "export_off", "tet": "export_tet",
          "xyz": "export_xyz", "geogram": "export_geogram_ascii"}
IMPORT = {"medit": ["import_medit"], "obj": ["import_obj", "parse_obj_data"], "off": ["import_off", "parse_off_data"],
          "tet": ["import_tet", "parse_tet_data"], "xyz": ["import_xyz"], "geogram": ["import_geogram_ascii"]}
# index base of the file formats (frozen from the format definitions): value a conforming writer adds
BASE = {"obj": 1, "medit": 1, "off": 0, "tet": 0, "geogram": 0}
INDEX_KINDS = ("edges", "faces", "cells")
ORDER_DESTROYING = {"sorted", "reversed", "keyify", "set", "frozenset", "sort", "reverse", "unique", "flip", "roll",
                    "shuffle", "argsort"}
FLOAT_OK = {"float", "float64", "double", "float_", "longdouble"}
NUM_CONV = {"float", "int", "round", "float16", "float32", "float64", "half", "single", "double", "float_", "longdouble",
            "trunc", "floor", "ceil", "around", "round_", "rint"}


# =========================================================================== writer model
def floor(ctx, label, n, at_least, site):
    """The anchored function exists but fewer sites than expected were recognised: the construct changed shape.
    Reported as a finding (never a silent pass, never an analysis error)."""
    rule = label.split()[0]
    what = label[len(rule):].strip()
    return ctx.check(n >= at_least, rule, site, f"{what}: construct not found ({n} site(s) recognised, at least {at_least} expected)",
                     "the code this rule protects is no longer in a form the rule recognises; the reader/writer agreement it "
                     "establishes cannot be confirmed", note=f"{what}: {n} site(s)")


class WBlock:
    """One `write` of a row of `mesh.<kind>` inside an exporter."""

    def __init__(self, **kw):
        self.__dict__.update(kw)


def len_of_row(e, prov, at):
    """kind if e is `len(<row>)`."""
    if isinstance(e, ast.Call) and isinstance(e.func, ast.Name) and e.func.id == "len" and len(e.args) == 1:
        return prov.row_expr_kind(e.args[0], at)
    return None


def arity_guard(test, prov, at):
    """N if test is `len(<row>) == N` (either side; a local bound to len(row) is resolved by the caller)."""
    if isinstance(test, ast.Compare) and len(test.ops) == 1 and isinstance(test.ops[0], ast.Eq):
        for a, c in ((test.left, test.comparators[0]), (test.comparators[0], test.left)):
            if len_of_row(a, prov, at) is not None and isinstance(au.const(c), int):
                return au.const(c)
    return None


def writer_blocks(fmt, fn):
    prov = cc.Prov(fn)
    b = sym.Bindings(fn)
    out = []
    for kind, loop, via in prov.row_loops():
        writes = [c for c in au.calls(loop) if au.call_tail(c) == "write" and len(c.args) == 1]
        for w in sorted(writes, key=lambda c: (c.lineno, c.col_offset)):
            guard_n, other = None, []
            for test, pol in au.guards(w, stop=loop):
                t = cc.resolve(b, test, at=w, keep=tuple(au.names(loop.target)))
                n = arity_guard(t, prov, w) if pol else None
                if n is not None:
                    guard_n = n
                else:
                    other.append((test, pol))
            parts = cc.flatten(w.args[0], b, w)
            blk = WBlock(fmt=fmt, kind=kind, loop=loop, via=via, write=w, parts=parts, guard_n=guard_n,
                         other_guards=other, tag=None, tag_fields=0, fields=0, offsets=set(), positions=[],
                         trailing=0, leaves=[], unknown=[], joins=[], prov=prov, b=b, fn=fn)
            _analyse_parts(blk)
            out.append(blk)
    return prov, b, out


def _analyse_parts(blk):
    prov, w = blk.prov, blk.write
    seen_index = False
    first = True
    for i, p in enumerate(blk.parts):
        if p[0] == "lit":
            toks = p[1].split()
            if first and toks:
                # leading literal token(s): a tag such as 'v' / 'f' / 'l'
                blk.tag = toks[0]
                blk.tag_fields = len(toks)
            elif seen_index:
                blk.trailing += len(toks)
            first = first and not toks
            continue
        if p[0] == "leaf":
            lf = p[1]
            c = prov.classify(lf.expr, lf.expr)
            if c and c[0] == "elem" and c[1] == blk.kind:
                blk.fields = blk.fields + 1 if blk.fields != "all" else "all"
                blk.offsets.add(c[2])
                blk.positions.append(c[3])
                blk.leaves.append(lf)
                seen_index = True
                blk.trailing = 0
            elif len_of_row(lf.expr, prov, lf.expr) == blk.kind and not seen_index:
                if first:
                    blk.tag = ("len",)
                blk.tag_fields += 1
            else:
                blk.unknown.append(lf.expr)
            first = False
            continue
        if p[0] == "join":
            j = p[1]
            g = j.gens[0] if len(j.gens) == 1 else None
            ok = False
            if g is not None and not g.ifs and prov.row_expr_kind(cc.Prov.unwrap_row(g.iter), j.node) == blk.kind:
                for q in j.parts:
                    if q[0] == "leaf":
                        c = prov.classify(q[1].expr, q[1].expr)
                        if c and c[0] == "elem" and c[1] == blk.kind:
                            blk.fields = "all"
                            blk.offsets.add(c[2])
                            blk.leaves.append(q[1])
                            seen_index = True
                            blk.trailing = 0
                            ok = True
            if not ok:
                blk.unknown.append(j.node)
            blk.joins.append(j)
            first = False
            continue
        blk.unknown.append(p[1])
        first = False


def describe(blk):
    t = blk.tag if not isinstance(blk.tag, tuple) else "len(row)"
    return f"{blk.fmt} {blk.kind} row (tag {t}, {blk.fields} field(s))"


# =========================================================================== generic writer rules
def l1_float_format(ctx, fmt, mod, fn, prov, b):
    """every coordinate leaf is rendered with the default (shortest round-trip) formatting"""
    n = 0
    seen = set()
    for lf in cc.leaves(fn, b):
        c = prov.classify(lf.expr, lf.expr)
        if not c or c[0] != "elem" or c[1] != "vertices":
            continue
        key = (id(lf.node), au.src(lf.expr), lf.spec, lf.conv)
        if key in seen:
            continue
        seen.add(key)
        n += 1
        site = ctx.site(mod, fn, lf.node)
        bare = isinstance(lf.expr, ast.Starred) and c[2] == 0 or c[2] == 0 and not any(
            isinstance(x, ast.Call) for x in au.walk(lf.expr))
        if isinstance(lf.expr, ast.Starred) and isinstance(lf.expr.value, (ast.GeneratorExp, ast.ListComp)):
            bare = isinstance(lf.expr.value.elt, ast.Name)
        ctx.check(lf.plain(), "C04-L1", site,
                  f"{fmt}: coordinate `{au.src(lf.expr)}` is written with format "
                  f"{(lf.spec if lf.how == 'percent' else ('!' + lf.conv if lf.conv else '') + ':' + str(lf.spec))!r}"
                  if not lf.plain() else f"{fmt}: coordinate {au.src(lf.expr)} default-formatted",
                  "a precision / conversion in the format loses bits (or changes the token): the reloaded coordinate differs "
                  "from the saved one", note=f"{fmt}: {au.src(lf.expr)} rendered with the default float repr")
        ctx.check(bare, "C04-L1", site,
                  f"{fmt}: coordinate is transformed before being written: `{au.src(lf.expr)}`",
                  "rounding / casting / arithmetic on a coordinate before formatting is lossy",
                  note=f"{fmt}: {au.src(lf.expr)} written as is")
    return n


def b1_writer_offsets(ctx, fmt, mod, fn, prov, b):
    n = 0
    seen = set()
    for lf in cc.leaves(fn, b):
        c = prov.classify(lf.expr, lf.expr)
        if not c or c[0] != "elem" or c[1] not in INDEX_KINDS:
            continue
        key = (id(lf.node), au.src(lf.expr))
        if key in seen:
            continue
        seen.add(key)
        n += 1
        off = c[2]
        site = ctx.site(mod, fn, lf.node)
        if off is None:
            ctx.fail("C04-B1", site, f"{fmt}: {c[1]} index is not written as `index + constant`: `{au.src(lf.expr)}`",
                     "a vertex index must be written shifted by the index base of the format")
            continue
        ctx.check(off == BASE[fmt], "C04-B1", site,
                  f"{fmt}: {c[1]} index written with offset {off:+d}, the format is {BASE[fmt]}-based",
                  f"`{au.src(lf.expr)}`: every vertex index of the saved file is shifted by {off - BASE[fmt]:+d} for any reader "
                  f"of the format (including the library's own importer)",
                  note=f"{fmt}: {c[1]} index written as index{BASE[fmt]:+d}")
        ctx.check(lf.plain() or (lf.how in ("format", "fstring") and lf.spec in ("", "d") and lf.conv is None),
                  "C04-B1", site, f"{fmt}: {c[1]} index `{au.src(lf.expr)}` written with a non-integer format",
                  "an index must be written as a plain integer token")
    return n


def altering_wrappers(e):
    """Wrappers around a row that change its order or content: sorted(..), reversed(..), set(..), keyify(..), r[::-1], r[1:]
    (list(..), tuple(..), r[:] keep it)."""
    out = []
    for _ in range(4):
        if isinstance(e, ast.Call) and au.call_tail(e) in cc.Prov.ROW_WRAPPERS and e.args:
            if au.call_tail(e) in ORDER_DESTROYING:
                out.append(au.call_tail(e))
            e = e.args[0]
        elif isinstance(e, ast.Subscript) and isinstance(e.slice, ast.Slice):
            sl = e.slice
            if not (sl.lower is None and sl.upper is None and (sl.step is None or au.const(sl.step) == 1)):
                out.append("slice")
            e = e.value
        else:
            break
    return out


def v1_writer_order(ctx, fmt, mod, fn, prov, b):
    """iteration over a face/cell row for writing uses the row itself, and no order-destroying call touches a row"""
    n = 0
    for node in au.walk(fn):
        # (a) every `for v in <row>` / comprehension over a row of faces/cells iterates the bare row
        its = []
        if isinstance(node, ast.For):
            its.append((node.iter, node))
        elif isinstance(node, ast.comprehension):
            its.append((node.iter, au.parent(node)))
        for it, at in its:
            x = cc.Prov.unwrap_row(it)
            rk = prov.row_expr_kind(x, it) if isinstance(x, ast.Name) else None
            if rk in ("faces", "cells"):
                if True:
                    n += 1
                    ctx.check(not altering_wrappers(it), "C04-V1", ctx.site(mod, fn, at),
                              f"{fmt}: {rk} row is iterated through `{au.src(it)}` instead of the row itself",
                              "the vertex order of a face / cell must be written unchanged",
                              note=f"{fmt}: {rk} row iterated in stored order")
        # (b) order-destroying calls / reversed slices on rows or their elements
        bad = None
        if isinstance(node, ast.Call) and au.call_tail(node) in ORDER_DESTROYING:
            bad = list(node.args) + ([node.func.value] if isinstance(node.func, ast.Attribute) else [])
        elif isinstance(node, ast.Subscript) and isinstance(node.slice, ast.Slice) and node.slice.step is not None \
                and (au.const(node.slice.step) or 1) < 0:
            bad = [node.value]
        if bad:
            for a in bad:
                for x in au.walk(a):
                    if isinstance(x, ast.Name):
                        r = prov.name_role(x.id, x)
                        if r and r[1] in ("faces", "cells"):
                            ctx.fail("C04-V1", ctx.site(mod, fn, node),
                                     f"{fmt}: `{au.src(node)}` reorders a {r[1]} row before it is written",
                                     "the vertex order of a face / cell must be written unchanged")
    return n


# =========================================================================== reader model
WRAPPERS = {"Vec", "tuple", "list", "array", "asarray"}


class RowSpec:
    """What an importer appends as one row: how many tokens (`arity`), which leading tokens are skipped (`skip`),
    the numeric conversion applied and the integer added to it."""

    def __init__(self):
        self.arity = None      # ('const', n) | ('rest',) | ('sym', src) | None (unrecognised)
        self.skip = 0
        self.convs = set()
        self.offsets = set()
        self.order_ops = []
        self.token_positions = []   # for literal rows: the token index of each element (or None)
        self.ok = False

    def __repr__(self):
        return f"RowSpec(arity={self.arity}, skip={self.skip}, convs={sorted(self.convs)}, offsets={sorted(map(str, self.offsets))})"


def _conv_of(elt):
    """(conversion call tail, offset) of one element expression; (None, None) when no conversion call."""
    calls = [c for c in au.walk(elt) if isinstance(c, ast.Call) and au.call_tail(c) in NUM_CONV]
    if not calls:
        return None, None
    # outermost conversion
    outer = [c for c in calls if not any(c is not d and any(x is c for x in ast.walk(d)) for d in calls)]
    c = outer[0]
    return au.call_tail(c), cc.arith_context(c, elt)


def _slice_info(sl):
    """(skip, arity) of a slice over a token list."""
    lo = 0 if sl.lower is None else au.const(sl.lower)
    if sl.step is not None:
        return None, None
    if not isinstance(lo, int):
        return None, None
    if sl.upper is None:
        return lo, ("rest",)
    hi = au.const(sl.upper)
    if isinstance(hi, int):
        return lo, ("const", hi - lo)
    try:
        p = sym.to_poly(sl.upper, opaque=False) - lo
    except sym.NotPoly:
        return lo, None
    atoms = p.atoms()
    if len(atoms) == 1 and p.coeff(next(iter(atoms))) == sym.Poly.const(1) and p.without(next(iter(atoms))).is_const():
        a = next(iter(atoms))
        k = p.without(a).const_value()
        if k == 0:
            return lo, ("sym", a)
        if k.denominator == 1:
            return lo, ("symoff", a, int(k))
    return lo, None


def rowspec(expr, b, at, depth=5):
    rs = RowSpec()
    e = expr
    outer_slice = None
    for _ in range(8):
        if isinstance(e, ast.Name):
            d = b.reaching(e.id, at)
            if d is None:
                break
            at = getattr(b, "_last_def_stmt", at)
            e = d
            continue
        if isinstance(e, ast.Call) and au.call_tail(e) in WRAPPERS and len(e.args) == 1 and not e.keywords:
            e = e.args[0]
            continue
        if isinstance(e, ast.Call) and au.call_tail(e) in ORDER_DESTROYING:
            rs.order_ops.append(au.call_tail(e))
            if len(e.args) == 1:
                e = e.args[0]
                continue
            e = ast.Tuple(elts=list(e.args), ctx=ast.Load())
            continue
        if isinstance(e, ast.Subscript) and isinstance(e.slice, ast.Slice) and outer_slice is None \
                and isinstance(e.value, (ast.ListComp, ast.GeneratorExp, ast.Call, ast.Name)):
            outer_slice = e.slice
            e = e.value
            continue
        break
    if isinstance(e, (ast.ListComp, ast.GeneratorExp)) and len(e.generators) == 1 and not e.generators[0].ifs:
        g = e.generators[0]
        conv, off = _conv_of(e.elt)
        if conv is not None:
            rs.convs.add(conv)
            rs.offsets.add(off)
        src = g.iter
        for _ in range(4):
            if isinstance(src, ast.Name):
                d = b.reaching(src.id, at)
                if d is None:
                    break
                src = d
            else:
                break
        skip, arity = 0, ("rest",)
        if isinstance(src, ast.Subscript) and isinstance(src.slice, ast.Slice):
            skip, arity = _slice_info(src.slice)
        if outer_slice is not None:
            s2, a2 = _slice_info(outer_slice)
            if arity == ("rest",) and s2 is not None:
                skip, arity = (skip or 0) + s2, a2
            else:
                arity = None
        rs.skip, rs.arity = skip, arity
        rs.ok = arity is not None and skip is not None
        return rs
    if isinstance(e, (ast.List, ast.Tuple)) and e.elts and outer_slice is None:
        rs.arity = ("const", len(e.elts))
        for x in e.elts:
            if isinstance(x, ast.Name):
                d = b.reaching(x.id, at)
                if d is not None:
                    x = d
            conv, off = _conv_of(x)
            if conv is not None:
                rs.convs.add(conv)
                rs.offsets.add(off)
            pos = None
            for s in au.walk(x):
                if isinstance(s, ast.Subscript) and isinstance(au.const(s.slice), int) and isinstance(s.value, ast.Name):
                    pos = au.const(s.slice)
            rs.token_positions.append(pos)
        known = [p for p in rs.token_positions if p is not None]
        rs.skip = min(known) if known else 0
        rs.ok = True
        return rs
    return rs


class RBlock:
    def __init__(self, **kw):
        self.__dict__.update(kw)


def branch_keys(node, stop=None):
    """Constants an enclosing if/elif chain compares against to reach `node`:
    [(compared expr src, constant, polarity)] innermost first."""
    out = []
    for test, pol in au.guards(node, stop=stop):
        if isinstance(test, ast.Compare) and len(test.ops) == 1 and isinstance(test.ops[0], ast.Eq):
            l, r = test.left, test.comparators[0]
            if isinstance(r, ast.Constant) and not isinstance(l, ast.Constant):
                out.append((l, r.value, pol, test))
            elif isinstance(l, ast.Constant):
                out.append((r, l.value, pol, test))
            else:
                out.append((None, None, pol, test))
        else:
            out.append((None, None, pol, test))
    return out


def container_append_kind(call, objnames=None):
    """kind if call is `<x>.<kind>.append(..)` / `<x>.<kind> += ..`"""
    f = call.func
    if isinstance(f, ast.Attribute) and f.attr == "append" and isinstance(f.value, ast.Attribute) \
            and f.value.attr in cc.KINDS and isinstance(f.value.value, ast.Name):
        return f.value.attr
    return None


def helper_appends(repo, mod, fn):
    """For a module-level helper that appends to one of its parameters:
    (param index of the container, RowSpec of the appended row, {sym name -> param index}, count param index)."""
    ps = au.params(fn)
    b = sym.Bindings(fn)
    for c in au.calls(fn):
        if au.call_tail(c) == "append" and isinstance(c.func.value, ast.Name) and c.func.value.id in ps and len(c.args) == 1:
            rs = rowspec(c.args[0], b, c)
            loops = [a for a in au.ancestors(c) if isinstance(a, ast.For)]
            cnt = None
            if loops and isinstance(loops[0].iter, ast.Call) and au.call_tail(loops[0].iter) == "range" \
                    and len(loops[0].iter.args) == 1 and isinstance(loops[0].iter.args[0], ast.Name) \
                    and loops[0].iter.args[0].id in ps:
                cnt = ps.index(loops[0].iter.args[0].id)
            return ps.index(c.func.value.id), rs, {p: i for i, p in enumerate(ps)}, cnt, c
    return None


def reader_blocks(repo, fmt, mod, fn):
    """Every append of a row to `<obj>.<kind>` in an importer, directly or through a helper taking the container."""
    b = sym.Bindings(fn)
    out = []
    for c in sorted(au.calls(fn), key=lambda c: (c.lineno, c.col_offset)):
        kind = container_append_kind(c)
        if kind is not None and len(c.args) == 1:
            rs = rowspec(c.args[0], b, c)
            out.append(RBlock(fmt=fmt, kind=kind, spec=rs, node=c, keys=branch_keys(c), fn=fn, count=None, via=None, b=b))
            continue
        # helper(data, obj.<kind>, n, arity)
        if isinstance(c.func, ast.Name):
            r = repo.resolve(mod, c.func.id)
            if r and r[0] == "def" and r[1] == "mouette." + mod:
                hfn = repo.modules[r[1]].funcs.get(r[2])
                kinds = [(i, a.attr) for i, a in enumerate(c.args) if isinstance(a, ast.Attribute) and a.attr in cc.KINDS
                         and isinstance(a.value, ast.Name)]
                if hfn is not None and kinds:
                    h = helper_appends(repo, mod, hfn)
                    if h is None:
                        continue
                    pc, rs0, pidx, cnt, hnode = h
                    if [k for i, k in kinds if i == pc]:
                        kind = [k for i, k in kinds if i == pc][0]
                        rs = RowSpec()
                        rs.__dict__.update(rs0.__dict__)
                        if rs.arity and rs.arity[0] == "sym" and rs.arity[1] in pidx and pidx[rs.arity[1]] < len(c.args):
                            v = au.const(c.args[pidx[rs.arity[1]]])
                            rs.arity = ("const", v) if isinstance(v, int) else ("sym", au.src(c.args[pidx[rs.arity[1]]]))
                        count = c.args[cnt] if cnt is not None and cnt < len(c.args) else None
                        out.append(RBlock(fmt=fmt, kind=kind, spec=rs, node=c, keys=branch_keys(c), fn=fn, count=count,
                                          via=hfn, b=b))
    return out


# =========================================================================== shared reader rules
def b1_reader_offsets(ctx, fmt, mod, rblocks):
    n = 0
    for rb in rblocks:
        if rb.kind not in INDEX_KINDS or not rb.spec.convs:
            continue
        n += 1
        site = ctx.site(mod, rb.fn if rb.via is None else rb.via, rb.node if rb.via is None else None)
        offs = rb.spec.offsets
        if None in offs:
            ctx.fail("C04-B1", site, f"{fmt}: {rb.kind} index is not parsed as `int(token) + constant`",
                     "a vertex index must be read shifted back by the index base of the format")
            continue
        bad = sorted(o for o in offs if o != -BASE[fmt])
        ctx.check(not bad, "C04-B1", site,
                  f"{fmt}: {rb.kind} index read with offset {bad[0] if bad else 0:+d}, the format is {BASE[fmt]}-based",
                  f"every vertex index of a loaded {rb.kind[:-1]} is shifted by {(bad[0] if bad else 0) + BASE[fmt]:+d} "
                  f"(the exporter and every conforming writer add {BASE[fmt]})",
                  note=f"{fmt}: {rb.kind} index read as int(token){-BASE[fmt]:+d}")
        ctx.check(rb.spec.convs <= {"int"}, "C04-B1", site,
                  f"{fmt}: {rb.kind} index parsed with {sorted(rb.spec.convs)} instead of int",
                  "indices are integer tokens")
    return n


def l1_reader_floats(ctx, fmt, mod, rblocks):
    n = 0
    for rb in rblocks:
        if rb.kind != "vertices" or not rb.spec.convs:
            continue
        n += 1
        site = ctx.site(mod, rb.fn, rb.node)
        ctx.check(rb.spec.convs <= FLOAT_OK and rb.spec.offsets <= {0}, "C04-L1", site,
                  f"{fmt}: coordinates are parsed with {sorted(rb.spec.convs)}"
                  f"{' and shifted' if not rb.spec.offsets <= {0} else ''} instead of float()",
                  "a double written with its shortest repr is recovered bit-exactly by float(); a narrower type or rounding is lossy",
                  note=f"{fmt}: coordinates parsed with float()")
    return n


def v1_reader_order(ctx, fmt, mod, fns, rblocks, writer_fn):
    n = 0
    for rb in rblocks:
        if rb.kind in ("faces", "cells"):
            n += 1
            ctx.check(not rb.spec.order_ops, "C04-V1", ctx.site(mod, rb.fn, rb.node),
                      f"{fmt}: {rb.kind} row passes through {'/'.join(rb.spec.order_ops)} before being stored",
                      "the vertex order of a loaded face / cell must be the order in the file",
                      note=f"{fmt}: {rb.kind} row stored in file order")
    for fn in fns:
        if fn is writer_fn:
            continue
        for c in au.calls(fn):
            if au.call_tail(c) not in ORDER_DESTROYING:
                continue
            st = au.enclosing_stmt(c)

            def in_edges_append(node):
                for a in [node] + list(au.ancestors(node)):
                    if isinstance(a, ast.Call) and container_append_kind(a) == "edges":
                        return True
                    if isinstance(a, ast.stmt):
                        break
                return False
            ok = in_edges_append(c)
            if not ok and isinstance(st, ast.Assign) and len(st.targets) == 1 and isinstance(st.targets[0], ast.Name):
                t = st.targets[0].id
                uses = [x for x in au.walk(fn) if isinstance(x, ast.Name) and x.id == t and isinstance(x.ctx, ast.Load)]
                ok = bool(uses) and all(in_edges_append(u) for u in uses)
            n += 1
            ctx.check(ok, "C04-V1", ctx.site(mod, fn, c),
                      f"{fmt}: `{au.src(c)}` reorders data that is not (only) an edge",
                      "only edges are unordered pairs; a sorted / reversed / set-ified face or cell row changes the element",
                      note=f"{fmt}: {au.call_tail(c)} applied to an edge only")
    return n


def coordinate_order(ctx, fmt, mod, fn, wblocks):
    n = 0
    for wb in wblocks:
        if wb.kind != "vertices":
            continue
        pos = [p for p in wb.positions if p is not None]
        if not pos:
            continue
        n += 1
        ctx.check(pos == [0, 1, 2], "C04-E1", ctx.site(mod, fn, wb.write),
                  f"{fmt}: coordinates are written in component order {pos} instead of [0, 1, 2]",
                  "the importer assigns the first three tokens of a vertex line to x, y, z",
                  note=f"{fmt}: x y z written in order")
    return n


# =========================================================================== header counts (off, tet)
def header_counts_writer(fn, prov, b, wblocks):
    """[(kind, leaf, write call, index of the leaf in its line)] for every `len(mesh.K)` written outside the row loops."""
    loops = [wb.loop for wb in wblocks]
    out = []
    for c in sorted((c for c in au.calls(fn) if au.call_tail(c) == "write" and len(c.args) == 1),
                    key=lambda c: (c.lineno, c.col_offset)):
        if any(any(a is lp for a in au.ancestors(c)) for lp in loops):
            continue
        for line in cc.lines_of(cc.flatten(c.args[0], b, c)):
            tok = 0
            for p in line:
                if p[0] == "lit":
                    tok += len(p[1].split())
                elif p[0] == "leaf":
                    e = cc.resolve(b, p[1].expr, at=c)
                    if isinstance(e, ast.Call) and isinstance(e.func, ast.Name) and e.func.id == "len" and len(e.args) == 1 \
                            and prov.container_kind(e.args[0]) in cc.KINDS:
                        out.append((prov.container_kind(e.args[0]), p[1], c, tok))
                    tok += 1
    return out


def header_counts_reader(fn):
    """Ordered count variables of an importer: names bound to int(...) of header tokens, in consumption order,
    with the kinds appended in the loop each one bounds."""
    b = sym.Bindings(fn)
    names = []
    for st in au.stmts(fn.body):
        if not isinstance(st, ast.Assign) or len(st.targets) != 1:
            continue
        t, v = st.targets[0], st.value
        if isinstance(t, ast.Name) and isinstance(v, ast.Call) and isinstance(v.func, ast.Name) and v.func.id == "int":
            names.append((t.id, st))
        elif isinstance(t, (ast.Tuple, ast.List)) and isinstance(v, (ast.GeneratorExp, ast.ListComp)) \
                and isinstance(v.elt, ast.Call) and isinstance(v.elt.func, ast.Name) and v.elt.func.id == "int":
            for x in t.elts:
                if isinstance(x, ast.Name):
                    names.append((x.id, st))
    out = []
    for name, st in names:
        kinds = set()
        used = False
        for lp in au.stmts(fn.body):
            if isinstance(lp, ast.For) and isinstance(lp.iter, ast.Call) and au.call_tail(lp.iter) == "range" \
                    and len(lp.iter.args) == 1 and isinstance(lp.iter.args[0], ast.Name) and lp.iter.args[0].id == name:
                used = True
                for c in au.calls(lp):
                    k = container_append_kind(c)
                    if k:
                        kinds.add(k)
        out.append((name, kinds, used, st))
    # only the counts read before the first bounded loop form the header
    return out


def h1_flat_header(ctx, fmt, mod, wfn, rfn, prov, b, wblocks):
    wc = header_counts_writer(wfn, prov, b, wblocks)
    rc = header_counts_reader(rfn)
    wsite, rsite = ctx.site(mod, wfn), ctx.site(mod, rfn)
    n = 0
    if not wc or not rc:
        ctx.fail("C04-H1", wsite if not wc else rsite, f"{fmt}: header counts not found",
                 "the format starts with the number of vertices / elements")
        return 0
    for i, (name, kinds, used, st) in enumerate(rc):
        if not used or not kinds:
            continue
        n += 1
        # `n = int(<line tokens>[k])`: k is the position of the count on the header line written by the exporter
        if isinstance(st.value, ast.Call) and len(st.value.args) == 1 and isinstance(st.value.args[0], ast.Subscript) \
                and isinstance(au.const(st.value.args[0].slice), int) and i < len(wc):
            k = au.const(st.value.args[0].slice)
            ctx.check(k == wc[i][3], "C04-H1", rsite,
                      f"{fmt}: header count #{i + 1} is read from token {k} of its line, the exporter writes it as token {wc[i][3]}",
                      "the number of rows to read is taken from the wrong token", note=f"{fmt}: count #{i + 1} token position agrees")
        wk = wc[i][0] if i < len(wc) else None
        mine = [wb.kind for wb in wblocks if wb.kind in kinds]
        ctx.check(wk in kinds and (not mine or set(mine) == {wk}), "C04-H1", wsite,
                  f"{fmt}: header count #{i + 1} written is len(mesh.{wk}) but the importer uses count #{i + 1} to read "
                  f"{'/'.join(sorted(kinds))}",
                  f"`{name}` bounds the loop that reads {'/'.join(sorted(kinds))} rows; the exporter writes the number of "
                  f"{wk} there: rows are mis-assigned or the file is truncated on reload",
                  note=f"{fmt}: count #{i + 1} = number of {wk} on both sides")
    # each written row block is announced by the count of its own container, and blocks come in the order of the counts
    order = [k for k, *_ in wc]
    rows = []
    for wb in wblocks:
        if wb.kind not in rows:
            rows.append(wb.kind)
    for k in rows:
        n += 1
        ctx.check(k in order, "C04-H1", wsite, f"{fmt}: rows of mesh.{k} are written but their number is not in the header",
                  "the importer reads exactly as many rows as the header announces")
    ctx.check([k for k in order if k in rows] == rows, "C04-H1", wsite,
              f"{fmt}: row blocks are written in order {rows} but announced in order {[k for k in order if k in rows]}",
              "the importer reads the blocks in header order")
    for wb in wblocks:
        ctx.check(wb.guard_n is None and not wb.other_guards, "C04-H1", ctx.site(mod, wfn, wb.write),
                  f"{fmt}: only some {wb.kind} rows are written while the header announces len(mesh.{wb.kind})",
                  "the importer reads exactly as many rows as the header announces")
    # reader row loops come in the same order
    rorder = [sorted(kinds) for name, kinds, used, st in rc if used and kinds]
    ok = len(rorder) >= len(rows) and all(rows[i] in rorder[i] for i in range(len(rows)))
    ctx.check(ok, "C04-H1", rsite, f"{fmt}: importer reads blocks {rorder}, exporter writes {rows}",
              "blocks must be read in the order they are written")
    return n


# =========================================================================== tag / keyword matching
def rblock_matches(rb, tagvar_value):
    """Does the guard conjunction of a reader block hold when the compared expression equals `tagvar_value`?
    Guards that do not compare the tag are ignored."""
    for expr, const, pol, test in rb.keys:
        if expr is None:
            continue
        hit = (const == tagvar_value)
        if hit != pol:
            return False
    return True


def keyed(rblocks):
    """{constant: [blocks whose innermost positive guard compares with that constant]}"""
    out = {}
    for rb in rblocks:
        for expr, const, pol, test in rb.keys:
            if expr is not None and pol:
                out.setdefault(const, []).append(rb)
                break
    return out


def reader_arity(rb, n=None):
    a = rb.spec.arity
    if a is None:
        return None
    if a[0] == "const":
        return a[1]
    if a[0] == "rest":
        return "rest"
    if a[0] == "sym":
        # symbolic arity: equal to the tag when it is the compared name
        for expr, const, pol, test in rb.keys:
            if expr is not None and isinstance(expr, ast.Name) and expr.id == a[1] and pol:
                return const
        return ("sym", a[1])
    return None


def writer_arity(wb):
    if wb.guard_n is not None:
        return wb.guard_n
    return wb.fields


# =========================================================================== medit
def preceding_lines(stmt, b):
    """Text written by the `write` statements that precede `stmt` (same block, then enclosing if-blocks),
    as lines; stops at the previous loop."""
    parts = []
    cur = stmt
    for _ in range(4):
        blk, owner = au.enclosing_block(cur)
        if blk is None:
            break
        idx = [id(x) for x in blk].index(id(cur))
        stop = False
        for s in reversed(blk[:idx]):
            if isinstance(s, (ast.For, ast.While)):
                stop = True
                break
            if isinstance(s, ast.If) and any(au.call_tail(c) == "write" for c in au.calls(s)):
                stop = True
                break
            if isinstance(s, ast.Expr) and isinstance(s.value, ast.Call) and au.call_tail(s.value) == "write" \
                    and len(s.value.args) == 1:
                parts = cc.flatten(s.value.args[0], b, s.value) + parts
        if stop or len(cc.lines_of(parts)) >= 2 or not isinstance(owner, ast.If):
            break
        cur = owner
    return cc.lines_of(parts)


def count_table(repo, mod, fn):
    """For `def count_x(mesh): t=[0,0,0]; for r in mesh.K: if len(r)==N: t[i]+=1 ... return t`:
    (kind, {i: N | 'else'})"""
    ps = au.params(fn)
    prov = cc.Prov(fn)
    b = sym.Bindings(fn)
    rets = [s.value for s in au.stmts(fn.body) if isinstance(s, ast.Return) and isinstance(s.value, ast.Name)]
    if len(rets) != 1:
        return None
    L = rets[0].id
    table, kind = {}, None
    for st in au.stmts(fn.body):
        if isinstance(st, ast.AugAssign) and isinstance(st.op, ast.Add) and au.const(st.value) == 1 \
                and isinstance(st.target, ast.Subscript) and isinstance(st.target.value, ast.Name) and st.target.value.id == L:
            i = au.const(st.target.slice)
            loops = [a for a in au.ancestors(st) if isinstance(a, ast.For)]
            if not loops or not isinstance(i, int):
                return None
            k = prov.container_kind(loops[0].iter)
            if k is None or (kind is not None and k != kind):
                return None
            kind = k
            gs = au.guards(st, stop=loops[0])
            val = None
            excluded = []
            for test, pol in gs:
                t = cc.resolve(b, test, at=st, keep=tuple(au.names(loops[0].target)))
                n = arity_guard(t, prov, st)
                if n is None:
                    return None
                if pol and val is None:
                    val = n
                elif not pol:
                    excluded.append(n)
                else:
                    return None
            if i in table:
                return None
            table[i] = val if val is not None else ("else", tuple(sorted(excluded)))
    return kind, table


def medit_count_ok(repo, mod, wb, count_leaf):
    """Is the count written for this block the number of rows the loop writes?  (ok, explanation)"""
    b, prov, loop = wb.b, wb.prov, wb.loop
    e = count_leaf.expr
    if wb.guard_n is None and not wb.other_guards:
        it, _ = cc.strip_enumerate(loop.iter)
        r = cc.resolve(b, e, at=wb.loop)
        ok = isinstance(r, ast.Call) and isinstance(r.func, ast.Name) and r.func.id == "len" and len(r.args) == 1 \
            and au.same(r.args[0], cc.resolve(b, it, at=wb.loop))
        return ok, f"count `{au.src(r)}` vs rows of `{au.src(it)}`"
    if wb.guard_n is None:
        return None, "guarded by an unrecognised condition"
    N = wb.guard_n
    # comprehension forms
    r = e if not isinstance(e, ast.Name) else (b.reaching(e.id, wb.loop) or e)   # original nodes: provenance needs parents
    comp = None
    if isinstance(r, ast.Call) and isinstance(r.func, ast.Name) and r.func.id in ("sum", "len") and len(r.args) == 1 \
            and isinstance(r.args[0], (ast.GeneratorExp, ast.ListComp)):
        comp = r.args[0]
        g = comp.generators[0]
        if len(comp.generators) == 1 and prov.container_kind(g.iter) == wb.kind and len(g.ifs) == 1 \
                and (r.func.id == "len" or au.const(comp.elt) == 1):
            p2 = cc.Prov(wb.fn)
            n = arity_guard(g.ifs[0], p2, g.ifs[0])
            return n == N, f"count of rows with len == {n}"
        return None, "unrecognised count comprehension"
    # name unpacked from a counter function
    if isinstance(e, ast.Name):
        bd = prov.find_binding(e.id, wb.loop)
        if bd and bd[2] == "assign" and isinstance(bd[1], ast.Call) and isinstance(bd[1].func, ast.Name):
            rr = repo.resolve(mod, bd[1].func.id)
            if rr and rr[0] == "def":
                cfn = repo.modules[rr[1]].funcs.get(rr[2])
                ct = count_table(repo, mod, cfn) if cfn is not None else None
                if ct is None:
                    return None, f"{bd[1].func.id} is not a recognisable per-arity counter"
                kind, table = ct
                tgt = bd[0]
                pos = None
                if isinstance(tgt, (ast.Tuple, ast.List)):
                    for i, t in enumerate(tgt.elts):
                        if isinstance(t, ast.Name) and t.id == e.id:
                            pos = i
                if pos is None:
                    return None, "count is not unpacked from the counter result"
                got = table.get(pos)
                return (kind == wb.kind and got == N), \
                    f"`{e.id}` is slot {pos} of {bd[1].func.id}(), which counts mesh.{kind} rows with len == {got}"
    return None, "count expression not recognised"


def run_medit(ctx, repo):
    fmt, mod = "medit", IOMOD["medit"]
    wfn, rfn = repo.func(mod, "export_medit"), repo.func(mod, "import_medit")
    prov, b, wblocks = writer_blocks(fmt, wfn)
    rblocks = reader_blocks(repo, fmt, mod, rfn)
    wsite, rsite = ctx.site(mod, wfn), ctx.site(mod, rfn)
    if repo.has_func(mod, "parse_field"):
        ctx.site(mod, repo.func(mod, "parse_field"))
    floor(ctx, "C04-E1 medit written blocks", len(wblocks), 4, ctx.site(mod, wfn))
    floor(ctx, "C04-E1 medit parsed blocks", len(rblocks), 4, ctx.site(mod, rfn))
    rkey = keyed(rblocks)
    for wb in wblocks:
        site = ctx.site(mod, wfn, wb.write)
        lines = preceding_lines(wb.loop, b)
        kw = cnt = None
        if len(lines) >= 2 and len(lines[-2]) == 1 and lines[-2][0][0] == "lit" and len(lines[-1]) == 1 \
                and lines[-1][0][0] == "leaf":
            kw, cnt = lines[-2][0][1].strip(), lines[-1][0][1]
        if kw is None:
            ctx.fail("C04-E1", site, f"medit: keyword / count lines of the {wb.kind} block not found",
                     "each medit block is `Keyword`, the number of rows, then the rows")
            continue
        N = writer_arity(wb)
        # writer self-consistency: placeholders == arity of the rows selected by the guard
        ctx.check(wb.fields == N and not wb.unknown, "C04-E1", site,
                  f"medit {kw}: rows of {N} indices are written through {wb.fields} placeholder(s)",
                  "str.format silently drops surplus arguments / raises on missing ones: the row in the file does not hold "
                  "the vertices of the element", note=f"medit {kw}: {N} indices per row written")
        # count
        ok, why = medit_count_ok(repo, mod, wb, cnt)
        if ok is None:
            ctx.fail("C04-H1", site, f"medit {kw}: row count not found", why)
        else:
            ctx.check(ok, "C04-H1", site, f"medit {kw}: the count written is not the number of rows written after it",
                      f"{why}; the block writes the rows with len == {N}" if wb.guard_n else why,
                      note=f"medit {kw}: {why}")
        # reader block for this keyword
        rbs = rkey.get(kw, [])
        if not rbs:
            ctx.fail("C04-E1", site, f"medit: section keyword `{kw}` is not recognised by import_medit",
                     f"the {wb.kind} written under `{kw}` are skipped on reload")
            continue
        rb = rbs[0]
        ra = reader_arity(rb)
        rs = ctx.site(mod, rfn, rb.node)
        ctx.check(rb.kind == wb.kind, "C04-E1", rs,
                  f"medit {kw}: written from mesh.{wb.kind}, read into {rb.kind}",
                  f"elements saved as {wb.kind} come back as {rb.kind}", note=f"medit {kw}: {wb.kind} on both sides")
        ctx.check(ra == N and rb.spec.skip == wb.tag_fields, "C04-E1", rs,
                  f"medit {kw}: written with {N} {'coordinates' if wb.kind == 'vertices' else 'indices'} per row, parsed with {ra}",
                  f"import_medit keeps {ra} token(s) of each `{kw}` row (after skipping {rb.spec.skip}) while export_medit writes "
                  f"{N} {'coordinates' if wb.kind == 'vertices' else 'vertex indices'} followed by {wb.trailing} reference token(s): the reloaded {wb.kind[:-1] if wb.kind != 'vertices' else 'vertex'} is not the saved one",
                  note=f"medit {kw}: {N} indices per row on both sides")
        if rb.kind != "vertices":
            cnt_ok = rb.count is not None and any(isinstance(x, ast.Call) and isinstance(x.func, ast.Name) and x.func.id == "int"
                                                  for x in au.walk(cc.resolve(rb.b, rb.count, at=rb.node)))
            ctx.check(cnt_ok, "C04-H1", rs, f"medit {kw}: the number of rows to parse is not read from the count line",
                      "the exporter writes the number of rows on the line after the keyword")
    used_kw = set()
    for wb in wblocks:
        ls = preceding_lines(wb.loop, b)
        if len(ls) >= 2 and len(ls[-2]) == 1 and ls[-2][0][0] == "lit":
            used_kw.add(ls[-2][0][1].strip())
    for c in au.calls(wfn):
        if au.call_tail(c) == "write" and len(c.args) == 1:
            ls = cc.lines_of(cc.flatten(c.args[0], b, c))
            if ls and len(ls[0]) == 1 and ls[0][0][0] == "lit" and ls[0][0][1].strip() in rkey:
                kw = ls[0][0][1].strip()
                ctx.check(kw in used_kw, "C04-E1", ctx.site(mod, wfn, c),
                          f"medit: section `{kw}` is announced but no loop writes its rows",
                          "the importer reads as many rows as the count says from whatever follows",
                          note=f"medit: section {kw} is followed by its rows")
    coordinate_order(ctx, fmt, mod, wfn, wblocks)
    nb = b1_writer_offsets(ctx, fmt, mod, wfn, prov, b) + b1_reader_offsets(ctx, fmt, mod, rblocks)
    floor(ctx, "C04-B1 medit index sites", nb, 3, ctx.site(mod, wfn))
    nl = l1_float_format(ctx, fmt, mod, wfn, prov, b) + l1_reader_floats(ctx, fmt, mod, rblocks)
    floor(ctx, "C04-L1 medit coordinate sites", nl, 2, ctx.site(mod, wfn))
    nv = v1_writer_order(ctx, fmt, mod, wfn, prov, b)
    nv += v1_reader_order(ctx, fmt, mod, [f for q, f in repo.module(mod).funcs.items() if "<locals>" not in q], rblocks, wfn)
    floor(ctx, "C04-V1 medit rows", nv, 2, ctx.site(mod, wfn))


# =========================================================================== obj
def obj_face_writer(wb):
    """`for vid in face: tok = str(vid+1) ...; line += tok + " "` -> fields 'all'; fills wb.offsets / wb.leaves."""
    b, prov, w = wb.b, wb.prov, wb.write
    acc_names = au.names(w.args[0])
    row = wb.loop.target.id if isinstance(wb.loop.target, ast.Name) else None
    for inner in au.stmts(wb.loop.body):
        if not isinstance(inner, ast.For) or not (isinstance(inner.iter, ast.Name) and inner.iter.id == row):
            continue
        for st in au.stmts(inner.body):
            if isinstance(st, ast.AugAssign) and isinstance(st.op, ast.Add) and isinstance(st.target, ast.Name) \
                    and st.target.id in acc_names:
                if au.guards(st, stop=inner):
                    return "the per-vertex token is appended conditionally"
                parts = cc.flatten(st.value, b, st)
                if not parts or parts[0][0] != "leaf":
                    return "the per-vertex token does not start with the vertex index"
                c = prov.classify(parts[0][1].expr, parts[0][1].expr)
                if not (c and c[0] == "elem" and c[1] == wb.kind):
                    return "the per-vertex token does not start with the vertex index"
                if not (parts[-1][0] == "lit" and parts[-1][1] and parts[-1][1][-1].isspace()):
                    return "per-vertex tokens are not separated by white space"
                wb.fields = "all"
                wb.offsets.add(c[2])
                wb.leaves.append(parts[0][1])
                wb.unknown = []
                return None
    return "no loop over the vertices of the face building the `f` line"


def obj_face_reader(repo, mod, fn, rb):
    """faces are staged: `L.append([parse_vertex(t) for t in toks[1:]])` under tag 'f', then
    `for F in L: for (vid, ..) in F: face.append(vid)`; `obj.faces.append(face)`.  Fills rb.spec / rb.keys."""
    b = rb.b
    arg = rb.node.args[0]
    if not isinstance(arg, ast.Name):
        return "appended face is not a local list"
    row = arg.id
    adds = [c for c in au.calls(fn) if au.call_tail(c) == "append" and isinstance(c.func.value, ast.Name)
            and c.func.value.id == row and len(c.args) == 1 and isinstance(c.args[0], ast.Name)]
    if len(adds) != 1:
        return "the vertex ids of a face are not appended one by one to a local list"
    vid = adds[0].args[0].id
    prov = cc.Prov(fn)
    bd = prov.find_binding(vid, adds[0])
    if not bd or bd[2] != "for" or not isinstance(bd[0], (ast.Tuple, ast.List)) or not isinstance(bd[1], ast.Name):
        return "vertex id is not unpacked from the parsed (v, vt, vn) triple"
    pos = [i for i, t in enumerate(bd[0].elts) if isinstance(t, ast.Name) and t.id == vid][0]
    inner = bd[3]
    if au.guards(adds[0], stop=inner):
        return "vertex id appended conditionally"
    bd2 = prov.find_binding(bd[1].id, inner)
    if not bd2 or bd2[2] != "for":
        return "face token list is not iterated from the staged faces"
    src_e, en = cc.strip_enumerate(bd2[1])
    if not isinstance(src_e, ast.Name):
        return "staged faces list not found"
    outer = bd2[3]
    if not any(a is outer for a in au.ancestors(rb.node)) or au.guards(rb.node, stop=outer) \
            or any(isinstance(a, ast.For) and a is not outer for a in au.ancestors(rb.node) if a is not outer and
                   any(x is a for x in au.walk(outer))):
        return "faces are not stored once per staged face"
    stage = [c for c in au.calls(fn) if au.call_tail(c) == "append" and isinstance(c.func.value, ast.Name)
             and c.func.value.id == src_e.id and len(c.args) == 1]
    if len(stage) != 1:
        return "staging append not found"
    comp = stage[0].args[0]
    if not (isinstance(comp, (ast.ListComp, ast.GeneratorExp)) and len(comp.generators) == 1 and not comp.generators[0].ifs
            and isinstance(comp.elt, ast.Call) and isinstance(comp.elt.func, ast.Name)):
        return "staged face is not [parse(token) for token in tokens]"
    rr = repo.resolve(mod, comp.elt.func.id)
    if not rr or rr[0] != "def":
        return "token parser not found"
    g = repo.modules[rr[1]].funcs.get(rr[2])
    gb = sym.Bindings(g)
    rets = [s for s in au.stmts(g.body) if isinstance(s, ast.Return)]
    if len(rets) != 1 or not isinstance(rets[0].value, ast.Tuple) or pos >= len(rets[0].value.elts):
        return "token parser does not return a tuple"
    e = cc.resolve(gb, rets[0].value.elts[pos], at=rets[0])
    conv, off = _conv_of(e)
    # the parsed component is the first '/'-separated field of the token
    sub = [x for x in au.walk(e) if isinstance(x, ast.Subscript) and isinstance(au.const(x.slice), int)]
    if not sub or au.const(sub[0].slice) != 0:
        return "vertex id is not the first '/'-separated field of the token"
    rs = rb.spec
    rs.convs, rs.offsets = ({conv} if conv else set()), ({off} if conv else set())
    it = comp.generators[0].iter
    rs.skip, rs.arity = _slice_info(it.slice) if isinstance(it, ast.Subscript) and isinstance(it.slice, ast.Slice) else (0, ("rest",))
    rs.ok = rs.arity is not None
    rb.keys = branch_keys(stage[0])
    rb.via_fn = g
    return None


def written_tags(fn, b):
    out = {}
    for c in au.calls(fn):
        if au.call_tail(c) == "write" and len(c.args) == 1:
            parts = cc.flatten(c.args[0], b, c)
            if parts and parts[0][0] == "lit" and parts[0][1].split():
                out.setdefault(parts[0][1].split()[0], c)
    return out


def tagged_rules(ctx, fmt, mod, wfn, rfn, wblocks, rblocks, vertices_dim=3):
    """E1 for formats whose rows start with a literal tag (obj) or have no tag at all (xyz, tet/off vertices)."""
    rkey = keyed(rblocks)
    n = 0
    for wb in wblocks:
        if isinstance(wb.tag, tuple):
            continue
        site = ctx.site(mod, wfn, wb.write)
        if wb.tag is not None:
            cands = rkey.get(wb.tag, [])
            if not cands:
                ctx.fail("C04-E1", site, f"{fmt}: rows tagged `{wb.tag}` are written but the importer has no branch for that tag",
                         f"the {wb.kind} of a saved mesh are dropped on reload")
                continue
        else:
            cands = [rb for rb in rblocks if rb.kind == wb.kind and not any(k[0] is not None for k in rb.keys)]
            if not cands:
                ctx.fail("C04-E1", site, f"{fmt}: importer block for {wb.kind} rows not found", "")
                continue
        rb = cands[0]
        rs = ctx.site(mod, rb.fn, rb.node)
        n += 1
        tg = f"`{wb.tag}` " if wb.tag else ""
        if wb.tag is not None:
            for expr, const, pol, test in rb.keys:
                if pol and const == wb.tag and isinstance(expr, ast.Subscript) and isinstance(au.const(expr.slice), int):
                    ctx.check(au.const(expr.slice) == 0, "C04-E1", rs,
                              f"{fmt}: the importer looks for the tag `{wb.tag}` in token {au.const(expr.slice)} of the line, it is "
                              f"written first", "no line of a saved file is recognised as that element",
                              note=f"{fmt}: tag `{wb.tag}` is the first token on both sides")
        # a literal row `(tok[i], tok[j], ..)` takes consecutive tokens
        known = [p_ for p_ in rb.spec.token_positions if p_ is not None]
        if known and len(known) == len(rb.spec.token_positions):
            ctx.check(known == list(range(known[0], known[0] + len(known))), "C04-E1", rs,
                      f"{fmt}: {tg}{wb.kind} row is built from tokens {known}, not from consecutive tokens",
                      "the exporter writes the indices of an element one after the other",
                      note=f"{fmt}: {tg}row read from consecutive tokens")
        ctx.check(rb.kind == wb.kind, "C04-E1", rs, f"{fmt}: {tg}rows are written from mesh.{wb.kind} and read into {rb.kind}",
                  f"elements saved as {wb.kind} come back as {rb.kind}", note=f"{fmt}: {tg}rows are {wb.kind} on both sides")
        wa, ra = writer_arity(wb), reader_arity(rb)
        if wa == "all" and wb.kind == "vertices":
            wa = vertices_dim
        if ra == "rest" and wb.kind == "vertices" and wb.trailing == 0:
            ra = wa
        if ra == "rest" and wb.trailing == 0:
            ra = wa
        ctx.check(wa == ra and not wb.unknown, "C04-E1", rs,
                  f"{fmt}: {tg}{wb.kind} rows are written with {wa} value(s) and parsed with {ra}",
                  f"the importer keeps {ra} token(s) per row, the exporter writes {wa}"
                  f"{' followed by ' + str(wb.trailing) + ' more token(s)' if wb.trailing else ''}",
                  note=f"{fmt}: {tg}{wb.kind} rows carry {wa} value(s) on both sides")
        ctx.check(rb.spec.skip == wb.tag_fields, "C04-E1", rs,
                  f"{fmt}: {tg}{wb.kind} rows start with {wb.tag_fields} tag token(s), the importer skips {rb.spec.skip}",
                  "a tag parsed as a value (or a value skipped as a tag) shifts every row",
                  note=f"{fmt}: {wb.tag_fields} leading tag token(s) on both sides")
    return n


def run_obj(ctx, repo):
    fmt, mod = "obj", IOMOD["obj"]
    wfn, rfn = repo.func(mod, "export_obj"), repo.func(mod, "parse_obj_data")
    ifn = repo.func(mod, "import_obj")
    isite = ctx.site(mod, ifn)
    ctx.check(any(au.call_tail(c) == "parse_obj_data" for c in au.calls(ifn)), "C04-E1", isite,
              "import_obj does not parse the file with parse_obj_data", "")
    prov, b, wblocks = writer_blocks(fmt, wfn)
    rblocks = reader_blocks(repo, fmt, mod, rfn)
    floor(ctx, "C04-E1 obj written blocks", len(wblocks), 3, ctx.site(mod, wfn))
    floor(ctx, "C04-E1 obj parsed blocks", len(rblocks), 3, ctx.site(mod, rfn))
    for wb in wblocks:
        if wb.kind == "faces" and wb.unknown:
            err = obj_face_writer(wb)
            if err:
                ctx.fail("C04-E1", ctx.site(mod, wfn, wb.write), f"obj: `f` line construction not found", err)
                wblocks = [x for x in wblocks if x is not wb]
    for rb in list(rblocks):
        if rb.kind == "faces" and not rb.spec.ok:
            err = obj_face_reader(repo, mod, rfn, rb)
            if err:
                ctx.fail("C04-E1", ctx.site(mod, rfn, rb.node), "obj: parsing of `f` lines into faces not found", err)
                rblocks = [x for x in rblocks if x is not rb]
    # every tag written is known to the importer
    rtags = {}
    for n_ in au.walk(rfn):
        if isinstance(n_, ast.Compare) and len(n_.ops) == 1 and isinstance(n_.ops[0], ast.Eq):
            for x in (n_.left, n_.comparators[0]):
                if isinstance(x, ast.Constant) and isinstance(x.value, str):
                    rtags[x.value] = n_
    wt = written_tags(wfn, b)
    floor(ctx, "C04-E1 obj tags", len(wt), 3, ctx.site(mod, wfn))
    for t, c in sorted(wt.items()):
        ctx.check(t in rtags, "C04-E1", ctx.site(mod, wfn, c), f"obj: lines tagged `{t}` are written but not recognised by the importer",
                  "the data on those lines is lost on reload", note=f"obj: tag `{t}` known to the importer")
    tagged_rules(ctx, fmt, mod, wfn, rfn, wblocks, rblocks)
    coordinate_order(ctx, fmt, mod, wfn, wblocks)
    nb = b1_writer_offsets(ctx, fmt, mod, wfn, prov, b) + b1_reader_offsets(ctx, fmt, mod, rblocks)
    floor(ctx, "C04-B1 obj index sites", nb, 2, ctx.site(mod, wfn))
    nl = l1_float_format(ctx, fmt, mod, wfn, prov, b) + l1_reader_floats(ctx, fmt, mod, rblocks)
    floor(ctx, "C04-L1 obj coordinate sites", nl, 2, ctx.site(mod, wfn))
    nv = v1_writer_order(ctx, fmt, mod, wfn, prov, b)
    nv += v1_reader_order(ctx, fmt, mod, [f for q, f in repo.module(mod).funcs.items() if "<locals>" not in q], rblocks, wfn)
    floor(ctx, "C04-V1 obj rows", nv, 1, ctx.site(mod, wfn))


# =========================================================================== off / tet  (rows tagged with their length)
TAG_DOMAIN = range(2, 9)      # finite tag domain over which importer branch tests are evaluated


class _TagSubst(ast.NodeTransformer):
    def __init__(self, key):
        self.key = key

    def generic_visit(self, node):
        if isinstance(node, ast.expr) and au.norm(node) == self.key:
            return ast.Name(id="__tag", ctx=ast.Load())
        return super().generic_visit(node)


def tag_expression(rblocks):
    """The expression the importer branches on (left operand shared by the comparisons guarding the element
    appends), e.g. `nvi`."""
    count = {}
    for rb in rblocks:
        if rb.kind == "vertices":
            continue
        for test, pol in au.guards(rb.node):
            for c in au.walk(test):
                if isinstance(c, ast.Compare):
                    for side in [c.left] + list(c.comparators):
                        if not isinstance(side, (ast.Constant, ast.Tuple, ast.List, ast.Set)):
                            count.setdefault(au.norm(side), [0, side])[0] += 1
    if not count:
        return None
    return max(count.values(), key=lambda v: v[0])[1]


def branch_reads_tag(rb, tag_e, t):
    """True / False / None (a guard on the tag could not be evaluated) : does the importer block run for tag t?"""
    key = au.norm(tag_e)
    for test, pol in au.guards(rb.node):
        mentions = any(au.norm(x) == key for x in au.walk(test) if isinstance(x, ast.expr))
        if not mentions:
            continue
        v = cc.eval_test(_TagSubst(key).visit(cc.clean(test)), {"__tag": t})
        if v is None:
            return None
        if bool(v) != pol:
            return False
    return True


def arity_for_tag(rb, tag_e, t):
    a = rb.spec.arity
    if a is None:
        return None
    if a[0] == "const":
        return a[1]
    if a[0] == "rest":
        return t
    if a[0] == "symoff":
        base = arity_for_tag(RBlock(spec=type("S", (), {"arity": ("sym", a[1])})(), b=rb.b, node=rb.node), tag_e, t)
        return base + a[2] if isinstance(base, int) else ("sym", a[1])
    if a[0] == "sym":
        if isinstance(tag_e, ast.Name) and tag_e.id == a[1]:
            return t
        d = rb.b.reaching(a[1], rb.node)
        if d is not None and au.norm(d) == au.norm(tag_e):
            return t
    return ("sym", a[1])


def len_tagged_rules(ctx, fmt, mod, wfn, rfn, wblocks, rblocks, domain):
    """Rows written as `len(row) v0 v1 ..`: for every tag t the exporter can write, which importer branch runs
    (its test evaluated for t over a finite tag domain), and does it store the same kind with t vertices."""
    n = 0
    tag_e = tag_expression(rblocks)
    if tag_e is not None and any(isinstance(wb.tag, tuple) for wb in wblocks):
        # the tag is the first token of the row on both sides
        rb0 = next(rb for rb in rblocks if rb.kind != "vertices")
        te = cc.resolve(rb0.b, tag_e, at=rb0.node)
        subs = [x for x in au.walk(te) if isinstance(x, ast.Subscript) and isinstance(au.const(x.slice), int)]
        if subs:
            ctx.check(au.const(subs[0].slice) == 0, "C04-E1", ctx.site(mod, rfn),
                      f"{fmt}: the row tag is read from token {au.const(subs[0].slice)}, the exporter writes the length first",
                      "a vertex index is taken for the number of vertices of the row", note=f"{fmt}: row tag = first token")
    for wb in wblocks:
        if not isinstance(wb.tag, tuple):
            continue
        site = ctx.site(mod, wfn, wb.write)
        ctx.check(wb.fields == "all" and not wb.unknown, "C04-E1", site,
                  f"{fmt}: a {wb.kind} row tagged with its length does not list all its vertices", "",
                  note=f"{fmt}: {wb.kind} row = len, then every vertex")
        arities = [wb.guard_n] if wb.guard_n is not None else [t for t in TAG_DOMAIN if t >= domain[wb.kind]]
        dropped = []
        for a in arities:
            n += 1
            cands, unknown = [], False
            for rb in rblocks:
                if rb.kind == "vertices":
                    continue
                r = True if tag_e is None else branch_reads_tag(rb, tag_e, a)
                if r is None:
                    unknown = True
                elif r:
                    cands.append(rb)
            if unknown:
                ctx.fail("C04-E1", ctx.site(mod, rfn), f"{fmt}: importer branch test on the row tag not understood",
                         f"cannot evaluate the test for tag {a}")
                break
            if not cands:
                dropped.append(a)
                continue
            rb = cands[0]
            rs = ctx.site(mod, rb.fn, rb.node)
            ra = arity_for_tag(rb, tag_e, a) if tag_e is not None else (a if rb.spec.arity == ("rest",) else reader_arity(rb))
            ok_kind = rb.kind == wb.kind
            ctx.check(ok_kind, "C04-E1", rs,
                      f"{fmt}: a {wb.kind[:-1]} with {a} vertices is written with tag {a}, which the importer reads as a {rb.kind[:-1]}",
                      f"saved {wb.kind} with {a} vertices come back as {rb.kind}: the loaded object is not the saved one "
                      f"(and has the class its {rb.kind} imply)", note=f"{fmt}: tag {a} is a {wb.kind[:-1]} on both sides")
            if ok_kind:
                ctx.check(ra == a and rb.spec.skip == wb.tag_fields, "C04-E1", rs,
                          f"{fmt}: a {wb.kind[:-1]} with {a} vertices is parsed with {ra} vertices after skipping {rb.spec.skip} token(s)",
                          f"the exporter writes {wb.tag_fields} length token then {a} indices",
                          note=f"{fmt}: tag {a}: {a} indices after {wb.tag_fields} tag token")
        if dropped:
            lab = ", ".join(map(str, dropped)) + (" (and more)" if dropped[-1] == TAG_DOMAIN[-1] else "")
            ctx.fail("C04-E1", site,
                     f"{fmt}: {wb.kind} with {lab} vertices are written (tag = len) but no importer branch reads those tags",
                     f"a {wb.kind[:-1]} with that many vertices is silently dropped on reload")
    return n


def run_off(ctx, repo):
    fmt, mod = "off", IOMOD["off"]
    wfn, rfn = repo.func(mod, "export_off"), repo.func(mod, "parse_off_data")
    ifn = repo.func(mod, "import_off")
    ctx.check(any(au.call_tail(c) == "parse_off_data" for c in au.calls(ifn)), "C04-E1", ctx.site(mod, ifn),
              "import_off does not parse the file with parse_off_data", "")
    prov, b, wblocks = writer_blocks(fmt, wfn)
    rblocks = reader_blocks(repo, fmt, mod, rfn)
    floor(ctx, "C04-E1 off written blocks", len(wblocks), 2, ctx.site(mod, wfn))
    floor(ctx, "C04-E1 off parsed blocks", len(rblocks), 2, ctx.site(mod, rfn))
    # magic line
    magic_w = [t for t in written_tags(wfn, b)]
    magic_r = [x.value for x in au.walk(rfn) if isinstance(x, ast.Constant) and isinstance(x.value, str) and x.value.isupper()]
    ctx.check(bool(magic_w) and magic_w[0] in magic_r, "C04-E1", ctx.site(mod, wfn),
              f"off: first line written {magic_w[:1]} is not the header the importer requires {magic_r[:1]}",
              "the importer raises on a missing header", note="off: OFF magic line on both sides")
    tagged_rules(ctx, fmt, mod, wfn, rfn, wblocks, rblocks)
    len_tagged_rules(ctx, fmt, mod, wfn, rfn, wblocks, rblocks, {"faces": 3, "cells": 4})
    h1_flat_header(ctx, fmt, mod, wfn, rfn, prov, b, wblocks)
    nb = b1_writer_offsets(ctx, fmt, mod, wfn, prov, b) + b1_reader_offsets(ctx, fmt, mod, rblocks)
    floor(ctx, "C04-B1 off index sites", nb, 1, ctx.site(mod, wfn))
    nl = l1_float_format(ctx, fmt, mod, wfn, prov, b) + l1_reader_floats(ctx, fmt, mod, rblocks)
    floor(ctx, "C04-L1 off coordinate sites", nl, 2, ctx.site(mod, wfn))
    nv = v1_writer_order(ctx, fmt, mod, wfn, prov, b)
    nv += v1_reader_order(ctx, fmt, mod, [f for q, f in repo.module(mod).funcs.items() if "<locals>" not in q], rblocks, wfn)
    floor(ctx, "C04-V1 off rows", nv, 1, ctx.site(mod, wfn))


def run_tet(ctx, repo):
    fmt, mod = "tet", IOMOD["tet"]
    wfn, rfn = repo.func(mod, "export_tet"), repo.func(mod, "parse_tet_data")
    ifn = repo.func(mod, "import_tet")
    ctx.check(any(au.call_tail(c) == "parse_tet_data" for c in au.calls(ifn)), "C04-E1", ctx.site(mod, ifn),
              "import_tet does not parse the file with parse_tet_data", "")
    prov, b, wblocks = writer_blocks(fmt, wfn)
    rblocks = reader_blocks(repo, fmt, mod, rfn)
    floor(ctx, "C04-E1 tet written blocks", len(wblocks), 2, ctx.site(mod, wfn))
    floor(ctx, "C04-E1 tet parsed blocks", len(rblocks), 2, ctx.site(mod, rfn))
    tagged_rules(ctx, fmt, mod, wfn, rfn, wblocks, rblocks)
    len_tagged_rules(ctx, fmt, mod, wfn, rfn, wblocks, rblocks, {"cells": 4, "faces": 3})
    h1_flat_header(ctx, fmt, mod, wfn, rfn, prov, b, wblocks)
    # the count is the first token of its header line (the importer takes token 0)
    for kind, lf, c, tok in header_counts_writer(wfn, prov, b, wblocks):
        ctx.check(tok == 0, "C04-H1", ctx.site(mod, wfn, c), f"tet: the number of {kind} is token #{tok} of its header line",
                  "the importer parses the first token of each header line as the count",
                  note=f"tet: count of {kind} leads its header line")
    nb = b1_writer_offsets(ctx, fmt, mod, wfn, prov, b) + b1_reader_offsets(ctx, fmt, mod, rblocks)
    floor(ctx, "C04-B1 tet index sites", nb, 1, ctx.site(mod, wfn))
    nl = l1_float_format(ctx, fmt, mod, wfn, prov, b) + l1_reader_floats(ctx, fmt, mod, rblocks)
    floor(ctx, "C04-L1 tet coordinate sites", nl, 2, ctx.site(mod, wfn))
    nv = v1_writer_order(ctx, fmt, mod, wfn, prov, b)
    nv += v1_reader_order(ctx, fmt, mod, [f for q, f in repo.module(mod).funcs.items() if "<locals>" not in q], rblocks, wfn)
    floor(ctx, "C04-V1 tet rows", nv, 1, ctx.site(mod, wfn))


def run_xyz(ctx, repo):
    fmt, mod = "xyz", IOMOD["xyz"]
    wfn, rfn = repo.func(mod, "export_xyz"), repo.func(mod, "import_xyz")
    prov, b, wblocks = writer_blocks(fmt, wfn)
    rblocks = reader_blocks(repo, fmt, mod, rfn)
    floor(ctx, "C04-E1 xyz written blocks", len(wblocks), 1, ctx.site(mod, wfn))
    floor(ctx, "C04-E1 xyz parsed blocks", len(rblocks), 1, ctx.site(mod, rfn))
    # normals ride after the coordinates: 3 + 3 tokens, read back as [3:6]
    rb_ = sym.Bindings(rfn)
    stage = [(c, rowspec(c.args[0], rb_, c)) for c in au.calls(rfn)
             if au.call_tail(c) == "append" and isinstance(c.func.value, ast.Name) and len(c.args) == 1]
    for wb in wblocks:
        extra = len(wb.unknown)
        if extra:
            wb.unknown = []
            ok = any(rs.ok and rs.skip == wb.fields and rs.arity == ("const", extra) for c, rs in stage)
            for c, rs in stage:
                if rs.ok and rs.skip == wb.fields:
                    for test, pol in au.guards(c):
                        lens = [x for x in au.walk(test) if isinstance(x, ast.Call) and isinstance(x.func, ast.Name) and x.func.id == "len"]
                        if len(lens) == 1:
                            v = cc.eval_test(_TagSubst(au.norm(lens[0])).visit(cc.clean(test)), {"__tag": wb.fields + extra})
                            if v is not None:
                                ctx.check(bool(v) == pol, "C04-E1", ctx.site(mod, rfn, c),
                                          f"xyz: a line of {wb.fields + extra} values (point and normal) does not pass the importer's test "
                                          f"for lines carrying a normal", f"`{au.src(test)}` with {wb.fields + extra} tokens",
                                          note=f"xyz: {wb.fields + extra}-token lines are read as point + normal")
            ctx.check(ok, "C04-E1", ctx.site(mod, wfn, wb.write),
                      f"xyz: {extra} extra value(s) are written after the {wb.fields} coordinates but the importer does not read "
                      f"tokens [{wb.fields}:{wb.fields + extra}] back", "normals written next to the points are lost or mis-sliced",
                      note=f"xyz: normals = tokens [{wb.fields}:{wb.fields + extra}] on both sides")
            wb.trailing = extra
    for wb in wblocks:
        if not rblocks:
            break
        rb = rblocks[0]
        ctx.check(reader_arity(rb) == wb.fields and rb.spec.skip == 0, "C04-E1", ctx.site(mod, rfn, rb.node),
                  f"xyz: {wb.fields} coordinates are written per point, the importer keeps {reader_arity(rb)} after skipping {rb.spec.skip}",
                  "", note="xyz: 3 coordinates per point on both sides")
    coordinate_order(ctx, fmt, mod, wfn, wblocks)
    nl = l1_float_format(ctx, fmt, mod, wfn, prov, b) + l1_reader_floats(ctx, fmt, mod, rblocks)
    floor(ctx, "C04-L1 xyz coordinate sites", nl, 2, ctx.site(mod, wfn))


# =========================================================================== geogram
def chunk_writes(fn, b):
    """[(write call, kind '[ATTR]'|'[ATTS]'|'[HEAD]', header lines (each a list of parts))] of an exporter."""
    out = []
    for c in sorted((c for c in au.calls(fn) if au.call_tail(c) == "write" and len(c.args) == 1),
                    key=lambda c: (c.lineno, c.col_offset)):
        parts = cc.flatten(c.args[0], b, c)
        if parts and parts[0][0] == "lit" and parts[0][1].startswith("["):
            lines = cc.lines_of(parts)
            tag = lines[0][0][1].strip() if lines and lines[0] and lines[0][0][0] == "lit" else None
            out.append((c, tag, lines))
    return out


def line_literal(line):
    """text of a header line if it is fully literal (quotes stripped separately by the caller)"""
    if len(line) == 1 and line[0][0] == "lit":
        return line[0][1].strip()
    return None


def writer_type_fields(repo):
    """In export_attribute: line index / quoting of each role of the [ATTR] header."""
    fn = repo.func(GEO, "export_attribute")
    b = sym.Bindings(fn)
    header = None
    for c, tag, lines in chunk_writes(fn, b):
        if tag == "[ATTR]":
            header = (c, cc.flatten(c.args[0], b, c))
            break
    if header is None:
        return fn, None, None, None
    c, parts = header
    roles = {}
    line = 0
    for i, p in enumerate(parts):
        if p[0] == "lit":
            line += p[1].count("\n")
            continue
        if p[0] != "leaf":
            continue
        e = p[1].expr
        prev = parts[i - 1][1] if i and parts[i - 1][0] == "lit" else ""
        nxt = parts[i + 1][1] if i + 1 < len(parts) and parts[i + 1][0] == "lit" else ""
        quoted = prev.endswith('"') and nxt.startswith('"')
        role = None
        if isinstance(e, ast.Call) and au.call_tail(e) in ("to_string", "byte_size"):
            role = au.call_tail(e)
        elif isinstance(e, ast.Attribute) and e.attr == "elemsize":
            role = "elemsize"
        elif isinstance(e, ast.Name) and e.id in au.params(fn):
            role = "param:" + e.id
        if role:
            roles[role] = (line, quoted, p[1])
    n_lines = sum(p[1].count("\n") for p in parts if p[0] == "lit")
    return fn, roles, n_lines, c


def chunk_reader_fields(repo):
    """Chunk.__init__: {field: (line index, conversion tail)} and the first payload line."""
    fn = repo.func(GEO, "Chunk.__init__")
    data = au.params(fn, skip_self=True)[0]
    fields, start = {}, set()
    for st in au.stmts(fn.body):
        tg = None
        if isinstance(st, ast.Assign) and len(st.targets) == 1:
            tg, val = st.targets[0], st.value
        elif isinstance(st, ast.AnnAssign) and st.value is not None:
            tg, val = st.target, st.value
        if tg is None or not au.is_self_attr(tg):
            continue
        subs = [x for x in au.walk(val) if isinstance(x, ast.Subscript) and isinstance(x.value, ast.Name) and x.value.id == data]
        if len(subs) != 1:
            continue
        sub = subs[0]
        if isinstance(sub.slice, ast.Slice):
            if sub.slice.upper is None and isinstance(au.const(sub.slice.lower), int):
                start.add(au.const(sub.slice.lower))
            conv = None
            if isinstance(val, (ast.ListComp, ast.GeneratorExp)):
                conv = au.src(val.elt)
            fields.setdefault(tg.attr + "[]", []).append((au.const(sub.slice.lower), conv, st))
            continue
        k = au.const(sub.slice)
        conv = au.call_tail(val) if isinstance(val, ast.Call) else None
        fields[tg.attr] = (k, conv, st)
    return fn, fields, start


def reader_special_chunks(repo, rfn):
    """Branches `chk.container == Chunk.Container.X and chk.name == "N"` of the importer main loop:
    [(member name X, chunk name without quotes, If node, asserted arity, kinds appended)]"""
    out = []
    for st in au.stmts(rfn.body):
        if not isinstance(st, ast.If):
            continue
        X = N = None
        tests = st.test.values if isinstance(st.test, ast.BoolOp) and isinstance(st.test.op, ast.And) else [st.test]
        for t in tests:
            if isinstance(t, ast.Compare) and len(t.ops) == 1 and isinstance(t.ops[0], ast.Eq):
                l, r = t.left, t.comparators[0]
                if isinstance(l, ast.Attribute) and l.attr == "container" and isinstance(r, ast.Attribute):
                    X = r.attr
                if isinstance(l, ast.Attribute) and l.attr == "name" and isinstance(r, ast.Constant) and isinstance(r.value, str):
                    N = r.value
        if X is None or N is None:
            continue
        arity = None
        for s in st.body:
            if isinstance(s, ast.Assert) and isinstance(s.test, ast.Compare) and isinstance(s.test.left, ast.Attribute) \
                    and isinstance(au.const(s.test.comparators[0]), int) and isinstance(s.test.ops[0], ast.Eq):
                arity = (s.test.left.attr, au.const(s.test.comparators[0]))
        kinds = [container_append_kind(c) for s in st.body for c in au.calls(s) if container_append_kind(c)]
        out.append((X, N.strip('"'), st, arity, kinds))
    return out


def arity_tables(repo, rfn):
    """For the variable-arity kinds: the chunk name whose presence gives the per-element arity, and the arity assumed
    when it is absent: {kind: (chunk name, default arity, node)}"""
    b = sym.Bindings(rfn)
    out = {}
    for c in au.calls(rfn):
        kind = container_append_kind(c)
        if kind not in ("faces", "cells") or len(c.args) != 1:
            continue
        row = cc.resolve(b, c.args[0], at=c)
        if not (isinstance(row, (ast.ListComp, ast.GeneratorExp)) and len(row.generators) == 1):
            continue
        it = row.generators[0].iter
        if not (isinstance(it, ast.Call) and au.call_tail(it) == "range" and len(it.args) == 1
                and isinstance(it.args[0], ast.Subscript) and isinstance(it.args[0].value, ast.Name)):
            continue
        table = it.args[0].value.id
        # default: table = [k] * n   under `len(table) == 0`
        default, name, node = None, None, None
        for st in au.stmts(rfn.body):
            if isinstance(st, ast.Assign) and len(st.targets) == 1 and isinstance(st.targets[0], ast.Name) \
                    and st.targets[0].id == table and isinstance(st.value, ast.BinOp) and isinstance(st.value.op, ast.Mult):
                for side in (st.value.left, st.value.right):
                    if isinstance(side, ast.List) and len(side.elts) == 1 and isinstance(au.const(side.elts[0]), int):
                        default, node = au.const(side.elts[0]), st
        # filler: table.append(..) under `chk.name == "<chunk name>"`
        names, loop_names = set(), set()
        for a in au.calls(rfn):
            if au.call_tail(a) == "append" and isinstance(a.func.value, ast.Name) and a.func.value.id == table:
                for test, pol in au.guards(a):
                    if not pol:
                        continue
                    for t in au.walk(test):
                        if isinstance(t, ast.Compare) and isinstance(t.left, ast.Attribute) and t.left.attr == "name" \
                                and isinstance(t.comparators[0], ast.Constant) and isinstance(t.comparators[0].value, str):
                            nm = t.comparators[0].value.strip('"')
                            names.add(nm)
                            owner = next((i_ for i_ in au.ancestors(a) if isinstance(i_, ast.If) and i_.test is test), None)
                            in_loop = owner is not None and any(
                                isinstance(x, ast.For) and any(y is owner for y in au.ancestors(x)) for x in au.ancestors(a))
                            if in_loop:
                                loop_names.add(nm)
        main = sorted(loop_names) or sorted(names)
        extra = sorted(n_ for n_ in names if n_ not in main)
        # the container whose element count bounds the fill loop (`range(container_sizes[Chunk.Container.X] - 1)`)
        cont = None
        for a in au.calls(rfn):
            if au.call_tail(a) == "append" and isinstance(a.func.value, ast.Name) and a.func.value.id == table:
                for lp in [x for x in au.ancestors(a) if isinstance(x, ast.For)][:1]:
                    for x in au.walk(lp.iter):
                        if isinstance(x, ast.Subscript) and isinstance(x.slice, ast.Attribute):
                            cont = cont or x.slice.attr
        out[kind] = (main, default, node, table, extra, cont)
        continue
        out[kind] = (sorted(names), default, node, table)
    return out


def payload_after(call):
    """The loop that follows a chunk header write in the same block (None if the next statement is not a loop)."""
    st = au.enclosing_stmt(call)
    blk, _ = au.enclosing_block(st)
    if not blk:
        return None
    idx = [id(x) for x in blk].index(id(st))
    for nxt in blk[idx + 1:]:
        if isinstance(nxt, ast.For):
            return nxt
        if not isinstance(nxt, (ast.Assign, ast.AnnAssign)):
            return None
    return None


def values_per_iteration(loop, b):
    """(number of values written per outer iteration | ('nested', inner iter src), leaves, write calls)"""
    ws = [c for c in au.calls(loop) if au.call_tail(c) == "write" and len(c.args) == 1]
    n, leaves = 0, []
    nested = None
    for w in ws:
        inner = [a for a in au.ancestors(w) if isinstance(a, ast.For) and a is not loop and any(x is a for x in au.walk(loop))]
        parts = cc.flatten(w.args[0], b, w)
        k = sum(1 for p in parts if p[0] == "leaf")
        leaves += [p[1] for p in parts if p[0] == "leaf"]
        if inner:
            nested = inner[0]
        n += k
    return n, nested, leaves, ws


def eval_type_guard(test, member, extra=None):
    """Value of a condition on the attribute type (`x.type == Attribute.Type.Bool`, `in (..)`, and/or/not) when the
    type is the enum member named `member`; `extra(test)` may decide other atoms; None = not about the type."""
    if isinstance(test, ast.BoolOp):
        vals = [eval_type_guard(v, member, extra) for v in test.values]
        return _and3(vals) if isinstance(test.op, ast.And) else _or3(vals)
    if isinstance(test, ast.UnaryOp) and isinstance(test.op, ast.Not):
        v = eval_type_guard(test.operand, member, extra)
        return None if v is None else (not v)
    if isinstance(test, ast.Compare) and len(test.ops) == 1:
        l, r, op = test.left, test.comparators[0], test.ops[0]

        def mem(x):
            if isinstance(x, ast.Attribute) and isinstance(x.value, ast.Attribute) and x.value.attr == "Type" \
                    and x.attr in ("Bool", "Int", "Float", "Complex", "String"):
                return x.attr
            return None

        def is_type_expr(x):
            return isinstance(x, ast.Attribute) and x.attr in ("type", "data_type")
        for a, c in ((l, r), (r, l)):
            if is_type_expr(a):
                if mem(c) is not None and isinstance(op, (ast.Eq, ast.NotEq, ast.Is, ast.IsNot)):
                    v = mem(c) == member
                    return v if isinstance(op, (ast.Eq, ast.Is)) else (not v)
                if isinstance(c, (ast.Tuple, ast.List, ast.Set)) and all(mem(e) for e in c.elts) and isinstance(op, (ast.In, ast.NotIn)) and a is l:
                    v = member in [mem(e) for e in c.elts]
                    return v if isinstance(op, ast.In) else (not v)
    return extra(test) if extra else None


def branch_runs(node, member, stop=None, extra=None):
    """True / False / None: can `node` execute when the attribute type is `member` (guards not about the type ignored)."""
    vals = []
    for t, pol in au.guards(node, stop=stop):
        v = eval_type_guard(t, member, extra)
        vals.append(None if v is None else (v == pol))
    return _and3(vals or [True])


def payload_conversions(fields):
    """{type member name: source of the conversion applied to each payload token in Chunk.__init__}"""
    out = {}
    for T in ("Bool", "Int", "Float", "Complex", "String"):
        for lo, conv, st in fields.get("data[]", []):
            if branch_runs(st, T) is not False:
                out[T] = conv or "<raw>"
                out[T + ":stmt"] = st
                break
    return out


def _unquote(txt):
    return txt.strip().strip('"')


def _range_arg(loop):
    it = loop.iter
    if isinstance(it, ast.Call) and au.call_tail(it) == "range" and len(it.args) == 1:
        return it.args[0]
    return None


def geogram_reader_tables(ctx, repo, rfn):
    """Importer-side tables: Chunk fields by role, connectivity branches, container -> mesh field."""
    mod = GEO
    cfn, fields, start = chunk_reader_fields(repo)
    special = reader_special_chunks(repo, rfn)
    member_field = {}
    for n_ in au.walk(rfn):
        if isinstance(n_, ast.Dict) and n_.keys and all(isinstance(k, ast.Attribute) for k in n_.keys) \
                and all(isinstance(v, ast.Attribute) for v in n_.values):
            member_field = {k.attr: v.attr for k, v in zip(n_.keys, n_.values)}
    role_field = {}
    for f_, v in fields.items():
        if f_.endswith("[]"):
            continue
        k, conv, st = v
        if conv == "from_string":
            role_field["container" if "Container" in au.src(st.value.func) else "type"] = f_
    for c in au.calls(rfn):
        if au.call_tail(c) == "create_attribute" and len(c.args) >= 3 and isinstance(c.args[2], ast.Attribute) \
                and isinstance(c.args[1], ast.Attribute) and c.args[1].attr == role_field.get("type"):
            role_field["arity"] = c.args[2].attr
            nm = [x.attr for x in au.walk(c.args[0]) if isinstance(x, ast.Attribute) and x.attr in fields]
            if nm:
                role_field["name"] = nm[0]
    return cfn, fields, start, special, member_field, role_field


def g1_header_layout(ctx, repo, wfn, afn, fields, start, role_field):
    """[ATTR] header written by export_attribute vs the lines Chunk.__init__ indexes; payload shape; Bool text."""
    mod = GEO
    asite = ctx.site(mod, afn)
    _, roles, n_lines, hdr = writer_type_fields(repo)
    if not roles or not {"container", "type", "arity", "name"} <= set(role_field):
        ctx.fail("C04-G1", asite, "geogram: [ATTR] header layout not found",
                 f"writer roles {sorted(roles or [])}, reader roles {sorted(role_field)}")
        return roles, None
    calls = [c for c in au.calls(wfn) if au.call_tail(c) == "export_attribute"]
    floor(ctx, "C04-G1 export_attribute call sites", len(calls), 1, asite)
    aps = au.params(afn)
    lit_pos = {i for c in calls for i, a in enumerate(c.args) if isinstance(a, ast.Constant) and isinstance(a.value, str)}
    cont_param = aps[min(lit_pos)] if len(lit_pos) == 1 else None
    key_pos = set()
    for c in calls:
        lp = [a for a in au.ancestors(c) if isinstance(a, ast.For)]
        if lp and isinstance(lp[0].target, ast.Name):
            key_pos |= {i for i, a in enumerate(c.args) if isinstance(a, ast.Name) and a.id == lp[0].target.id}
    name_param = aps[min(key_pos)] if len(key_pos) == 1 else None
    pairs = [("type", "to_string"), ("arity", "elemsize"), ("container", "param:" + str(cont_param)),
             ("name", "param:" + str(name_param))]
    for rrole, wrole in pairs:
        rk = fields[role_field[rrole]][0]
        wl = roles.get(wrole, (None,))[0]
        ctx.check(wl == rk, "C04-G1", asite,
                  f"geogram: the {rrole} of an attribute is written on header line {wl} and read from line {rk}",
                  f"Chunk.__init__ takes self.{role_field[rrole]} from line {rk} of the chunk; a user attribute comes back "
                  f"with the wrong {rrole} or fails to parse", note=f"geogram [ATTR] header: {rrole} on line {rk}")
    ctx.check(start == {n_lines}, "C04-G1", asite,
              f"geogram: attribute values start on line {n_lines} of the chunk, the importer reads them from line {sorted(start)}",
              "header lines parsed as values (or values skipped)", note=f"geogram [ATTR] payload starts on line {n_lines}")
    # payload: dense, element-major, `elemsize` values per element
    ab = sym.Bindings(afn)
    outer = [st for st in afn.body if isinstance(st, ast.For)]
    ok, nvals = False, 0
    if len(outer) == 1 and isinstance(_range_arg(outer[0]), ast.Name) and _range_arg(outer[0]).id in aps \
            and isinstance(outer[0].target, ast.Name):
        i = outer[0].target.id
        ok = True
        for w in [c for c in au.calls(outer[0]) if au.call_tail(c) == "write" and len(c.args) == 1]:
            parts = cc.flatten(w.args[0], ab, w)
            lv = [p_[1] for p_ in parts if p_[0] == "leaf"]
            inner = [a for a in au.ancestors(w) if isinstance(a, ast.For) and a is not outer[0]
                     and any(x is a for x in au.walk(outer[0]))]
            for lf in lv:
                nvals += 1
                subs = [x for x in au.walk(lf.expr) if isinstance(x, ast.Subscript)]
                idx = [au.src(x.slice) for x in sorted(subs, key=lambda x: len(au.src(x)))]
                if inner:
                    j = inner[0].target.id if isinstance(inner[0].target, ast.Name) else None
                    good = idx[:2] == [i, j] and _range_arg(inner[0]) is not None \
                        and au.same(_range_arg(inner[0]), roles["elemsize"][2].expr)
                else:
                    good = idx[:1] == [i] and len(idx) == 1
                ok = ok and good and len(lv) == 1
    ctx.check(ok and nvals >= 2, "C04-G1", asite,
              "geogram: export_attribute does not write attr[i] (or attr[i][0..elemsize-1]) for every i in range(size)",
              "the importer assigns value group k to element k; a sparse / transposed dump attaches values to the wrong elements",
              note="geogram: attribute payload is dense and element-major")
    # value text per type: Bool through int() (the importer parses bool(int(token))), Int/Float never through int()/round()
    reader_conv = payload_conversions(fields)
    nb = 0
    if len(outer) == 1:
        size_expr = roles["elemsize"][2].expr

        def size_atom(n_):
            def ex(t):
                if any(au.same(x, size_expr) for x in au.walk(t)):
                    return cc.eval_test(_TagSubst(au.norm(size_expr)).visit(cc.clean(t)), {"__tag": n_})
                return None
            return ex
        for lf in cc.leaves(afn, ab):
            if not any(a is outer[0] for a in au.ancestors(lf.node)):
                continue
            if lf.how == "str" or not any(isinstance(x, ast.Subscript) for x in au.walk(lf.expr)):
                continue
            as_int = isinstance(lf.expr, ast.Call) and isinstance(lf.expr.func, ast.Name) and lf.expr.func.id in ("int", "round")
            nb += 1
            site = ctx.site(mod, afn, lf.node)
            if reader_conv.get("Bool") and "int(" in reader_conv["Bool"] and branch_runs(lf.node, "Bool", stop=outer[0]) is not False:
                ctx.check(as_int, "C04-A1", site,
                          f"geogram: a Bool attribute value may be written as `{au.src(lf.expr)}` (True/False), the importer "
                          f"parses bool(int(token))", "int('True') raises: a mesh with a Bool attribute cannot be reloaded",
                          note="geogram: Bool values written through int()")
            for T in ("Float", "Int"):
                if branch_runs(lf.node, T, stop=outer[0]) is not False:
                    ctx.check(not as_int, "C04-A1", site,
                              f"geogram: a {T} attribute value may be written as `{au.src(lf.expr)}`",
                              "int() / round() truncates the value (2.5 is saved as 2)",
                              note=f"geogram: {T} values written as they are")
            # scalar form only for arity 1, component loop for every other arity
            inner = [a for a in au.ancestors(lf.node) if isinstance(a, ast.For) and a is not outer[0]
                     and any(x is a for x in au.walk(outer[0]))]
            r1 = _and3([(lambda v, pol: None if v is None else (bool(v) == pol))(size_atom(1)(t), pol)
                        for t, pol in au.guards(lf.node, stop=outer[0])] or [True])
            r2 = _and3([(lambda v, pol: None if v is None else (bool(v) == pol))(size_atom(2)(t), pol)
                        for t, pol in au.guards(lf.node, stop=outer[0])] or [True])
            if inner:
                ctx.check(r2 is not False, "C04-G1", site,
                          "geogram: the per-component write of export_attribute does not run for attributes of arity 2 or more",
                          "vector attributes are written in the scalar form (`[1. 2.]` on one line) or not at all",
                          note="geogram: component loop runs for arity >= 2")
            else:
                ctx.check(r1 is not False and r2 is False, "C04-G1", site,
                          "geogram: the scalar write of export_attribute is not selected exactly for attributes of arity 1",
                          f"runs for arity 1: {r1}, for arity 2: {r2}; a vector is written as one token / a scalar is indexed",
                          note="geogram: scalar form iff arity 1")
    floor(ctx, "C04-A1 attribute value sites", nb, 2, asite)
    return roles, cont_param


def g1_import_store(ctx, repo, iafn, role_field):
    """import_attribute stores, for every element, the scalar (arity 1; a value equal to the default may be skipped)
    or the full group of `arity` values (arity > 1, never filtered component-wise)."""
    mod = GEO
    site = ctx.site(mod, iafn)
    ps = au.params(iafn)
    arity_f = role_field.get("arity")
    b = sym.Bindings(iafn)
    stores = [st for st in au.stmts(iafn.body) if isinstance(st, ast.Assign) and len(st.targets) == 1
              and isinstance(st.targets[0], ast.Subscript) and isinstance(st.targets[0].value, ast.Name)
              and len(ps) > 1 and st.targets[0].value.id == ps[1]]
    if not stores or arity_f is None:
        ctx.fail("C04-G1", site, "geogram: import_attribute does not store values with `attr[i] = ...`", "")
        return

    def is_arity(x):
        return isinstance(x, ast.Attribute) and x.attr == arity_f

    def runs(st, n_):
        """(can the store run for arity n_?, value-dependent atoms deciding it)"""
        can, filters = True, []
        for t, pol in au.guards(st):
            ar = [x for x in au.walk(t) if is_arity(x)]
            key = au.norm(ar[0]) if ar else "<none>"
            outs = {_eval_mixed(t, key, n_, u) for u in (True, False)}
            if None in outs:
                continue
            if pol not in outs:
                can = False
            elif len(outs) == 2:
                filters += [(q, pol) for q in _value_atoms(t, key)]
        return can, filters

    def scalar(st):
        v = st.value
        return isinstance(v, ast.Subscript) and au.const(v.slice) == 0

    for n_ in (1, 2, 3):
        can = [(st, *runs(st, n_)) for st in stores]
        live = [(st, r, f) for st, r, f in can if r]
        if n_ == 1:
            ok = bool(live) and all(scalar(st) for st, r, f in live)
            ctx.check(ok, "C04-G1", site,
                      "geogram: for an attribute of arity 1 import_attribute does not store the single value of each element",
                      f"stores reachable for arity 1: {[au.src(st) for st, r, f in live]}",
                      note="geogram: arity 1 -> attr[i] = value")
        else:
            okv = bool(live) and all(not scalar(st) for st, r, f in live)
            filt = [q for st, r, f in live for q in f]
            bad_f = [q for q in filt if not _harmless_filter(q)]
            ctx.check(okv and not bad_f, "C04-G1", site,
                      f"geogram: for an attribute of arity {n_} import_attribute does not store every group of {n_} values as read",
                      f"stores reachable: {[au.src(st) for st, r, f in live]}; value-dependent conditions: "
                      f"{[au.src(q[0] if isinstance(q, tuple) else q) for q in bad_f]}: a vector with some default component "
                      f"(0 / False) or a scalar slot is dropped or mis-stored", note=f"geogram: arity {n_} -> attr[i] = group")


def _eval_mixed(t, key, n_, u):
    """evaluate a boolean expression whose atoms are arity comparisons (decided for arity n_) or value filters (= u)"""
    if isinstance(t, ast.BoolOp):
        vals = [_eval_mixed(v, key, n_, u) for v in t.values]
        if any(v is None for v in vals):
            return None
        return all(vals) if isinstance(t.op, ast.And) else any(vals)
    if isinstance(t, ast.UnaryOp) and isinstance(t.op, ast.Not):
        v = _eval_mixed(t.operand, key, n_, u)
        return None if v is None else (not v)
    if any(au.norm(x) == key for x in ast.walk(t) if isinstance(x, ast.expr)):
        v = cc.eval_test(_TagSubst(key).visit(cc.clean(t)), {"__tag": n_})
        return None if v is None else bool(v)
    return u


def _value_atoms(t, key):
    """maximal sub-expressions of a condition that do not mention the arity"""
    if isinstance(t, ast.BoolOp):
        return [a for v in t.values for a in _value_atoms(v, key)]
    if isinstance(t, ast.UnaryOp) and isinstance(t.op, ast.Not):
        return _value_atoms(t.operand, key)
    if any(au.norm(x) == key for x in ast.walk(t) if isinstance(x, ast.expr)):
        return []
    return [t]


def _harmless_filter(q):
    """a value filter that only skips groups entirely equal to the default: `(val != default).any()` / `any(..)`"""
    t, pol = q if isinstance(q, tuple) else (q, True)
    src_ = au.src(t)
    if not pol:
        return False
    if isinstance(t, ast.Call) and au.call_tail(t) == "any":
        return "!=" in src_
    return False


def g1_reader_ptr_tables(ctx, repo, rfn, tables):
    """Importer side of the *_ptr chunks: sizes are differences of consecutive offsets, the last one up to the number
    of corners; without the chunk, offsets are the running sum of the default size starting at 0."""
    mod = GEO
    site = ctx.site(mod, rfn)
    b = sym.Bindings(rfn)
    for kind, (names, default, node, table, extra, cont) in sorted(tables.items()):
        apps = [a for a in au.calls(rfn) if au.call_tail(a) == "append" and isinstance(a.func.value, ast.Name)
                and a.func.value.id == table and any(pol and names and names[0] in au.src(t) for t, pol in au.guards(a))]
        in_loop = [a for a in apps if any(isinstance(x, ast.For) for x in au.ancestors(a)) and
                   any(isinstance(x, ast.For) and any(names[0] in au.src(t) for t, pol in au.guards(x)) for x in au.ancestors(a))]
        last = [a for a in apps if a not in in_loop]
        ok = False
        why = "fill loop / last size not found"
        if len(in_loop) == 1 and len(last) == 1:
            a = in_loop[0]
            lp = next(x for x in au.ancestors(a) if isinstance(x, ast.For))
            i = lp.target.id if isinstance(lp.target, ast.Name) else None
            e = a.args[0]
            rng = _range_arg(lp)
            good = isinstance(e, ast.BinOp) and isinstance(e.op, ast.Sub) and i and rng is not None \
                and all(isinstance(x, ast.Subscript) and isinstance(x.value, ast.Attribute) and x.value.attr == "data" for x in (e.left, e.right))
            if good:
                pl, pr = sym.to_poly(e.left.slice), sym.to_poly(e.right.slice)
                good = pl - pr == sym.Poly.const(1) and pr == sym.Poly.atom(i)
                pr_ = sym.to_poly(rng)
                cnt = [x for x in au.walk(rng) if isinstance(x, ast.Subscript) and isinstance(x.slice, ast.Attribute)]
                good = good and len(cnt) == 1 and cnt[0].slice.attr == cont and \
                    pr_ == sym.to_poly(cnt[0]) - 1
                why = f"size i is `{au.src(e)}` for i in range({au.src(rng)})"
            l = last[0].args[0]
            good2 = isinstance(l, ast.BinOp) and isinstance(l.op, ast.Sub) and isinstance(l.left, ast.Subscript) \
                and isinstance(l.left.slice, ast.Attribute) and l.left.slice.attr.endswith("CORNERS") \
                and isinstance(l.right, ast.Subscript) and isinstance(l.right.value, ast.Attribute) and l.right.value.attr == "data" \
                and au.const(l.right.slice) == -1
            ok = bool(good and good2)
            if good and not good2:
                why = f"last size is `{au.src(l)}`"
        ctx.check(ok, "C04-G1", site,
                  f"geogram: the sizes of {kind} are not recovered from `{names[0] if names else '?'}` as ptr[i+1] - ptr[i] "
                  f"(last: number of corners - ptr[-1])", why, note=f"geogram: sizes of {kind} = differences of consecutive offsets")
        # default offsets
        ok = False
        for st in au.stmts(rfn.body):
            if isinstance(st, ast.For) and isinstance(st.iter, ast.Name) and st.iter.id == table and isinstance(st.target, ast.Name):
                c = st.target.id
                app = [x for x in st.body if isinstance(x, ast.Expr) and isinstance(x.value, ast.Call) and au.call_tail(x.value) == "append"
                       and len(x.value.args) == 1 and isinstance(x.value.args[0], ast.Name)]
                if len(app) != 1:
                    continue
                P = app[0].value.args[0].id
                init = b.reaching(P, st)
                incs = [(k, x) for k, x in enumerate(st.body) if P in [n_ for t in au.assign_targets(x) for n_ in au.assigned_names(t)]]
                if len(incs) != 1:
                    continue
                k, inc = incs[0]
                delta = sym.to_poly(inc.value) if isinstance(inc, ast.AugAssign) and isinstance(inc.op, ast.Add) else (
                    sym.to_poly(inc.value) - sym.Poly.atom(P) if isinstance(inc, ast.Assign) else None)
                ok = isinstance(init, ast.Constant) and init.value == 0 and delta == sym.Poly.atom(c) \
                    and k > st.body.index(app[0])
        ctx.check(ok, "C04-G1", site,
                  f"geogram: without a size chunk the offsets of {kind} are not the running sum of the default size starting at 0",
                  f"element i of a file without `{names[0] if names else '?'}` starts at corner {default}*i",
                  note=f"geogram: default offsets of {kind} = running sum from 0")


def g1_attribute_loops(ctx, repo, wfn, names_written):
    """`for key in mesh.K.attributes`: every attribute is exported, except the ones written separately above."""
    mod = GEO
    b = sym.Bindings(wfn)
    for lp in au.stmts(wfn.body):
        if not (isinstance(lp, ast.For) and isinstance(lp.iter, ast.Attribute) and lp.iter.attr == "attributes"
                and isinstance(lp.target, ast.Name)):
            continue
        calls = [c for c in au.calls(lp) if au.call_tail(c) == "export_attribute"]
        if not calls:
            continue
        key = lp.target.id
        site = ctx.site(mod, wfn, lp)
        skipped, bad = [], None
        # every condition under which an attribute is NOT exported must single out attributes by their name (any spelling:
        # `if key == 'x': continue`, `if key != 'x': export`, `if key not in (...)`)
        for c in calls:
            for t, pol in au.guards(c, stop=lp):
                if isinstance(t, ast.Compare) and len(t.ops) == 1 and isinstance(t.left, ast.Name) and t.left.id == key:
                    op, r = t.ops[0], t.comparators[0]
                    if isinstance(r, ast.Constant) and (isinstance(op, ast.Eq) and not pol or isinstance(op, ast.NotEq) and pol):
                        skipped.append(r.value)
                        continue
                    if isinstance(r, (ast.Tuple, ast.List, ast.Set)) and (isinstance(op, ast.In) and not pol or isinstance(op, ast.NotIn) and pol):
                        skipped += [au.const(e) for e in r.elts]
                        continue
                elif isinstance(t, ast.Compare) and len(t.ops) == 1 and isinstance(t.comparators[0], ast.Name) and t.comparators[0].id == key \
                        and isinstance(t.left, ast.Constant) and (isinstance(t.ops[0], ast.Eq) and not pol or isinstance(t.ops[0], ast.NotEq) and pol):
                    skipped.append(t.left.value)
                    continue
                bad = ("" if pol else "not ") + au.src(t)
        gs = []
        handled = all(any(str(nm) == w.split("::")[-1] for w in names_written) for nm in skipped)
        ctx.check(bad is None and not gs and handled, "C04-G1", site,
                  f"geogram: not every attribute of mesh.{lp.iter.value.attr if isinstance(lp.iter.value, ast.Attribute) else '?'} "
                  f"is exported (only the ones written as their own chunk may be skipped)",
                  f"skip condition {bad or gs or skipped}: user attributes are missing from the file",
                  note=f"geogram: all attributes of {au.src(lp.iter)} exported, skipping {skipped}")


def g1_import_stride(ctx, repo, iafn, role_field):
    mod = GEO
    ib = sym.Bindings(iafn)
    isite = ctx.site(mod, iafn)
    subs = [x for x in au.walk(iafn) if isinstance(x, ast.Subscript) and isinstance(x.ctx, ast.Load)
            and isinstance(x.value, ast.Attribute) and x.value.attr == "data" and not isinstance(x.slice, ast.Slice)]
    ok = False
    if len(subs) == 1:
        x = subs[0]
        loops = [a for a in au.ancestors(x) if isinstance(a, ast.For)]
        if len(loops) >= 2 and all(isinstance(l.target, ast.Name) for l in loops[:2]):
            j, i = loops[0].target.id, loops[1].target.id
            p = sym.to_poly(cc.resolve(ib, x.slice, at=x, keep=(i, j)))
            jr, ir = _range_arg(loops[0]), _range_arg(loops[1])
            if jr is not None and ir is not None:
                stride = sym.to_poly(jr)
                ok = p.coeff(j) == sym.Poly.const(1) and p.coeff(i) == stride and p.without(i).without(j).is_zero() \
                    and isinstance(ir, ast.BinOp) and isinstance(ir.op, ast.FloorDiv) and sym.to_poly(ir.right) == stride \
                    and isinstance(jr, ast.Attribute) and jr.attr == role_field.get("arity")
    # slice form: group i = data[arity*i : arity*(i+1)]
    sl = [x for x in au.walk(iafn) if isinstance(x, ast.Subscript) and isinstance(x.ctx, ast.Load)
          and isinstance(x.value, ast.Attribute) and x.value.attr == "data" and isinstance(x.slice, ast.Slice)]
    if not subs and len(sl) == 1 and sl[0].slice.lower is not None and sl[0].slice.upper is not None and sl[0].slice.step is None:
        x = sl[0]
        loops = [a for a in au.ancestors(x) if isinstance(a, ast.For)]
        if loops and isinstance(loops[0].target, ast.Name):
            i = loops[0].target.id
            ir = _range_arg(loops[0])
            lo = sym.to_poly(cc.resolve(ib, x.slice.lower, at=x, keep=(i,)))
            hi = sym.to_poly(cc.resolve(ib, x.slice.upper, at=x, keep=(i,)))
            stride = lo.coeff(i)
            ok = lo.without(i).is_zero() and hi - lo == stride and not stride.is_zero() \
                and stride.atoms() == {"⟨" + a_ + "⟩" for a_ in [au.src(n_) for n_ in au.walk(x.slice.lower)
                                                                  if isinstance(n_, ast.Attribute) and n_.attr == role_field.get("arity")][:1]} \
                and isinstance(ir, ast.BinOp) and isinstance(ir.op, ast.FloorDiv) and sym.to_poly(ir.right) == stride
    ctx.check(ok, "C04-G1", isite, "geogram: import_attribute does not read value j of element i at data[arity*i + j]",
              "values are written element-major with `arity` values per element", note="geogram: import stride = arity")


def geogram_chunks(ctx, repo, wfn, prov, b, special, start, tfold, fold_container, ptr_names=None):
    """Literal connectivity chunks of the exporter against the importer branches; returns the chunk names written and
    the [ATTS] table."""
    mod = GEO
    chunks = chunk_writes(wfn, b)
    atts = {}
    for c, tag, lines in chunks:
        if tag == "[ATTS]" and len(lines) >= 3 and line_literal(lines[1]):
            m = fold_container(line_literal(lines[1]))
            cnt = lines[2][0][1] if lines[2] and lines[2][0][0] == "leaf" else None
            atts[m.name if m else line_literal(lines[1])] = (c, cnt)
    names_written = {}
    ptr_names = ptr_names or {}
    n_chunks = 0
    for c, tag, lines in chunks:
        if tag != "[ATTR]":
            continue
        n_chunks += 1
        site = ctx.site(mod, wfn, c)
        lits = [line_literal(l) for l in lines]
        if (start and len(lines) != max(start)) or any(x is None for x in lits):
            ctx.fail("C04-G1", site, "geogram: connectivity chunk header is not the literal lines the importer indexes",
                     f"header lines: {lits}")
            continue
        cont_w, name, typ, nbytes, arity = lits[1], _unquote(lits[2]), lits[3], lits[4], lits[5]
        names_written[name] = (c, lines)
        m = fold_container(cont_w)
        match = [sp for sp in special if m is not None and sp[0] == m.name and sp[1] == name]
        if not match and name in ptr_names and m is not None and m.name == ptr_names[name][1]:
            # size-table chunk: the importer finds it by name and reads it as a flat list of integers (arity 1)
            match = [(m.name, name, None, (None, 1), [])]
        if not match:
            near = [sp for sp in special if sp[1].split("::")[-1] == name.split("::")[-1]]
            if name in ptr_names:
                near = [(ptr_names[name][1], name)]
            ctx.fail("C04-E1", site,
                     f"geogram: chunk {name} written under {_unquote(cont_w)} matches no connectivity branch of the importer",
                     f"the importer looks for "
                     f"{('`' + near[0][1] + '` of Container.' + near[0][0]) if near else 'other names'}; this chunk is read back as a "
                     f"user attribute of {m} and the connectivity it carries is lost")
        else:
            X, N, ifnode, asserted, kinds = match[0]
            ctx.ok("C04-E1", site, f"geogram: chunk {name} of {X} has an importer branch")
            try:
                T = tfold.call("from_string", typ)
            except (cc.Raised, cc.Unfoldable):
                T = None
            wantT = "Float" if "vertices" in kinds else "Int"
            ctx.check(T is not None and T.name == wantT, "C04-E1", site,
                      f"geogram: chunk {name} is declared with type {typ}, parsed as {T} (its values are {wantT.lower()}s)",
                      "Chunk.__init__ converts the payload according to the declared type")
            try:
                bs = tfold.call("byte_size", T) if T is not None else None
            except (cc.Raised, cc.Unfoldable):
                bs = None
            ctx.check(str(bs) == nbytes, "C04-E1", site,
                      f"geogram: chunk {name} declares {nbytes} bytes per value, the type table says {bs} for {T}",
                      "independent readers size the payload with this field")
            if asserted is not None:
                ctx.check(str(asserted[1]) == arity, "C04-E1", site,
                          f"geogram: chunk {name} declares {arity} value(s) per element, the importer asserts {asserted[1]}",
                          "the importer raises AssertionError on reload")
        # payload
        lp = payload_after(c)
        if lp is None:
            ctx.fail("C04-G1", site, f"geogram: payload loop of chunk {name} not found", "")
            continue
        nvals, nested, lvs, ws = values_per_iteration(lp, b)
        ctx.check(str(nvals) == arity, "C04-G1", ctx.site(mod, wfn, lp),
                  f"geogram: chunk {name} declares {arity} value(s) per element but {nvals} are written per element",
                  "the importer groups the payload by the declared arity")
        if match and match[0][4]:
            want_kind = match[0][4][0]
            good = bool(lvs) and all((prov.classify(lf.expr, lf.expr) or (None, None))[:2] == ("elem", want_kind) for lf in lvs)
            ctx.check(good, "C04-G1", ctx.site(mod, wfn, lp),
                      f"geogram: the payload of chunk {name} is not made of the "
                      f"{'coordinates' if want_kind == 'vertices' else 'vertex indices'} of mesh.{want_kind}",
                      f"the importer builds {want_kind} from these values; written: {[au.src(lf.expr) for lf in lvs]}",
                      note=f"geogram: payload of {name} = elements of mesh.{want_kind}")
        it, _ = cc.strip_enumerate(lp.iter)
        itr = cc.resolve(b, it, at=lp)
        is_attr_obj = isinstance(itr, ast.Call) and au.call_tail(itr) in ("get_attribute", "create_attribute")
        dense = prov.container_kind(it) is not None or (isinstance(it, ast.Call) and au.call_tail(it) == "range")
        ctx.check(not is_attr_obj, "C04-G1", ctx.site(mod, wfn, lp),
                  f"geogram: the payload of chunk {name} iterates the attribute object itself",
                  f"`for .. in {au.src(it)}`: iterating a sparse Attribute yields the keys of its non-default entries, not one value per element: the "
                  "keys (tuples for cell facets) are written as values and int() fails on reload",
                  note=f"geogram: payload of {name} runs over the elements")
        if not is_attr_obj:
            ctx.check(dense, "C04-G1", ctx.site(mod, wfn, lp),
                      f"geogram: payload loop of chunk {name} does not run over all elements",
                      "one group of values per element, in element order")
    floor(ctx, "C04-E1 geogram connectivity chunks", n_chunks, 4, ctx.site(GEO, wfn))
    return names_written, atts


def geogram_containers(ctx, repo, wfn, member_field, quoted, fold_container):
    mod = GEO
    for c in [c for c in au.calls(wfn) if au.call_tail(c) == "export_attribute"]:
        lit = [a for a in c.args if isinstance(a, ast.Constant) and isinstance(a.value, str)]
        lp = [a for a in au.ancestors(c) if isinstance(a, ast.For)]
        fld = None
        if lp and isinstance(lp[0].iter, ast.Attribute) and lp[0].iter.attr == "attributes" \
                and isinstance(lp[0].iter.value, ast.Attribute):
            fld = lp[0].iter.value.attr
        if not lit or fld is None:
            ctx.fail("C04-E1", ctx.site(mod, wfn, c), "geogram: export_attribute call without a literal container / attribute loop", "")
            continue
        q = '"' if quoted else ""
        m = fold_container(q + lit[0].value + q)
        ctx.check(m is not None and member_field.get(m.name) == fld, "C04-E1", ctx.site(mod, wfn, c),
                  f"geogram: attributes of mesh.{fld} are written under container name {lit[0].value}, which the importer maps to "
                  f"{('mesh.' + str(member_field.get(m.name))) if m is not None else 'no container'}",
                  f"Chunk.Container.from_string({lit[0].value!r}) is {m}: a user attribute on mesh.{fld} "
                  f"{'makes the importer raise (container not recognised)' if m is None else 'comes back on another container'}",
                  note=f"geogram: mesh.{fld} attributes -> {m}")


def geogram_counts(ctx, repo, wfn, rfn, b, mesh, special, member_field, atts, fields=None):
    mod = GEO
    wsite = ctx.site(mod, wfn)
    # [ATTS] layout: the count is written on the line the importer converts under its ATTS branch
    if fields:
        rk = [(f_, v[0]) for f_, v in fields.items() if not f_.endswith("[]") and v[1] == "int"
              and any("ATTS" in au.src(t) for t, pol in au.guards(v[2]) if pol)]
        for c, tag, lines in chunk_writes(wfn, b):
            if tag == "[ATTS]":
                wl = [k for k, ln in enumerate(lines) if ln and ln[0][0] == "leaf"]
                ctx.check(len(rk) == 1 and wl == [rk[0][1]], "C04-H1", ctx.site(mod, wfn, c),
                          f"geogram: an [ATTS] chunk carries its element count on line {wl}, the importer reads line "
                          f"{[k for f_, k in rk]}", "container sizes are wrong: no / too many elements are read",
                          note=f"geogram: [ATTS] count on line {wl}")
    for X in sorted(member_field):
        used = any(isinstance(x, ast.Subscript) and isinstance(x.slice, ast.Attribute) and x.slice.attr == X
                   and isinstance(au.parent(x), ast.Call) and au.call_tail(au.parent(x)) == "range" for x in au.walk(rfn))
        if not used:
            continue
        fld = member_field.get(X)
        ent = atts.get(X)
        if ent is None:
            ctx.fail("C04-H1", wsite, f"geogram: no [ATTS] chunk gives the number of {fld}",
                     f"the importer loops over container_sizes[{X}] (0 when absent): no {fld} are loaded")
            continue
        c, cnt = ent
        r = cc.resolve(b, cnt.expr, at=c) if cnt is not None else None
        ok = isinstance(r, ast.Call) and isinstance(r.func, ast.Name) and r.func.id == "len" and len(r.args) == 1 \
            and au.src(r.args[0]) == f"{mesh}.{fld}"
        ctx.check(ok, "C04-H1", ctx.site(mod, wfn, c),
                  f"geogram: the [ATTS] count of {X} is `{au.src(r) if r is not None else None}`, not len({mesh}.{fld})",
                  f"the importer reads exactly that many {fld}", note=f"geogram: [ATTS] {X} = len(mesh.{fld})")


def _eval_size_condition(test, prov, kind, sizes):
    """Value of an exporter condition such as `any(len(f) != 3 for f in mesh.faces)` when the rows of mesh.<kind> have
    the given sizes; None when the expression is not about those sizes (or not understood)."""
    if isinstance(test, ast.UnaryOp) and isinstance(test.op, ast.Not):
        v = _eval_size_condition(test.operand, prov, kind, sizes)
        return None if v is None else (not v)
    if isinstance(test, ast.BoolOp):
        vals = [_eval_size_condition(v, prov, kind, sizes) for v in test.values]
        if isinstance(test.op, ast.And):
            known = [v for v in vals if v is not None]        # unrelated conjuncts (hasattr, not empty) are taken as true
            return all(known) if known else None
        return None if any(v is None for v in vals) else any(vals)
    if isinstance(test, ast.Call) and isinstance(test.func, ast.Name) and test.func.id in ("any", "all") and len(test.args) == 1 \
            and isinstance(test.args[0], (ast.GeneratorExp, ast.ListComp)) and len(test.args[0].generators) == 1:
        g = test.args[0].generators[0]
        if prov.container_kind(g.iter) != kind or not isinstance(g.target, ast.Name):
            return None
        key = au.norm(ast.Call(func=ast.Name(id="len", ctx=ast.Load()), args=[ast.Name(id=g.target.id, ctx=ast.Load())], keywords=[]))
        vals = []
        for n_ in sizes:
            keep = True
            for cond in g.ifs:
                kv = cc.eval_test(_TagSubst(key).visit(cc.clean(cond)), {"__tag": n_})
                if kv is None:
                    return None
                keep = keep and bool(kv)
            if not keep:
                continue
            v = cc.eval_test(_TagSubst(key).visit(cc.clean(test.args[0].elt)), {"__tag": n_})
            if v is None:
                return None
            vals.append(bool(v))
        return any(vals) if test.func.id == "any" else all(vals)
    return None


def _ptr_payload_ok(lp, b, prov, kind):
    """`p = 0; for row in mesh.K: write(p); p += len(row)`: each element's first-corner index."""
    if lp is None or prov.container_kind(cc.strip_enumerate(lp.iter)[0]) != kind:
        return "the payload loop does not run over the elements"
    inner, en = cc.strip_enumerate(lp.iter)
    row = lp.target.elts[1] if en and isinstance(lp.target, ast.Tuple) else lp.target
    if not isinstance(row, ast.Name):
        return "row variable not found"
    writes = [(i, st) for i, st in enumerate(lp.body) if isinstance(st, ast.Expr) and isinstance(st.value, ast.Call)
              and au.call_tail(st.value) == "write"]
    if len(writes) != 1 or len([c for c in au.calls(lp) if au.call_tail(c) == "write"]) != 1:
        return "not exactly one unconditional write per element"
    wi, wst = writes[0]
    leaves = [p_[1] for p_ in cc.flatten(wst.value.args[0], b, wst.value) if p_[0] == "leaf"]
    if len(leaves) != 1 or not isinstance(leaves[0].expr, ast.Name):
        return "the value written is not the running offset variable"
    P = leaves[0].expr.id
    init = b.reaching(P, lp)
    if not (isinstance(init, ast.Constant) and init.value == 0 and not isinstance(init.value, bool)):
        return f"the running offset does not start at 0"
    incs = [(i, st) for i, st in enumerate(lp.body) if P in [n_ for t in au.assign_targets(st) for n_ in au.assigned_names(t)]]
    nested = [st for st in au.stmts(lp.body) if P in [n_ for t in au.assign_targets(st) for n_ in au.assigned_names(t)]]
    if len(incs) != 1 or len(nested) != 1:
        return "the running offset is not advanced exactly once per element"
    ii, ist = incs[0]
    want = sym.to_poly(ast.parse(f"len({row.id})", mode="eval").body)
    if isinstance(ist, ast.AugAssign) and isinstance(ist.op, ast.Add):
        delta = sym.to_poly(ist.value)
    elif isinstance(ist, ast.Assign):
        delta = sym.to_poly(ist.value) - sym.Poly.atom(P)
    else:
        return "the running offset is not advanced by an addition"
    if delta != want:
        return f"the running offset is advanced by `{au.src(ist)}`, not by the number of corners of the element"
    if ii < wi:
        return "the offset is advanced before being written (the index of the next element is written)"
    return None


def geogram_arity_tables(ctx, repo, wfn, rfn, wblocks, names_written, tables, prov, b):
    mod = GEO
    rsite = ctx.site(mod, rfn)
    floor(ctx, "C04-E1 geogram arity tables", len(tables), 2, rsite)
    for kind, (names, default, node, table, extra, cont) in sorted(tables.items()):
        ctx.check(not extra and len(names) <= 1, "C04-E1", rsite,
                  f"geogram: the size table of {kind} is also filled while reading chunk {', '.join(extra or names[1:])}",
                  f"`{table}` must hold one entry per {kind[:-1]}, all taken from `{names[0] if names else '?'}`; an entry appended while "
                  f"reading another chunk leaves that chunk's own table one short (IndexError on its last element) and corrupts this one",
                  note=f"geogram: sizes of {kind} come from one chunk")
        wbs = [wb for wb in wblocks if wb.kind == kind]
        if not wbs or not names or default is None:
            ctx.fail("C04-E1", rsite, f"geogram: arity recovery for {kind} not found",
                     f"importer table {table}: chunk names {names}, default {default}; exporter blocks {len(wbs)}")
            continue
        restricted = all(wb.guard_n == default for wb in wbs)
        hit = [n_ for n_ in names if n_ in names_written]
        if not hit:
            ctx.check(restricted, "C04-E1", ctx.site(mod, wfn, wbs[0].write),
                      f"geogram: {kind} of any size are written but the `{names[0]}` chunk giving their sizes is never written",
                      f"without that chunk the importer assumes {default} vertices per {kind[:-1]}: a mesh with other "
                      f"{kind} (quads / polygons, hexahedra / prisms) reloads as {default}-vertex {kind} cut out of the corner list",
                      note=f"geogram: sizes of {kind} recoverable")
            continue
        name = hit[0]
        c, lines = names_written[name]
        site = ctx.site(mod, wfn, c)
        # (i) written whenever the importer's default would be wrong
        sizes_dom = [default, default + 1, default + 2]
        cases = [[x] for x in sizes_dom] + [[x, y] for x in sizes_dom for y in sizes_dom]
        bad_case, unknown = None, False
        for test, pol in au.guards(c):
            if not any(isinstance(x, ast.Call) and isinstance(x.func, ast.Name) and x.func.id in ("any", "all", "len", "max", "min", "set")
                       and prov.mesh in au.names(x) for x in au.walk(test)) or \
                    not any(isinstance(x, ast.Call) and isinstance(x.func, ast.Name) and x.func.id in ("any", "all") for x in au.walk(test)):
                continue
            for sizes in cases:
                v = _eval_size_condition(test, prov, kind, sizes)
                if v is None:
                    unknown = True
                    break
                runs = bool(v) == pol
                if any(x != default for x in sizes) and not runs and bad_case is None:
                    bad_case = sizes
        if unknown:
            ctx.fail("C04-E1", site, f"geogram: condition under which the `{name}` chunk is written not understood", "")
        else:
            ctx.check(bad_case is None, "C04-E1", site,
                      f"geogram: the `{name}` chunk is not written for every mesh whose {kind} do not all have {default} vertices",
                      f"e.g. {kind} of sizes {bad_case}: the chunk is skipped and the importer assumes {default} vertices per "
                      f"{kind[:-1]}", note=f"geogram: `{name}` written whenever some {kind[:-1]} has not {default} vertices")
        # (ii) payload = index of the first corner of each element
        err = _ptr_payload_ok(payload_after(c), b, prov, kind)
        ctx.check(err is None, "C04-G1", site,
                  f"geogram: the payload of chunk {name} is not the index of the first corner of each {kind[:-1]} "
                  f"(0, then advanced by its number of corners after being written)",
                  f"{err}; the importer takes size i = ptr[i+1] - ptr[i] and reads the corners of element i from ptr[i]",
                  note=f"geogram: `{name}` payload is the running corner offset")


def geogram_rows(ctx, repo, rfn, cfn, rblocks, fields):
    mod = GEO
    rb_b = sym.Bindings(rfn)
    for rb in rblocks:
        e = rb.node.args[0]
        for _ in range(3):
            if isinstance(e, ast.Name):
                e = rb_b.reaching(e.id, rb.node) or e
            if isinstance(e, ast.Call) and au.call_tail(e) in WRAPPERS and len(e.args) == 1:
                e = e.args[0]
        site = ctx.site(mod, rfn, rb.node)
        loops = [a for a in au.ancestors(rb.node) if isinstance(a, ast.For)]
        i = loops[0].target.id if loops and isinstance(loops[0].target, ast.Name) else None
        if isinstance(e, (ast.List, ast.Tuple)) and i:
            k = len(e.elts)
            ok = True
            for r_, x in enumerate(e.elts):
                if not (isinstance(x, ast.Subscript) and isinstance(x.value, ast.Attribute) and x.value.attr == "data"):
                    ok = False
                    break
                p = sym.to_poly(x.slice)
                ok = ok and p.coeff(i) == sym.Poly.const(k) and p.without(i).is_const() and p.without(i).const_value() == r_
            ctx.check(ok, "C04-G1", site, f"geogram: {rb.kind} row is not (data[{k}*i], .., data[{k}*i+{k - 1}])",
                      f"the exporter writes {k} values per element, element after element",
                      note=f"geogram: {rb.kind} row read with stride {k}")
        elif isinstance(e, (ast.ListComp, ast.GeneratorExp)) and len(e.generators) == 1 \
                and isinstance(e.generators[0].target, ast.Name):
            j = e.generators[0].target.id
            ok = isinstance(e.elt, ast.Subscript) and isinstance(e.elt.value, ast.Attribute) and e.elt.value.attr == "data"
            if ok:
                p = sym.to_poly(e.elt.slice)
                ok = p.coeff(j) == sym.Poly.const(1) and not e.generators[0].ifs
            ctx.check(ok, "C04-V1", site, f"geogram: corners of a {rb.kind[:-1]} are not read as data[ptr + 0 .. ptr + n-1] in order",
                      "the exporter writes the corners of each element consecutively in stored order",
                      note=f"geogram: {rb.kind} corners read consecutively in order")
        else:
            ctx.fail("C04-G1", site, f"geogram: {rb.kind} row construction not found", "")
    pc = payload_conversions(fields)
    for T, rule, okset in (("Int", "C04-B1", {"int"}), ("Float", "C04-L1", FLOAT_OK)):
        st = pc.get(T + ":stmt")
        if st is None or not isinstance(st.value, (ast.ListComp, ast.GeneratorExp)):
            ctx.fail(rule, ctx.site(mod, cfn), f"geogram: conversion of the payload of {T} chunks not found",
                     f"Chunk.__init__ must turn the tokens of a {T} chunk into numbers")
            continue
        cv, off = _conv_of(st.value.elt)
        ctx.check(cv in okset and off == 0, rule, ctx.site(mod, cfn, st),
                  f"geogram: the payload of {T} chunks is parsed as `{pc[T]}`",
                  "geogram indices are 0-based integers" if T == "Int" else "coordinates must be recovered bit-exactly",
                  note=f"geogram: {T} payload parsed with {cv}")


def run_geogram(ctx, repo):
    fmt, mod = "geogram", GEO
    wfn, rfn = repo.func(mod, "export_geogram_ascii"), repo.func(mod, "import_geogram_ascii")
    afn, iafn = repo.func(mod, "export_attribute"), repo.func(mod, "import_attribute")
    prov, b, wblocks = writer_blocks(fmt, wfn)
    rblocks = reader_blocks(repo, fmt, mod, rfn)
    cfold = cc.Folder(repo.cls(mod, "Chunk.Container"))
    tfold = cc.Folder(repo.cls(ATTR, "_BaseAttribute.Type"))
    ctx.site(mod, repo.func(mod, "Chunk.Container.from_string"))

    def fold_container(written):
        try:
            return cfold.call("from_string", written)
        except (cc.Raised, cc.Unfoldable):
            return None
    cfn, fields, start, special, member_field, role_field = geogram_reader_tables(ctx, repo, rfn)
    ctx.site(mod, cfn)
    floor(ctx, "C04-E1 geogram importer connectivity branches", len(special), 4, ctx.site(mod, rfn))
    floor(ctx, "C04-E1 geogram container table", len(member_field), 4, ctx.site(mod, wfn))
    floor(ctx, "C04-E1 geogram exporter row blocks", len(wblocks), 3, ctx.site(mod, wfn))
    floor(ctx, "C04-E1 geogram importer row blocks", len(rblocks), 4, ctx.site(mod, rfn))
    roles, cont_param = g1_header_layout(ctx, repo, wfn, afn, fields, start, role_field)
    g1_import_stride(ctx, repo, iafn, role_field)
    g1_import_store(ctx, repo, iafn, role_field)
    tables = arity_tables(repo, rfn)
    ptr_names = {n_: (kind, t[5]) for kind, t in tables.items() for n_ in t[0]}
    names_written, atts = geogram_chunks(ctx, repo, wfn, prov, b, special, start, tfold, fold_container, ptr_names)
    quoted = bool(roles and cont_param and roles.get("param:" + cont_param, (0, False))[1])
    geogram_containers(ctx, repo, wfn, member_field, quoted, fold_container)
    geogram_counts(ctx, repo, wfn, rfn, b, prov.mesh, special, member_field, atts, fields)
    geogram_arity_tables(ctx, repo, wfn, rfn, wblocks, names_written, tables, prov, b)
    g1_reader_ptr_tables(ctx, repo, rfn, tables)
    g1_attribute_loops(ctx, repo, wfn, names_written)
    geogram_rows(ctx, repo, rfn, cfn, rblocks, fields)
    floor(ctx, "C04-X1 geogram exporter preconditions", geogram_precondition(ctx, repo, wfn), 1, ctx.site(mod, wfn))
    nb = b1_writer_offsets(ctx, fmt, mod, wfn, prov, b)
    floor(ctx, "C04-B1 geogram index sites", nb, 2, ctx.site(mod, wfn))
    nl = l1_float_format(ctx, fmt, mod, wfn, prov, b)
    floor(ctx, "C04-L1 geogram coordinate sites", nl, 1, ctx.site(mod, wfn))
    nv = v1_writer_order(ctx, fmt, mod, wfn, prov, b)
    nv += v1_reader_order(ctx, fmt, mod, [], rblocks, wfn)
    floor(ctx, "C04-V1 geogram rows", nv, 1, ctx.site(mod, wfn))


def geogram_precondition(ctx, repo, wfn):
    """An attribute the exporter reads unconditionally (`mesh.cell_faces.get_attribute("adjacent_cell")`) must be the one
    save() has the connectivity create before exporting a volume mesh."""
    mod = GEO
    need = []
    for c in au.calls(wfn):
        if au.call_tail(c) == "get_attribute" and c.args and isinstance(c.args[0], ast.Constant) \
                and isinstance(c.func.value, ast.Attribute):
            nm, fld = c.args[0].value, c.func.value.attr
            guarded = any(nm in au.src(t) and "has_attribute" in au.src(t) for t, pol in au.guards(c) if pol)
            if not guarded:
                need.append((nm, fld, c))
    save = repo.func("mesh.mesh", "save")
    ssite = ctx.site("mesh.mesh", save)
    made = set()
    for c in au.calls(save):
        ch = au.chain(c.func)
        if ch and len(ch) >= 3 and ch[-2] == "connectivity" and any("geogram" in au.src(t) for t, pol in au.guards(c) if pol):
            q = "VolumeMesh._Connectivity." + ch[-1]
            if repo.has_func("mesh.datatypes.volume", q):
                m = repo.func("mesh.datatypes.volume", q)
                ctx.site("mesh.datatypes.volume", m)
                for k in au.calls(m):
                    if au.call_tail(k) == "create_attribute" and k.args and isinstance(k.args[0], ast.Constant) \
                            and isinstance(k.func.value, ast.Attribute):
                        made.add((k.args[0].value, k.func.value.attr))
    # the preparing call runs for every (volume mesh, geogram file) and for no other mesh class
    for c in au.calls(save):
        ch = au.chain(c.func)
        if not (ch and len(ch) >= 3 and ch[-2] == "connectivity"):
            continue

        def ev(test, V, G):
            if isinstance(test, ast.BoolOp):
                vals = [ev(v, V, G) for v in test.values]
                return _and3(vals) if isinstance(test.op, ast.And) else _or3(vals)
            if isinstance(test, ast.UnaryOp) and isinstance(test.op, ast.Not):
                v = ev(test.operand, V, G)
                return None if v is None else (not v)
            if isinstance(test, ast.Call) and au.call_tail(test) == "isinstance" and len(test.args) == 2 \
                    and au.src(test.args[1]).endswith("VolumeMesh"):
                return V
            if isinstance(test, ast.Compare) and len(test.ops) == 1 and isinstance(test.ops[0], (ast.In, ast.NotIn)) \
                    and isinstance(test.left, ast.Constant) and isinstance(test.left.value, str) and "geogram" in test.left.value:
                return G if isinstance(test.ops[0], ast.In) else (not G)
            if isinstance(test, ast.Call) and au.call_tail(test) in ("endswith",) and test.args \
                    and isinstance(test.args[0], ast.Constant) and "geogram" in str(test.args[0].value):
                return G
            return None
        def runs(V, G):
            return _and3([(lambda v, pol: None if v is None else (v == pol))(ev(t, V, G), pol) for t, pol in au.guards(c)] or [True])
        ctx.check(runs(True, True) is not False and runs(False, True) is False and runs(False, False) is False, "C04-X1",
                  ctx.site("mesh.mesh", save, c),
                  "save(): the cell adjacency needed by the geogram exporter is not prepared exactly for volume meshes",
                  f"guard evaluates to {runs(True, True)} for (VolumeMesh, .geogram_ascii) and {runs(False, True)} for another mesh "
                  f"class: the export of a volume mesh raises on the missing attribute, or a surface mesh is asked for a method "
                  f"it does not have", note="save(): adjacency prepared iff VolumeMesh and geogram file")
    # ignore_elements: a container is emptied only when its kind was named by the caller, together with its corner containers
    ps = au.params(save)
    ig = ps[2] if len(ps) > 2 else None
    fields = []
    if repo.has_func(MESHDATA, "RawMeshData.__init__"):
        for st in au.stmts(repo.func(MESHDATA, "RawMeshData.__init__").body):
            for t in au.assign_targets(st):
                if au.is_self_attr(t) and not t.attr.startswith("_"):
                    fields.append(t.attr)
    cleared = {}
    for c in au.calls(save):
        if au.call_tail(c) == "clear" and isinstance(c.func.value, ast.Attribute) and ig:
            cont = c.func.value.attr
            keys = []
            for t, pol in au.guards(c):
                if isinstance(t, ast.Compare) and len(t.ops) == 1 and isinstance(t.comparators[0], ast.Name) \
                        and t.comparators[0].id == ig and isinstance(t.left, ast.Constant):
                    keys.append((t.left.value, isinstance(t.ops[0], ast.In) == pol))
            key = keys[0] if keys else (None, False)
            ok = key[1] and isinstance(key[0], str) and (cont == key[0] or cont.startswith(key[0][:-1] + "_"))
            ctx.check(ok, "C04-X1", ctx.site("mesh.mesh", save, c),
                      f"save(): mesh.{cont} is emptied under a condition that is not `'{cont.split('_')[0] + ('s' if '_' in cont else '')}' in {ig}`",
                      f"guard key {key}: elements the caller did not ask to ignore are missing from the file",
                      note=f"save(): {cont} cleared only when '{key[0]}' is ignored")
            if ok:
                cleared.setdefault(key[0], set()).add(cont)
    for key, got in sorted(cleared.items()):
        want = {f_ for f_ in fields if f_ == key or f_.startswith(key[:-1] + "_")}
        ctx.check(want <= got, "C04-X1", ssite,
                  f"save(): ignoring '{key}' leaves {sorted(want - got)} filled",
                  f"the exporters write corner / facet containers of elements that are no longer in the file",
                  note=f"save(): ignoring '{key}' clears {sorted(got)}")
    for nm, fld, c in need:
        ctx.check((nm, fld) in made, "C04-X1", ctx.site(mod, wfn, c),
                  f"geogram: the exporter reads mesh.{fld} attribute '{nm}' unconditionally but save() does not have it created",
                  f"save() prepares {sorted(made)} before a geogram export of a volume mesh; a missing attribute makes every "
                  f"such save raise", note=f"geogram: save() creates {fld}.{nm} before the export reads it")
    return len(need)


# =========================================================================== C04-C1 emission conditions
# element kinds each format can express (frozen from the format definitions)
VOCAB = {"obj": ("vertices", "edges", "faces"), "medit": ("vertices", "edges", "faces", "cells"),
         "geogram": ("vertices", "edges", "faces", "cells"), "off": ("vertices", "faces"), "tet": ("vertices", "cells"),
         "xyz": ("vertices",)}
MESHDATA = "mesh.mesh_data"


def regeneration_model(ctx, repo):
    """What `RawMeshData.prepare()` rebuilds on load: {'edges': switch name, 'faces': switch name} (config attributes
    guarding the completion calls) and the name of the attribute flagging the edges declared before completion."""
    fn = repo.func(MESHDATA, "RawMeshData.prepare")
    site = ctx.site(MESHDATA, fn)
    sw = {}
    for c in au.calls(fn):
        t = au.call_tail(c)
        for kind, callee in (("edges", "_complete_edges_from_faces"), ("faces", "_complete_faces_from_cells")):
            if t == callee:
                gs = [(g, pol) for g, pol in au.guards(c) if "_prepared" not in au.src(g)]
                if len(gs) == 1 and gs[0][1] and isinstance(gs[0][0], ast.Attribute) and isinstance(gs[0][0].value, ast.Name):
                    sw[kind] = gs[0][0].attr
    flag = None
    if repo.has_func(MESHDATA, "RawMeshData._complete_edges_from_faces"):
        cf = repo.func(MESHDATA, "RawMeshData._complete_edges_from_faces")
        for c in au.calls(cf):
            if au.call_tail(c) == "create_attribute" and c.args and isinstance(c.args[0], ast.Constant) \
                    and isinstance(c.func.value, ast.Attribute) and c.func.value.attr == "edges":
                flag = c.args[0].value
        # completion is skipped when there is no face: the flag exists only on meshes of dimension >= 2
        early = any(isinstance(st, ast.If) and "faces.empty()" in au.src(st.test) and any(isinstance(x, ast.Return) for x in st.body)
                    for st in cf.body)
    else:
        early = False
    ok = set(sw) == {"edges", "faces"} and flag is not None and early
    ctx.check(ok, "C04-C1", site,
              "prepare(): completion of edges from faces / faces from cells under one config switch each, declared edges flagged, "
              "not found", f"switches {sw}, flag attribute {flag}, no-face early exit {early}: the emission conditions of the "
              f"exporters cannot be related to what a load regenerates",
              note=f"load regenerates edges under config.{sw.get('edges')}, faces under config.{sw.get('faces')}; declared edges "
                   f"flagged '{flag}'")
    return (sw, flag) if ok else None


class _State:
    def __init__(self, D, CE, CF, kind):
        self.D, self.CE, self.CF, self.kind = D, CE, CF, kind
        self.H = D >= 2 and CE           # the flag attribute exists iff edges were completed from faces

    def nonempty(self, k):
        if k == self.kind:
            return True
        if k == "vertices":
            return True
        if k == "edges":
            return True if self.D == 1 else (False if self.D == 0 else None)
        if k == "faces":
            return True if self.D == 2 else (False if self.D < 2 else (True if self.CF else None))
        if k == "cells":
            return self.D == 3
        return None

    def __str__(self):
        return f"dimensionality {self.D}, complete_edges_from_faces={self.CE}, complete_faces_from_cells={self.CF}"


def _and3(vals):
    if any(v is False for v in vals):
        return False
    return None if any(v is None for v in vals) else True


def _or3(vals):
    if any(v is True for v in vals):
        return True
    return None if any(v is None for v in vals) else False


def eval_emission(test, st, prov, b, model, at, depth=0):
    """Three-valued value (True / False / None = does not depend on the modelled state) of an exporter condition in
    mesh state `st`."""
    sw, flag = model
    mesh = prov.mesh
    if depth > 6:
        return None
    if isinstance(test, ast.Constant):
        return bool(test.value)
    if isinstance(test, ast.BoolOp):
        vals = [eval_emission(v, st, prov, b, model, at, depth + 1) for v in test.values]
        return _and3(vals) if isinstance(test.op, ast.And) else _or3(vals)
    if isinstance(test, ast.UnaryOp) and isinstance(test.op, ast.Not):
        v = eval_emission(test.operand, st, prov, b, model, at, depth + 1)
        return None if v is None else (not v)
    if isinstance(test, ast.Name):
        d = b.reaching(test.id, at)
        return eval_emission(d, st, prov, b, model, getattr(b, "_last_def_stmt", at), depth + 1) if d is not None else None
    if isinstance(test, ast.Attribute) and isinstance(test.value, ast.Name) and test.value.id != mesh:
        # <config module>.<switch>
        if test.attr == sw["edges"]:
            return st.CE
        if test.attr == sw["faces"]:
            return st.CF
        if test.attr.startswith("export"):
            return True                  # explicit export switch: the requirement is about the exporting configuration
        return None
    if isinstance(test, ast.Call):
        t = au.call_tail(test)
        if t == "hasattr" and len(test.args) == 2 and isinstance(test.args[0], ast.Name) and test.args[0].id == mesh \
                and isinstance(test.args[1], ast.Constant) and test.args[1].value in cc.KINDS:
            return True
        if t == "empty" and isinstance(test.func, ast.Attribute) and prov.container_kind(test.func.value) in cc.KINDS:
            v = st.nonempty(prov.container_kind(test.func.value))
            return None if v is None else (not v)
        if t == "has_attribute" and test.args and isinstance(test.args[0], ast.Constant) \
                and isinstance(test.func, ast.Attribute) and prov.container_kind(test.func.value) == "edges":
            return st.H if test.args[0].value == flag else None
        return None
    if isinstance(test, ast.Compare):
        def val(x):
            if isinstance(x, ast.Attribute) and x.attr == "dimensionality" and isinstance(x.value, ast.Name) and x.value.id == mesh:
                return st.D
            if isinstance(x, ast.Call) and isinstance(x.func, ast.Name) and x.func.id == "len" and len(x.args) == 1 \
                    and prov.container_kind(x.args[0]) in cc.KINDS:
                v = st.nonempty(prov.container_kind(x.args[0]))
                return None if v is None else ("len", v)
            if isinstance(x, ast.Name):
                d = b.reaching(x.id, at)
                return val(d) if d is not None else None
            c = au.const(x)
            return c if isinstance(c, (int, float)) and not isinstance(c, bool) else None
        vals = [val(test.left)] + [val(c) for c in test.comparators]
        if any(v is None for v in vals):
            return None
        out = True
        for (l, r), op in zip(zip(vals, vals[1:]), test.ops):
            if isinstance(l, tuple) or isinstance(r, tuple):
                # len(container) against 0 / 1
                if isinstance(l, tuple) and r in (0, 1) and isinstance(op, (ast.Gt, ast.NotEq, ast.GtE, ast.Eq, ast.Lt, ast.LtE)):
                    ne = l[1]
                    res = {ast.Gt: ne if r == 0 else None, ast.NotEq: ne if r == 0 else None, ast.GtE: ne if r == 1 else (True if r == 0 else None),
                           ast.Eq: (not ne) if r == 0 else None, ast.Lt: (not ne) if r == 1 else None, ast.LtE: (not ne) if r == 0 else None}[type(op)]
                    if res is None:
                        return None
                    out = out and res
                    continue
                return None
            f = {ast.Eq: lambda a_, b_: a_ == b_, ast.NotEq: lambda a_, b_: a_ != b_, ast.Lt: lambda a_, b_: a_ < b_,
                 ast.LtE: lambda a_, b_: a_ <= b_, ast.Gt: lambda a_, b_: a_ > b_, ast.GtE: lambda a_, b_: a_ >= b_}.get(type(op))
            if f is None:
                return None
            out = out and f(l, r)
        return out
    return None


def required_level(kind, st):
    """What a save must put in the file for a load (under the same configuration) to give the elements back:
    'all' rows of the container, the 'declared' edges only (the others are face sides, regenerated), or None."""
    if kind == "vertices":
        return "all"
    if kind == "edges":
        if st.D == 0:
            return None
        if st.D == 1 or not st.CE:
            return "all"
        return "declared"
    if kind == "faces":
        if st.D < 2:
            return None
        return "all" if (st.D == 2 or not st.CF) else None
    if kind == "cells":
        return "all" if st.D == 3 else None
    return None


def c1_emission(ctx, repo, fmt, model):
    mod = IOMOD[fmt]
    wfn = repo.func(mod, EXPORT[fmt])
    site = ctx.site(mod, wfn)
    prov, b, wblocks = writer_blocks(fmt, wfn)
    sw, flag = model
    n = 0
    for kind in VOCAB[fmt]:
        blocks = [wb for wb in wblocks if wb.kind == kind]
        if fmt == "geogram" and kind == "vertices":
            # coordinates are written from `for i in range(len(mesh.vertices))`: the guards of that loop
            blocks = [WBlock(kind=kind, loop=lp, via="loop", other_guards=[], write=lp) for lp in au.stmts(wfn.body)
                      if isinstance(lp, ast.For) and any(isinstance(x, ast.Subscript) and prov.container_kind(x.value) == "vertices"
                                                          for x in au.walk(lp))][:1]
        n += 1
        if not blocks:
            ctx.fail("C04-C1", site, f"{fmt}: no loop writes the {kind} of the mesh",
                     f"the {fmt} format can express {kind}; a saved mesh reloads without them")
            continue
        bad = None
        for D in (0, 1, 2, 3):
            for CE in (True, False):
                for CF in (True, False):
                    st = _State(D, CE, CF, kind)
                    need = required_level(kind, st)
                    if need is None or bad is not None:
                        continue
                    got = None
                    for wb in blocks:
                        runs = _and3([(lambda v, pol: None if v is None else (v == pol))(
                            eval_emission(t, st, prov, b, model, wb.loop), pol) for t, pol in au.guards(wb.loop)] or [True])
                        if runs is False:
                            continue
                        level = "all"
                        if wb.via == "index" or wb.other_guards:
                            it = cc.resolve(b, wb.loop.iter, at=wb.loop)
                            declared = isinstance(it, ast.Call) and au.call_tail(it) == "get_attribute" and it.args \
                                and isinstance(it.args[0], ast.Constant) and it.args[0].value == flag and not wb.other_guards
                            level = "declared" if declared else "some"
                        if level == "all" or (level == "declared" and need == "declared"):
                            got = level
                            break
                    if got is None:
                        bad = st
        ctx.check(bad is None, "C04-C1", site,
                  f"{fmt}: the conditions under which {kind} are written do not cover every mesh whose {kind} a load cannot regenerate",
                  f"with {bad}: a load regenerates edges only under config.{sw['edges']} (as face sides) and faces only under "
                  f"config.{sw['faces']} (as cell sides), so {'every edge' if bad and required_level(kind, bad) == 'all' else 'the declared ' + kind} "
                  f"must be in the file, but no block writing them runs in that state: they vanish on reload",
                  note=f"{fmt}: {kind} written in every state where a load would not rebuild them")
    return n


def run_formats(ctx):
    from ..core import AnalysisError
    repo = ctx.repo
    for fmt, fn in (("medit", run_medit), ("obj", run_obj), ("off", run_off), ("tet", run_tet), ("xyz", run_xyz),
                    ("geogram", run_geogram)):
        try:
            fn(ctx, repo)
        except AnalysisError:
            raise
        except (IndexError, KeyError, AttributeError, TypeError, ValueError) as ex:
            # the anchored functions exist (repo.func succeeded) but the extraction met a shape it does not model
            ctx.fail("C04-E1", ctx.site(IOMOD[fmt], repo.func(IOMOD[fmt], EXPORT[fmt])),
                     f"{fmt}: codec is no longer in a form whose reader/writer tables can be extracted",
                     f"extraction stopped with {type(ex).__name__}: {ex}")
    model = regeneration_model(ctx, repo)
    if model is not None:
        for fmt in ("obj", "medit", "geogram", "off", "tet", "xyz"):
            c1_emission(ctx, repo, fmt, model)
