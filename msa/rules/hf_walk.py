"""hf_walk - abstract model of a predecessor back-tracking (group F, used by C09-B1 and C09-E1).

A back-tracking walks a predecessor table from an *origin* (the target, or the virtual sink) until *start* and records nodes in a
list.  Whatever the spelling, the list is always a piece of the chain  origin -> pred[origin] -> ... -> start ; the model keeps
  orient      'origin-first' | 'start-first'
  has_origin  the origin itself is in the list
  has_start   start is in the list
and follows the operations applied to the list afterwards (append(start), reverse, pop(), pop(0), slices, copies).
Recognised spellings of the loop:
  A   cur = origin ; while cur != start: L.append(cur) ; cur = P[cur]        (record, then step: origin .. node before start)
  B   cur = origin ; while cur != start: cur = P[cur] ; L.append(cur)        (step, then record: pred[origin] .. start)
      (append may be insert(0, .) / appendleft: the list then grows at the front)
  C   L = [origin] ; while L[0] != start: L.insert(0, P[L[0]])               (the list itself is the cursor; also L[-1] / append)
"""
from __future__ import annotations
import ast
from .. import au, sym
from . import skel0910 as sk
from . import hf_roles as hr


class Walk:
    def __init__(self, loop, lst, origin, pred, start, orient, has_origin, has_start, record):
        self.loop, self.lst, self.origin, self.pred, self.start = loop, lst, origin, pred, start
        self.orient, self.has_origin, self.has_start = orient, has_origin, has_start
        self.record = record            # the call that records a node (for sites)
        self.problem = None             # text when the loop itself is recognisably wrong
        self.unknown = None             # text when something after the loop is not understood
        self.final_use = None
        self.stored_in = None


def _lkey(F, e, at):
    if isinstance(e, ast.Name):
        return "name:" + F.root(e.id, at)
    return hr.key(e)


def find_walks(F, start_names):
    """[(loop, Walk | None, why)] for every while loop of the flattened function whose condition compares a cursor with start"""
    out = []
    fn = F.fn
    for lp in [st for st in au.stmts(fn.body) if isinstance(st, ast.While)]:
        atoms = sk.atoms([(lp.test, True)])
        hit = None
        for e, p in atoms:
            if isinstance(e, ast.Compare) and len(e.ops) == 1 and isinstance(e.ops[0], ast.Eq) and not p:
                sides = [e.left, e.comparators[0]]
                st_ = [x for x in sides if isinstance(x, ast.Name) and (x.id in start_names or F.root(x.id, lp) in start_names)]
                if len(st_) == 1:
                    cur = [x for x in sides if x is not st_[0]][0]
                    hit = (cur, st_[0].id)
        if hit is None:
            continue
        cur, start = hit
        if len(atoms) > 1:
            out.append((lp, None, "the back-tracking loop has an additional exit condition"))
            continue
        w = None
        why = "the back-tracking loop is not recognised"
        if isinstance(cur, ast.Name):
            w, why = _cursor_walk(F, lp, cur.id, start)
        elif isinstance(cur, ast.Subscript) and au.const(cur.slice) in (0, -1):
            w, why = _list_walk(F, lp, cur, start)
        out.append((lp, w, why))
    return out


def _cursor_walk(F, lp, cur, start):
    steps = [st for st in lp.body if cur in [nm for tg in au.assign_targets(st) for nm in au.assigned_names(tg)]]
    all_steps = [x for x in au.stmts(lp.body) if cur in [nm for tg in au.assign_targets(x) for nm in au.assigned_names(tg)]]
    pred = None
    if len(steps) == 1 and len(all_steps) == 1 and isinstance(steps[0], ast.Assign):
        val = dict(sym.split_assign(steps[0])).get(cur)
        if isinstance(val, ast.Subscript) and isinstance(val.value, ast.Name) and isinstance(val.slice, ast.Name) and val.slice.id == cur:
            pred = F.root(val.value.id, steps[0])
    if pred is None:
        return None, "the step of the back-tracking loop is not a single unconditional `v = predecessor[v]`"
    step = steps[0]
    recs = [c for c in au.calls(lp) if isinstance(c.func, ast.Attribute) and c.func.attr in ("append", "insert", "appendleft") and c.args
            and isinstance(c.args[-1], ast.Name) and (c.args[-1].id == cur or F.root(c.args[-1].id, c) == cur)]
    init = F.b.reaching(cur, lp)
    w = Walk(lp, None, init, pred, start, None, None, None, None)
    if len(recs) != 1 or sk.path_conds(recs[0], stop=lp):
        # "nothing is recorded" is only certain when the loop does nothing but step
        other_stmts = [x for x in au.stmts(lp.body) if x is not step and not (isinstance(x, ast.Assign) and all(isinstance(t, ast.Name) for t in x.targets)
                                                                              and not any(isinstance(n, ast.Call) for n in ast.walk(x)))]
        if F.opaque(lp, {cur}) or not recs or (recs and len(recs) == 1) or len({hr.key(c.func.value) for c in recs}) > 1:
            # a loop that records nothing the rule can see (a pre-walk, a list built by concatenation ..) is not judged
            return None, "the recording of the walked nodes is not recognised"
        w.problem = f"back-tracking does not record exactly one node per step ({len(recs)} unconditional record(s) of the walked node in the loop)"
        return w, ""
    rec = recs[0]
    prepend = rec.func.attr == "appendleft" or (rec.func.attr == "insert" and len(rec.args) == 2 and au.const(rec.args[0]) == 0)
    if rec.func.attr == "insert" and not prepend:
        return None, "nodes are inserted at a position the rule does not follow"
    # the list must be empty when the loop starts
    lst = rec.func.value
    if isinstance(lst, ast.Name) and isinstance(F.definition(lst.id, lp), ast.Subscript) and isinstance(F.definition(lst.id, lp).value, ast.Name):
        # path_t = paths[t] : the entry of the result table, created empty with the table
        dd = F.definition(lst.id, lp)
        vals, found = F.initial_values(dd.value.id, lp, singles=True)
        if not (found and vals and all((isinstance(v, ast.List) and not v.elts) or (isinstance(v, ast.Call) and au.call_tail(v) == "list" and not v.args) for v in vals)):
            return None, "the back-tracked list is not empty when the walk starts"
    elif isinstance(lst, ast.Name):
        d = F.definition(lst.id, lp)
        empty = (isinstance(d, ast.List) and not d.elts) or (isinstance(d, ast.Call) and au.call_tail(d) in ("list", "deque") and not d.args)
        if not empty:
            return None, "the back-tracked list is not empty when the walk starts"
    elif isinstance(lst, ast.Subscript) and isinstance(lst.value, ast.Name):
        # D[t] : every entry of D starts as an empty list
        vals, found = F.initial_values(lst.value.id, lp, singles=True)
        if not (found and vals and all((isinstance(v, ast.List) and not v.elts) or (isinstance(v, ast.Call) and au.call_tail(v) == "list" and not v.args) for v in vals)):
            return None, "the back-tracked list is not empty when the walk starts"
    else:
        return None, "the back-tracked list is not a local list"
    lkey = hr.key(lst) if not isinstance(lst, ast.Name) else None
    blk, _own = au.enclosing_block(lp)
    if blk is not None:
        for st_ in blk[:sk.index_in(blk, lp)]:
            for c_ in au.calls(st_):
                if isinstance(c_.func, ast.Attribute) and c_.func.attr in ("append", "insert", "appendleft", "extend") and \
                        ((isinstance(lst, ast.Name) and isinstance(c_.func.value, ast.Name) and c_.func.value.id == lst.id) or
                         (lkey is not None and hr.key(c_.func.value) == lkey)):
                    return None, "the back-tracked list already holds nodes when the walk starts"
    rec_first = F.before(rec, step)
    w.lst, w.record = lst, rec
    w.orient = "start-first" if prepend else "origin-first"
    w.has_origin, w.has_start = (True, False) if rec_first else (False, True)
    return w, ""


def _list_walk(F, lp, cur, start):
    """while L[0] != start: L.insert(0, P[L[0]])   |   while L[-1] != start: L.append(P[L[-1]])"""
    L = cur.value
    if not isinstance(L, ast.Name):
        return None, "the back-tracked list is not a local list"
    front = au.const(cur.slice) == 0
    recs = [c for c in au.calls(lp) if isinstance(c.func, ast.Attribute) and isinstance(c.func.value, ast.Name) and c.func.value.id == L.id
            and c.func.attr in ("append", "insert", "appendleft")]
    others = [n for st in au.stmts(lp.body) for t in au.assign_targets(st) for n in au.assigned_names(t) if n == L.id]
    if len(recs) != 1 or others or sk.path_conds(recs[0], stop=lp):
        return None, "the step of the list-based back-tracking is not recognised"
    rec = recs[0]
    at_front = rec.func.attr == "appendleft" or (rec.func.attr == "insert" and len(rec.args) == 2 and au.const(rec.args[0]) == 0)
    at_back = rec.func.attr == "append"
    if not ((front and at_front) or (not front and at_back)):
        return None, "the list-based back-tracking does not grow at the end it reads"
    val = F.resolve(rec.args[-1], rec, keep=(L.id,))
    if not (isinstance(val, ast.Subscript) and isinstance(val.value, ast.Name) and hr.same(val.slice, cur)):
        return None, "the step of the list-based back-tracking is not `pred[cursor]`"
    pred = F.root(val.value.id, rec)
    d = F.definition(L.id, lp)
    if not (isinstance(d, ast.List) and len(d.elts) == 1):
        return None, "the list-based back-tracking does not start from a one-element list"
    w = Walk(lp, L, d.elts[0], pred, start, "start-first" if front else "origin-first", True, True, rec)
    return w, ""


def follow(F, w: Walk, start_names):
    """apply the operations that follow the loop (same block) to the model; sets w.final_use / w.unknown"""
    # the statements that follow the loop: the rest of its block, then (leaving enclosing `if` / `with` / `try` blocks, never a loop) the
    # rest of the enclosing blocks
    following = []
    cur = w.loop
    reached_end = False
    while True:
        blk, owner = au.enclosing_block(cur)
        if blk is None:
            w.unknown = "the statements after the back-tracking loop are not visible"
            return w
        i = sk.index_in(blk, cur)
        following.extend(blk[i + 1:])
        if isinstance(owner, (ast.FunctionDef, ast.AsyncFunctionDef)):
            reached_end = True
            break
        if isinstance(owner, (ast.If, ast.With, ast.Try)):
            cur = owner
            continue
        break           # the body of a loop: one walk per iteration
    w.reached_end = reached_end
    names = {w.lst.id} if isinstance(w.lst, ast.Name) else set()
    key = None if names else hr.key(w.lst)

    def on_list(e):
        if isinstance(e, ast.Name):
            return e.id in names
        return key is not None and hr.key(e) == key

    def is_start(x):
        return isinstance(x, ast.Name) and (x.id == w.start or x.id in start_names or F.root(x.id, w.loop) in start_names)
    def mentions_list(e):
        return any((isinstance(n, ast.Name) and n.id in names) or (key is not None and isinstance(n, ast.Subscript) and hr.key(n) == key) for n in ast.walk(e))

    def read_only(e):
        """every mention of the list inside e is an element read `L[i]` or an argument of len / bool / str"""
        def ro(n, inside):
            if on_list(n):
                return inside
            if isinstance(n, ast.Subscript) and on_list(n.value) and not isinstance(n.slice, ast.Slice):
                return ro(n.slice, False)
            if isinstance(n, ast.Call) and au.call_tail(n) in ("len", "bool", "str", "repr") and len(n.args) == 1 and on_list(n.args[0]):
                return True
            if isinstance(n, ast.UnaryOp) and isinstance(n.op, ast.Not) and on_list(n.operand):
                return True                     # truth test
            if isinstance(n, ast.IfExp):
                return (on_list(n.test) or ro(n.test, False)) and ro(n.body, False) and ro(n.orelse, False)
            if isinstance(n, ast.Compare):
                return all(on_list(x) or ro(x, False) for x in [n.left] + list(n.comparators))
            return all(ro(c, False) for c in ast.iter_child_nodes(n))
        return ro(e, False)

    def add_start(at_front):
        end_is_start_side = (w.orient == "start-first") == at_front
        if w.has_start:
            w.problem = "`start` is recorded a second time after the loop"
        elif not end_is_start_side:
            w.unknown = "start is added at the origin side of the list"
        else:
            w.has_start = True

    def flip():
        w.orient = "start-first" if w.orient == "origin-first" else "origin-first"

    def apply_expr(e):
        """e is a list derived from the back-tracked list by operations the model follows (applied to the model): True, else False"""
        if on_list(e):
            return True
        if isinstance(e, ast.Subscript) and isinstance(e.slice, ast.Slice):
            if not apply_expr(e.value):
                return False
            lo, up, step = e.slice.lower, e.slice.upper, e.slice.step
            if step is not None and au.const(step) == -1 and lo is None and up is None:
                flip()
                return True
            if step is None and lo is None and up is None:
                return True
            if step is None and lo is None and au.const(up) == -1:
                _drop(w, False)
                return w.unknown is None
            if step is None and up is None and au.const(lo) == 1:
                _drop(w, True)
                return w.unknown is None
            return False
        if isinstance(e, ast.Call) and au.call_tail(e) in ("list", "tuple", "copy", "deepcopy") and len(e.args) == 1 and not e.keywords:
            a = e.args[0]
            if isinstance(a, ast.Call) and au.call_tail(a) == "reversed" and len(a.args) == 1:
                if not apply_expr(a.args[0]):
                    return False
                flip()
                return True
            return apply_expr(a)
        if isinstance(e, ast.Call) and isinstance(e.func, ast.Attribute) and e.func.attr == "copy" and not e.args:
            return apply_expr(e.func.value)
        if isinstance(e, ast.BinOp) and isinstance(e.op, ast.Add):
            for lit, other, front in ((e.left, e.right, True), (e.right, e.left, False)):
                if isinstance(lit, (ast.List, ast.Tuple)) and len(lit.elts) == 1 and is_start(lit.elts[0]) and mentions_list(other):
                    if not apply_expr(other):
                        return False
                    add_start(front)
                    return not (w.problem or w.unknown)
            return False
        if isinstance(e, (ast.List, ast.Tuple)) and len(e.elts) == 2 and sum(isinstance(x, ast.Starred) for x in e.elts) == 1:
            front = not isinstance(e.elts[0], ast.Starred)
            lit = e.elts[0] if front else e.elts[1]
            star = e.elts[1] if front else e.elts[0]
            if is_start(lit):
                if not apply_expr(star.value):
                    return False
                add_start(front)
                return not (w.problem or w.unknown)
            return False
        return False

    w.handled = []
    for st in following:
        w.handled.append(st)
        mentions = [n for n in au.walk(st) if (isinstance(n, ast.Name) and n.id in names) or (key is not None and isinstance(n, ast.Subscript) and hr.key(n) == key)]
        if not mentions:
            continue
        if isinstance(st, ast.Expr) and isinstance(st.value, ast.Call) and isinstance(st.value.func, ast.Attribute) and on_list(st.value.func.value) \
                and len(mentions) == 1:
            c = st.value
            a = c.func.attr
            if a in ("append", "insert", "appendleft") and c.args and is_start(c.args[-1]):
                at_front = a == "appendleft" or (a == "insert" and len(c.args) == 2 and au.const(c.args[0]) == 0)
                if a == "insert" and not at_front:
                    w.unknown = "start is inserted at a position the rule does not follow"
                    return w
                end_is_start_side = (w.orient == "start-first") == at_front
                if w.has_start:
                    w.problem = "`start` is recorded a second time after the loop"
                    return w
                if not end_is_start_side:
                    w.unknown = "start is added at the origin side of the list"
                    return w
                w.has_start = True
                continue
            if a == "reverse" and not c.args:
                w.orient = "start-first" if w.orient == "origin-first" else "origin-first"
                continue
            if a in ("pop", "popleft") and (not c.args or au.const(c.args[0]) in (0, -1)):
                first = bool(a == "popleft" or (c.args and au.const(c.args[0]) == 0))
                _drop(w, first)
                continue
            w.unknown = f"`{a}` is applied to the back-tracked list"
            return w
        if isinstance(st, ast.Delete) and len(st.targets) == 1 and isinstance(st.targets[0], ast.Subscript) and on_list(st.targets[0].value) \
                and au.const(st.targets[0].slice) in (0, -1):
            _drop(w, au.const(st.targets[0].slice) == 0)
            continue
        if isinstance(st, ast.Assign) and len(st.targets) == 1 and isinstance(st.targets[0], (ast.Name, ast.Subscript, ast.Attribute)) \
                and mentions_list(st.value):
            tgt = st.targets[0]
            if read_only(st.value):
                rebuilt = (isinstance(tgt, ast.Name) and tgt.id in names) or (not isinstance(tgt, ast.Name) and on_list(tgt)) or \
                    (isinstance(st.value, (ast.ListComp, ast.GeneratorExp, ast.List, ast.Tuple)) or
                     (isinstance(st.value, ast.Call) and au.call_tail(st.value) in ("list", "tuple", "sorted")))
                if rebuilt:
                    w.unknown = "a list is rebuilt from the elements of the back-tracked list"
                    return w
                continue                                # ind = path[-1], n = len(path)
            r = apply_expr(st.value)
            if w.problem or w.unknown:
                return w
            if not r:
                w.unknown = "a value derived from the back-tracked list is not recognised"
                return w
            if isinstance(tgt, ast.Name):
                names.add(tgt.id)                       # the derived list goes on under this name
                continue
            w.final_use = st                            # D[t] = <list> : stored in a table
            w.stored_in = tgt
            if on_list(st.value):
                continue                                # the very list object is stored: later in-place changes still apply to it
            return w
        if isinstance(st, ast.Return) and st.value is not None and mentions_list(st.value):
            parts = st.value.elts if isinstance(st.value, ast.Tuple) else [st.value]
            for part in parts:
                if not mentions_list(part) or read_only(part):
                    continue
                r = apply_expr(part)
                if w.problem or w.unknown:
                    return w
                if not r:
                    w.unknown = "the returned value derived from the back-tracked list is not recognised"
                    return w
            w.final_use = st
            return w
        # something else mentions the list
        mutators = ("append", "insert", "appendleft", "extend", "reverse", "pop", "popleft", "remove", "clear", "sort")
        mutated = any(isinstance(c.func, ast.Attribute) and c.func.attr in mutators and on_list(c.func.value) for c in au.calls(st)) or \
            any(isinstance(x, (ast.AugAssign, ast.Delete)) for x in au.stmts([st])) or \
            any(isinstance(x, ast.Subscript) and isinstance(x.ctx, (ast.Store, ast.Del)) and on_list(x.value) for x in au.walk(st))
        if isinstance(st, (ast.If, ast.For, ast.While, ast.Try, ast.With)):
            if mutated:
                w.unknown = "the back-tracked list is changed inside a compound statement after the loop"
                return w
            derived = [x for x in au.stmts([st]) if isinstance(x, (ast.Return, ast.Assign, ast.AnnAssign, ast.Expr)) and getattr(x, "value", None) is not None
                       and mentions_list(x.value) and not read_only(x.value)
                       and not all(on_list(p_) or not mentions_list(p_) or read_only(p_) or
                                   (isinstance(p_, ast.Call) and all(on_list(a_) or not mentions_list(a_) or read_only(a_) or
                                                                     (isinstance(a_, ast.Dict) and all(on_list(v_) or not mentions_list(v_) for v_ in a_.values))
                                                                     for a_ in list(p_.args) + [k_.value for k_ in p_.keywords]))
                                   for p_ in (x.value.elts if isinstance(x.value, ast.Tuple) else [x.value]))]
            if derived:
                w.unknown = "a value derived from the back-tracked list is built inside a compound statement after the loop"
                return w
            if any(isinstance(x, ast.Return) for x in au.stmts([st])):
                w.final_use = st
                return w
            copied = [c_ for c_ in au.calls(st) if isinstance(c_.func, ast.Attribute) and c_.func.attr in ("append", "insert", "appendleft", "extend", "add")
                      and any(mentions_list(a_) for a_ in c_.args)] + \
                [x for x in au.stmts([st]) if isinstance(x, ast.Assign) and mentions_list(x.value) and not all(isinstance(t_, ast.Name) for t_ in x.targets)]
            if copied:
                w.unknown = "the elements of the back-tracked list are copied into another container after the loop"
                return w
            continue                                   # only read (len, truth test, logging ..)
        if mutated:
            w.unknown = "the back-tracked list is changed in a way the rule does not follow"
            return w
        if isinstance(st, ast.Return):
            w.final_use = st
            return w
        passed = any(on_list(a) for c in au.calls(st) for a in list(c.args) + [k.value for k in c.keywords]
                     if au.call_tail(c) not in ("len", "print", "str", "repr", "bool", "debug", "info", "log", "format"))
        stored = isinstance(st, (ast.Assign, ast.AnnAssign)) and st.value is not None and any(on_list(n) for n in ast.walk(st.value) if isinstance(n, (ast.Name, ast.Subscript))) \
            and not all(isinstance(t, ast.Name) for t in au.assign_targets(st))
        if passed or stored:
            w.final_use = st
            return w
        # a read-only use (ind = path[-1], n = len(path), logging): goes on
        continue
    return w


def _drop(w, first):
    """remove the first / last element of the list"""
    at_origin = (w.orient == "origin-first") == first
    if at_origin:
        if w.has_origin:
            w.has_origin = False
        else:
            w.unknown = "an element next to the origin is removed from the back-tracked list"
    else:
        if w.has_start:
            w.has_start = False
        else:
            w.unknown = "an element next to start is removed from the back-tracked list"
