"""N-dimensional arrays of the connectivity evaluator (group I): a small model of the numpy operations used to build index tables.

An array has a shape of python ints and a flat row-major list of entries; an entry is an exact value of the evaluator (int,
Fraction, Sample) or an opaque value.  Only structure-preserving operations are modelled (construction, reshaping, slicing and
slice assignment, stacking, repetition, broadcasting arithmetic): the *shape* of the result is always exact, the entries are exact
whenever the operands are.  Anything else answers `None` (the caller makes the result opaque)."""
from __future__ import annotations
import itertools, weakref


class NArr:
    def __init__(self, items, shape=None, label=""):
        self.items = list(items)
        self.shape = tuple(shape) if shape is not None else (len(self.items),)
        self.label = label
        self.reads = None        # set of consumed positions, only for 1-D parameter samples (linspace)
        self.node = None
        self.ragged = False      # True: only the number of rows is known (each row is an opaque vector)
        self.base = None         # the array this one is a numpy *view* of (basic indexing, reshape, transposition, rows)
        self._views = None       # weak set of the live views taken on this array

    # ---- views: numpy shares the memory, this model copies - a write on either side while the other is alive is not followed
    def view_of(self, parent):
        root = parent.base if parent.base is not None else parent
        self.base = root
        if root._views is None:
            root._views = weakref.WeakSet()
        root._views.add(self)
        return self

    def aliased(self):
        """is the memory of this array shared with another live array of the model?"""
        return self.base is not None or bool(self._views)

    # ---- basic facts
    @property
    def ndim(self):
        return len(self.shape)

    @property
    def size(self):
        n = 1
        for d in self.shape:
            n *= d
        return n

    def __len__(self):
        return self.shape[0] if self.shape else 0

    def track(self):
        self.reads = set()
        return self

    def mark(self, i):
        if self.reads is not None:
            self.reads.add(i)

    def mark_all(self):
        if self.reads is not None:
            self.reads.update(range(len(self.items)))

    def strides(self):
        st, acc = [], 1
        for d in reversed(self.shape):
            st.append(acc)
            acc *= d
        return st[::-1]

    def rows(self):
        """entries along the first axis: scalars (1-D) or sub-arrays"""
        self.mark_all()
        if self.ndim <= 1:
            return list(self.items)
        step = self.size // self.shape[0] if self.shape[0] else 0
        return [NArr(self.items[i * step:(i + 1) * step], self.shape[1:], self.label).view_of(self) for i in range(self.shape[0])]

    def nested(self):
        self.mark_all()

        def rec(flat, shape):
            if len(shape) <= 1:
                return list(flat)
            step = len(flat) // shape[0] if shape[0] else 0
            return [rec(flat[i * step:(i + 1) * step], shape[1:]) for i in range(shape[0])]
        return rec(self.items, self.shape)

    def copy(self):
        self.mark_all()
        return NArr(list(self.items), self.shape, self.label)

    # ---- selection: key -> (flat positions, result shape)
    def select(self, key):
        keys = list(key) if isinstance(key, tuple) else [key]
        n_real = sum(1 for k in keys if k is not None and k is not Ellipsis)
        if any(k is Ellipsis for k in keys):
            i = next(i for i, k in enumerate(keys) if k is Ellipsis)
            keys[i:i + 1] = [slice(None)] * (self.ndim - n_real)
            n_real = sum(1 for k in keys if k is not None)
        if n_real > self.ndim:
            return "too many indices"
        keys += [slice(None)] * (self.ndim - n_real)
        axes = []        # per result axis or dropped axis: (list of positions along the source axis | None for a new axis, keep?)
        ax = 0
        n_fancy = 0
        for k in keys:
            if k is None:
                axes.append((None, True))
                continue
            d = self.shape[ax]
            if isinstance(k, bool):
                return None
            if isinstance(k, int):
                if not (-d <= k < d):
                    return f"index {k} is out of bounds for axis {ax} with size {d}"
                axes.append(([k % d if d else 0], False))
            elif isinstance(k, slice):
                if not all(x is None or (isinstance(x, int) and not isinstance(x, bool)) for x in (k.start, k.stop, k.step)):
                    return None
                if k.step == 0:
                    return "slice step cannot be zero"
                axes.append((list(range(d))[k], True))
            elif isinstance(k, (list, NArr)) :
                its = k.items if isinstance(k, NArr) else k
                if isinstance(k, NArr) and k.ndim != 1:
                    return None
                if its and all(isinstance(i, bool) for i in its):
                    # boolean mask along this axis: the positions where it holds
                    if len(its) != d:
                        return f"boolean index did not match indexed array along axis {ax}; size of axis is {d} but size of corresponding boolean axis is {len(its)}"
                    its = [i for i, b in enumerate(its) if b]
                if not all(isinstance(i, int) and not isinstance(i, bool) for i in its):
                    return None
                for i in its:
                    if not (-d <= i < d):
                        return f"index {i} is out of bounds for axis {ax} with size {d}"
                n_fancy += 1
                axes.append(([i % d for i in its], True))
            else:
                return None
            ax += 1
        if n_fancy > 1:
            return None
        st = self.strides()
        out_shape = []
        lists = []
        ax = 0
        for pos, keep in axes:
            if pos is None:
                out_shape.append(1)
                lists.append([0])
                continue
            lists.append([p * st[ax] for p in pos])
            if keep:
                out_shape.append(len(pos))
            ax += 1
        flat = [sum(t) for t in itertools.product(*lists)] if lists else [0]
        return flat, tuple(out_shape)

    def get(self, key):
        """value of `self[key]`: an entry, an array, a message (str: the access raises) or None (not modelled)"""
        sel = self.select(key)
        if sel is None or isinstance(sel, str):
            return sel
        flat, shape = sel
        for p in flat:
            self.mark(p)
        if not shape:
            return _Entry(self.items[flat[0]])
        out = NArr([self.items[p] for p in flat], shape, self.label)
        keys = key if isinstance(key, tuple) else (key,)
        if all(k is None or k is Ellipsis or isinstance(k, (int, slice)) for k in keys):
            out.view_of(self)          # basic indexing gives a view
        return out

    def set(self, key, value):
        """`self[key] = value` (broadcast); returns a message when the assignment raises, False when it is not modelled"""
        sel = self.select(key)
        if sel is None:
            return False
        if isinstance(sel, str):
            return sel
        if self.aliased():
            return "aliased"
        flat, shape = sel
        if isinstance(value, NArr):
            b = broadcast_to(value, shape)
            if b is None:
                return f"could not broadcast input array from shape {value.shape} into shape {shape}"
            vals = b
        elif isinstance(value, (list, tuple)):
            v = from_nested(value)
            if v is None:
                return False
            b = broadcast_to(v, shape)
            if b is None:
                return f"could not broadcast input of shape {v.shape} into shape {shape}"
            vals = b
        else:
            vals = [value] * len(flat)
        for p, v in zip(flat, vals):
            self.items[p] = v
        return True


class _Entry:
    """wrapper distinguishing an entry (which may itself be None) from `not modelled`"""
    __slots__ = ("v",)

    def __init__(self, v):
        self.v = v


def broadcast_shapes(s1, s2):
    n = max(len(s1), len(s2))
    a = (1,) * (n - len(s1)) + tuple(s1)
    b = (1,) * (n - len(s2)) + tuple(s2)
    out = []
    for x, y in zip(a, b):
        if x == y or y == 1:
            out.append(x)
        elif x == 1:
            out.append(y)
        else:
            return None
    return tuple(out)


def broadcast_to(arr, shape):
    """flat entries of `arr` broadcast to `shape`, or None"""
    if broadcast_shapes(arr.shape, shape) != tuple(shape):
        return None
    n = len(shape)
    src = (1,) * (n - arr.ndim) + tuple(arr.shape)
    st, acc = [], 1
    for d in reversed(src):
        st.append(acc if d != 1 else 0)
        acc *= d
    st = st[::-1]
    arr.mark_all()
    out = []
    for idx in itertools.product(*[range(d) for d in shape]):
        out.append(arr.items[sum(i * s for i, s in zip(idx, st))])
    return out


def from_nested(x):
    """array of a nested list / tuple of scalars (rectangular), or a 1-D array of objects; None if `x` is not a sequence"""
    if isinstance(x, NArr):
        return x
    if isinstance(x, range):
        return NArr(list(x))
    if not isinstance(x, (list, tuple)):
        return None

    def shape_of(v):
        if isinstance(v, NArr):
            return v.shape
        if isinstance(v, (list, tuple, range)):
            subs = [shape_of(e) for e in v]
            if subs and all(s == subs[0] and s is not None for s in subs):
                return (len(v),) + subs[0]
            if not subs:
                return (0,)
            return None
        return ()
    shp = shape_of(x)
    if shp is None:
        # ragged or mixed: a 1-D array of objects
        return NArr(list(x))

    def flat(v):
        if isinstance(v, NArr):
            v.mark_all()
            return list(v.items)
        if isinstance(v, (list, tuple, range)):
            out = []
            for e in v:
                out += flat(e)
            return out
        return [v]
    return NArr(flat(x), shp)


def elementwise(a, b, f):
    """f applied entry-wise with broadcasting; a / b: arrays or scalars"""
    if not isinstance(a, NArr):
        b.mark_all()
        return NArr([f(a, y) for y in b.items], b.shape)
    if not isinstance(b, NArr):
        a.mark_all()
        return NArr([f(x, b) for x in a.items], a.shape)
    shape = broadcast_shapes(a.shape, b.shape)
    if shape is None:
        return None
    xa, xb = broadcast_to(a, shape), broadcast_to(b, shape)
    return NArr([f(x, y) for x, y in zip(xa, xb)], shape)


def reshape(arr, shape):
    shape = list(shape)
    if any(not isinstance(d, int) or isinstance(d, bool) for d in shape):
        return None
    if shape.count(-1) > 1:
        return "can only specify one unknown dimension"
    known = 1
    for d in shape:
        if d != -1:
            known *= d
    if -1 in shape:
        if known == 0 or arr.size % known:
            return f"cannot reshape array of size {arr.size} into shape {tuple(shape)}"
        shape[shape.index(-1)] = arr.size // known
    elif known != arr.size:
        return f"cannot reshape array of size {arr.size} into shape {tuple(shape)}"
    arr.mark_all()
    return NArr(list(arr.items), shape, arr.label).view_of(arr)


def transpose(arr):
    if arr.ragged:
        return None
    if arr.ndim < 2:
        return arr
    arr.mark_all()
    shape = arr.shape[::-1]
    st = arr.strides()[::-1]
    out = []
    for idx in itertools.product(*[range(d) for d in shape]):
        out.append(arr.items[sum(i * s for i, s in zip(idx, st))])
    return NArr(out, shape, arr.label).view_of(arr)


def permute(arr, axes):
    """np.transpose(arr, axes): result axis k is source axis axes[k]"""
    axes = [a + arr.ndim if a < 0 else a for a in axes]
    if sorted(axes) != list(range(arr.ndim)):
        return None
    arr.mark_all()
    shape = tuple(arr.shape[a] for a in axes)
    st = arr.strides()
    out = []
    for idx in itertools.product(*[range(d) for d in shape]):
        out.append(arr.items[sum(i * st[a] for i, a in zip(idx, axes))])
    return NArr(out, shape, arr.label).view_of(arr)


def flip(arr, axis):
    """np.flip along one axis"""
    if axis < 0:
        axis += arr.ndim
    if not 0 <= axis < arr.ndim:
        return None
    arr.mark_all()
    st = arr.strides()
    d = arr.shape[axis]
    out = []
    for idx in itertools.product(*[range(x) for x in arr.shape]):
        src = list(idx)
        src[axis] = d - 1 - idx[axis]
        out.append(arr.items[sum(i * s_ for i, s_ in zip(src, st))])
    return NArr(out, arr.shape, arr.label)


def stack(arrs, axis):
    """np.stack of equally shaped arrays along a new axis"""
    if not arrs or any(a.shape != arrs[0].shape for a in arrs):
        return None
    nd = arrs[0].ndim + 1
    if axis < 0:
        axis += nd
    if not 0 <= axis < nd:
        return None
    base = arrs[0].shape
    shape = base[:axis] + (len(arrs),) + base[axis:]
    out = []
    for idx in itertools.product(*[range(d) for d in shape]):
        k = idx[axis]
        sub = idx[:axis] + idx[axis + 1:]
        a = arrs[k]
        out.append(a.items[sum(i * s for i, s in zip(sub, a.strides()))] if sub else a.items[0])
    for a in arrs:
        a.mark_all()
    return NArr(out, shape)


def concatenate(arrs, axis=0):
    if not arrs:
        return None
    nd = arrs[0].ndim
    if nd == 0:
        return None
    if axis < 0:
        axis += nd
    if any(a.ndim != nd for a in arrs) or not 0 <= axis < nd:
        return None
    for a in arrs:
        if a.shape[:axis] + a.shape[axis + 1:] != arrs[0].shape[:axis] + arrs[0].shape[axis + 1:]:
            return None
    shape = arrs[0].shape[:axis] + (sum(a.shape[axis] for a in arrs),) + arrs[0].shape[axis + 1:]
    out = []
    for idx in itertools.product(*[range(d) for d in shape]):
        k = idx[axis]
        for a in arrs:
            if k < a.shape[axis]:
                sub = idx[:axis] + (k,) + idx[axis + 1:]
                out.append(a.items[sum(i * s for i, s in zip(sub, a.strides()))])
                break
            k -= a.shape[axis]
    for a in arrs:
        a.mark_all()
    return NArr(out, shape)


def as_2d_columns(a):
    """(n,) -> (n,1) for column_stack"""
    return NArr(list(a.items), (a.shape[0], 1)) if a.ndim == 1 else a


def roll(arr, k, axis=None):
    """np.roll along one axis (axis None: on the flattened array, shape kept)"""
    arr.mark_all()
    if axis is None:
        n = len(arr.items)
        k = k % n if n else 0
        return NArr(arr.items[-k:] + arr.items[:-k] if k else list(arr.items), arr.shape, arr.label)
    if axis < 0:
        axis += arr.ndim
    if not 0 <= axis < arr.ndim:
        return None
    d = arr.shape[axis]
    st = arr.strides()
    out = []
    for idx in itertools.product(*[range(x) for x in arr.shape]):
        src = list(idx)
        src[axis] = (idx[axis] - k) % d if d else 0
        out.append(arr.items[sum(i * s for i, s in zip(src, st))])
    return NArr(out, arr.shape, arr.label)


def indices(shape):
    """np.indices: array of shape (len(shape),) + shape"""
    shape = tuple(shape)
    items = []
    for ax in range(len(shape)):
        for idx in itertools.product(*[range(d) for d in shape]):
            items.append(idx[ax])
    return NArr(items, (len(shape),) + shape, "indices")
