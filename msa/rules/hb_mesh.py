"""Template meshes for the bounded symbolic evaluation (msa/rules/hb_eval.py) and the oracles applied to its results.

A `World` owns one evaluator run: named vertex symbols with a fixed relative order, the symbolic vertex count NV, symbolic
positions p(A), containers built through the *interpreted* constructors of mouette/mesh/data_container.py."""
from __future__ import annotations
import ast
from collections import Counter
from fractions import Fraction
from .. import au
from ..sym import Poly
from . import hb_eval as E
from .hb_eval import Ev, Obj, Sym, SList, AttrModel, Opaque, Unknown, Raised, ClassVal, FuncVal, Native

DC = "mouette.mesh.data_container"
MD = "mouette.mesh.mesh_data"


class World:
    def __init__(self, repo, decisions=(), hooks=None, reverse=False):
        self.repo = repo
        from . import hb_np
        self.ev = Ev(repo, hooks={**hb_np.hooks(), **(hooks or {})}, decisions=decisions)
        self.reverse = reverse
        self.NV = self.ev.nums.sym("NV", "count")
        self._rank = 0
        self.calls = []          # (tag, payload) recorded by hooks

    # ---- symbols
    def v(self, *names):
        out = []
        for n in names:
            self._rank += 1
            out.append(self.ev.nums.sym(n, "vertex", -self._rank if self.reverse else self._rank))
        return out if len(out) > 1 else out[0]

    def pos(self, i):
        i = self.ev.nums.norm(i)
        return self.ev.nums.sym("p(%r)" % (i,), "pos")

    def opaque(self, name, pytype=None):
        return Opaque(name, pytype)

    def stub_object(self, clsname, **fields):
        """an opaque object of a class that is not analysed (connectivity of a mesh ...): methods are reached through hooks keyed by
        `clsname`; nothing of the real class is needed"""
        node = ast.parse("class %s:\n    pass\n" % clsname).body[0]
        node._qualname = clsname
        cv = ClassVal("mouette.mesh.subdivision", node)
        return Obj(cv, {"__opaque__": True, **fields})

    # ---- containers (through the interpreted classes)
    def cls(self, mod, qual):
        return self.ev.classval(mod, qual)

    @staticmethod
    def _find_list(obj, marker, depth=3, path=()):
        """path (field names) from a container object to the list whose single element is `marker`"""
        if depth < 0 or not isinstance(obj, Obj):
            return None
        for k, v in obj.fields.items():
            if isinstance(v, list) and len(v) == 1 and list.__getitem__(v, 0) is marker:
                return path + (k,)
        for k, v in obj.fields.items():
            if isinstance(v, Obj) and not k.startswith("__"):
                r = World._find_list(v, marker, depth - 1, path + (k,))
                if r is not None:
                    return r
        return None

    @staticmethod
    def _follow(obj, path):
        for k in path[:-1]:
            obj = obj.fields.get(k) if isinstance(obj, Obj) else None
        return obj

    def container(self, ident, data=None, symbolic_vertices=False):
        m = object()
        c = self.ev.call(self.cls(DC, "DataContainer"), [], {"id": ident, "data": [m]})
        path = self._find_list(c, m)
        if path is None:
            raise Unknown("DataContainer(data=...) does not keep its elements in a list")
        holder = self._follow(c, path)
        if symbolic_vertices:
            holder.fields[path[-1]] = SList(self.NV, lambda i: self.pos(i), [], "vertices")
        else:
            holder.fields[path[-1]] = SList(items=list(data or []))
        c.fields["__role_data__"] = path
        return c

    def corners(self, ident, elem=None, adj=None):
        m1, m2 = object(), object()
        c = self.ev.call(self.cls(DC, "CornerDataContainer"), [], {"id": ident, "elem": [m1], "adj": [m2]})
        pe, pa = self._find_list(c, m1), self._find_list(c, m2)
        if pe is None or pa is None:
            raise Unknown("CornerDataContainer(elem=, adj=) does not keep the two arrays in two lists")
        self._follow(c, pe).fields[pe[-1]] = SList(items=list(elem or []))
        self._follow(c, pa).fields[pa[-1]] = SList(items=list(adj or []))
        c.fields["__role_elem__"], c.fields["__role_adj__"] = pe, pa
        return c

    @staticmethod
    def _listfield(c, role, default):
        if not isinstance(c, Obj):
            raise Unknown("container replaced by %r" % (c,))
        path = c.fields.get(role, (default,))
        holder = World._follow(c, path)
        v = holder.fields.get(path[-1]) if isinstance(holder, Obj) else None
        if hasattr(v, "data") and getattr(v, "is_array", False):        # an array of the small numpy model
            v = SList(items=v.hb_iter(None))
        if not isinstance(v, list):
            raise Unknown("container storage is %r, not a list the template can read" % (v,))
        return v

    @staticmethod
    def data(c):
        return World._listfield(c, "__role_data__", "_data")

    @staticmethod
    def elem(c):
        return World._listfield(c, "__role_elem__", "_elem")

    @staticmethod
    def adj(c):
        return World._listfield(c, "__role_adj__", "_adj")

    def attribute(self, cont, name, data=None, typ="T", elemsize=1):
        """attach a sparse attribute model to a container (role: the dict field of the container)"""
        dicts = [k for k, x in cont.fields.items() if isinstance(x, dict)]
        if len(dicts) != 1:
            raise Unknown("container does not hold exactly one dict of attributes")
        a = AttrModel(typ, elemsize, data)
        cont.fields[dicts[0]][name] = a
        return a

    @staticmethod
    def attributes(cont):
        dicts = [x for k, x in cont.fields.items() if isinstance(x, dict)]
        return dicts[0] if len(dicts) == 1 else {}

    # ---- raw mesh data
    def raw(self, edges=(), faces=(), cells=(), face_corners=None, cell_corners=None, cell_faces=None, prepared=False, vertices=None):
        """raw mesh data of the template: built by the (evaluated) constructor RawMeshData(), then its seven public containers are
        replaced by the template's"""
        cv = self.cls(MD, "RawMeshData")
        o = self.ev.call(cv, [], {})
        if not isinstance(o, Obj):
            raise Unknown("RawMeshData() does not build an object")
        missing = [k for k in ("vertices", "edges", "faces", "cells", "face_corners", "cell_corners", "cell_faces") if k not in o.fields]
        if missing:
            raise Unknown("RawMeshData() has no container(s) %s" % missing)
        o.fields["vertices"] = vertices if vertices is not None else self.container("vertices", symbolic_vertices=True)
        o.fields["edges"] = self.container("edges", list(edges))
        o.fields["faces"] = self.container("faces", list(faces))
        o.fields["cells"] = self.container("cells", list(cells))
        o.fields["face_corners"] = self.corners("face_corners", *(face_corners or ((), ())))
        o.fields["cell_corners"] = self.corners("cell_corners", *(cell_corners or ((), ())))
        o.fields["cell_faces"] = self.corners("cell_faces", *(cell_faces or ((), ())))
        if prepared:
            flags = [k for k, v in o.fields.items() if v is False]
            if flags != ["_prepared"] and "_prepared" not in o.fields:
                raise Unknown("RawMeshData() has no `_prepared` flag")
            o.fields["_prepared"] = True
        return o

    def method(self, obj, name):
        m = self.ev.find_method(obj, name)
        if m is None:
            raise AnalysisMissing(obj.cls.name + "." + name)
        return m


class AnalysisMissing(Exception):
    pass


def attr_hooks():
    """constructors of the attribute classes (mesh_attributes.py is not analysed here): the sparse model"""
    def mk(ev, args, kw):
        typ = args[0] if args else kw.get("elem_type", kw.get("data_type"))
        es = kw.get("elem_size", kw.get("elemsize", args[2] if len(args) > 2 and not isinstance(args[1], int) else (args[1] if len(args) > 1 else 1)))
        return AttrModel(E.term_of(typ), es)
    def mk_dense(ev, args, kw):
        a = AttrModel(E.term_of(args[0] if args else None), kw.get("elem_size", 1))
        a.dense = True
        return a
    return {("class", "Attribute"): mk, ("class", "ArrayAttribute"): mk_dense}


# ------------------------------------------------------------------------------------------------ oracles on faces
def directed_edges(f):
    f = list(f)
    return [(f[i], f[(i + 1) % len(f)]) for i in range(len(f))]


def oriented_boundary(faces):
    """multiset of directed edges of the faces after cancelling every edge against its reverse; also the raw multiset"""
    d = Counter()
    for f in faces:
        for e in directed_edges(f):
            d[e] += 1
    out = Counter()
    for (a, b), c in d.items():
        r = d.get((b, a), 0)
        if c > r:
            out[(a, b)] = c - r
    return out, d


def refine_boundary(bnd, on_edge):
    """replace every directed edge (x, y) carrying new vertices (on_edge[frozenset((x, y))] = [m...]) by the chain x -> m -> y"""
    out = Counter()
    for (x, y), c in bnd.items():
        ms = on_edge.get(frozenset((x, y)), [])
        if len(ms) == 1:
            out[(x, ms[0])] += c
            out[(ms[0], y)] += c
        elif not ms:
            out[(x, y)] += c
        else:
            return None
    return out


# position algebra: a position is {vertex symbol name: weight}; wedge products for signed area / volume
def affine(ev, p):
    """position value -> {position symbol name: Fraction}, or None"""
    p = ev.nums.norm(p) if isinstance(p, Poly) else p
    if isinstance(p, Sym) and p.kind == "pos":
        return {p.name: Fraction(1)}
    if isinstance(p, Poly):
        out = {}
        for k, c in p.t.items():
            if len(k) != 1 or not k[0].startswith("p("):
                return None
            out[k[0]] = c
        return out
    return None


def wedge(vectors):
    """exterior product of affine combinations: {sorted tuple of names: coefficient}"""
    acc = {(): Fraction(1)}
    for vec in vectors:
        new = {}
        for ks, c in acc.items():
            for n, w in vec.items():
                if n in ks:
                    continue
                t = list(ks) + [n]
                # sign of the permutation sorting t (n appended last)
                inv = sum(1 for x in ks if x > n)
                key = tuple(sorted(t))
                new[key] = new.get(key, 0) + c * w * (-1 if inv % 2 else 1)
        acc = {k: v for k, v in new.items() if v != 0}
    return acc


def add_forms(a, b, sign=1):
    out = dict(a)
    for k, v in b.items():
        out[k] = out.get(k, 0) + sign * v
    return {k: v for k, v in out.items() if v != 0}


def area_form(positions):
    """vector area of a polygon as a 2-form: sum p_i ^ p_{i+1}"""
    tot = {}
    n = len(positions)
    for i in range(n):
        tot = add_forms(tot, wedge([positions[i], positions[(i + 1) % n]]))
    return tot


def volume_form(p):
    """signed volume of a tetrahedron as a 3-form: sum over its faces (b,c,d) - (a,c,d) + (a,b,d) - (a,b,c)"""
    a, b, c, d = p
    tot = wedge([b, c, d])
    tot = add_forms(tot, wedge([a, c, d]), -1)
    tot = add_forms(tot, wedge([a, b, d]))
    tot = add_forms(tot, wedge([a, b, c]), -1)
    return tot


# ------------------------------------------------------------------------------------------------ refinement oracle (surfaces)
class Problem:
    def __init__(self, kind, construct, what=""):
        self.kind, self.construct, self.what = kind, construct, what      # kind: index | position | tiling | arity | edges


def fmt_face(f):
    return "(" + ",".join(repr(x) for x in f) + ")"


def vertex_table(w, raw):
    """the vertices of the template mesh `raw`: original ones and appended ones"""
    return VTable(w, raw, getattr(w, "n_old", None))


def _vertex_table_sym(w, raw):
    ev = w.ev
    V = w.data(raw.fields["vertices"])
    if not isinstance(V, SList):
        raise Unknown("vertex container is not the symbolic sequence of the template")
    return V


class VTable:
    """the vertices of a template mesh: the original ones (symbolic part of the vertex sequence, or the first `n_old` entries of a
    concrete one) and the appended ones"""
    def __init__(self, w, raw, n_old=None):
        self.w = w
        V = w.data(raw.fields["vertices"])
        self.sym = E.symlist(V)
        if self.sym:
            self.V, self.new, self.base = V, list(V), V.base
        else:
            if n_old is None:
                raise Unknown("vertex container is not the symbolic sequence of the template")
            self.old, self.new, self.base = list(V)[:n_old], list(V)[n_old:], n_old

    @property
    def items(self):
        return self.new

    def classify(self, i):
        ev = self.w.ev
        i = ev.nums.norm(i) if isinstance(i, Poly) else i
        if self.sym:
            return _classify_sym(self.w, self.V, i)
        if isinstance(i, int) and not isinstance(i, bool):
            if 0 <= i < self.base:
                return "old", i
            if 0 <= i - self.base < len(self.new):
                return "new", i - self.base
        return "bad", i

    def old_pos(self, s):
        return self.V.elem(s) if self.sym else self.old[s]

    def index_of_new(self, k):
        return self.w.ev.arith(ast.Add(), self.base, k)

    def position(self, i):
        kind, k = self.classify(i)
        if kind == "old":
            return affine(self.w.ev, self.old_pos(k))
        if kind == "new":
            return affine(self.w.ev, self.new[k])
        return None


def classify_index(w, V, i):
    if isinstance(V, VTable):
        return V.classify(i)
    return _classify_sym(w, V, i)


def _classify_sym(w, V, i):
    ev = w.ev
    i = ev.nums.norm(i) if isinstance(i, Poly) else i
    if isinstance(i, Sym) and i.kind == "vertex":
        return "old", i
    try:
        d = ev.nums.norm(ev.arith(ast.Sub(), i, V.base))
    except Unknown:
        return "bad", i
    if isinstance(d, int) and 0 <= d < len(V.items):
        return "new", d
    return "bad", i


def position_of(w, V, i):
    if isinstance(V, VTable):
        return V.position(i)
    kind, k = classify_index(w, V, i)
    if kind == "old":
        return affine(w.ev, V.elem(k))
    if kind == "new":
        return affine(w.ev, V.items[k])
    return None


def check_surface(w, old_faces, raw, label, centres_of=(), midpoints=True, expect_arity=None, expect_count=None, edges_exact=False,
                  edges_old=None, single_round=True, n_old=None):
    """Problems of the template mesh `raw` as a refinement of `old_faces`.
    centres_of: old faces that may carry a centre vertex; midpoints: old edges may carry a midpoint vertex."""
    ev = w.ev
    out = []
    n_old = n_old if n_old is not None else getattr(w, "n_old", None)
    T = VTable(w, raw, n_old)
    F = [tuple(f) for f in w.data(raw.fields["faces"])]
    old_faces = [tuple(f) for f in old_faces]
    old_syms = []
    for f in old_faces:
        for x in f:
            if x not in old_syms:
                old_syms.append(x)
    # -- original vertices in place
    for s in old_syms:
        a = affine(ev, T.old_pos(s))
        if a != {w.pos(s).name: Fraction(1)}:
            out.append(Problem("position", f"{label}: an original vertex is moved", f"vertex {s} ends at {T.old_pos(s)}"))
    # -- indices
    used = []
    for f in F:
        for x in f:
            k, _ = T.classify(x)
            if k == "bad":
                out.append(Problem("index", f"{label}: a new face refers to a vertex index that holds no vertex",
                                   f"face {fmt_face(f)} uses index {x}; the mesh has the original vertices and {len(T.new)} appended one(s)"))
            elif x not in used:
                used.append(x)
    if any(p.kind == "index" for p in out):
        return out
    # -- positions of the new vertices: centre of an old edge / old face
    on_edge, centre = {}, {}
    old_edges = {frozenset(e) for f in old_faces for e in directed_edges(f)}
    for k, p in enumerate(T.new):
        idx = T.index_of_new(k)
        a = affine(ev, p)
        if a is None:
            raise Unknown("position of a new vertex is not an affine combination of the original positions")
        if not single_round:
            continue
        names = {w.pos(s).name: s for s in old_syms}
        supp = [names.get(n) for n in a]
        okw = len(set(a.values())) == 1 and sum(a.values()) == 1 and None not in supp
        placed = False
        if okw and len(supp) == 2 and frozenset(supp) in old_edges and midpoints:
            on_edge.setdefault(frozenset(supp), []).append(idx)
            placed = True
        elif okw:
            for f in centres_of:
                if len(f) == len(supp) and set(f) == set(supp):
                    centre.setdefault(tuple(f), []).append(idx)
                    placed = True
        if not placed and any(ev.equal(idx, u) for u in used):
            out.append(Problem("position", f"{label}: a new vertex is not at the centre of the edge / face it refines",
                               f"vertex {idx} is placed at {p}"))
    if any(p.kind == "position" for p in out):
        return out
    # -- arity / count
    if expect_arity is not None:
        bad = [f for f in F if len(f) != expect_arity]
        if bad:
            out.append(Problem("arity", f"{label}: the result has a face with {len(bad[0])} sides instead of {expect_arity}", f"face {fmt_face(bad[0])}"))
    if expect_count is not None and len(F) != expect_count:
        out.append(Problem("tiling", f"{label}: {len(F)} faces instead of {expect_count}", f"faces {[fmt_face(f) for f in F]}"))
    # -- oriented boundary
    bnd, d = oriented_boundary(F)
    obnd, od = oriented_boundary(old_faces)
    want = refine_boundary(obnd, on_edge) if single_round else None
    dup = [e for e, c in d.items() if c > 1]
    if dup and all(c <= 1 for c in od.values()):
        out.append(Problem("tiling", f"{label}: two new faces run along the same side in the same direction (orientation not preserved)",
                           f"directed side {dup[0]} belongs to {d[dup[0]]} faces: {[fmt_face(f) for f in F if dup[0] in directed_edges(f)]}"))
    elif single_round and (want is None or bnd != want):
        out.append(Problem("tiling", f"{label}: the new faces do not tile the old ones with their orientation",
                           f"oriented boundary of the result {sorted(map(repr, bnd.elements()))} differs from the refined boundary of the "
                           f"original faces {sorted(map(repr, (want or Counter()).elements()))}"))
    # -- signed area
    def form(faces):
        tot = {}
        for f in faces:
            ps = [T.position(x) for x in f]
            tot = add_forms(tot, area_form(ps))
        return tot
    if not any(p.kind == "tiling" for p in out) and form(F) != form(old_faces):
        out.append(Problem("tiling", f"{label}: the total (vector) area of the faces changes", "the new faces overlap or leave a hole"))
    # -- edges
    if edges_old is not None or edges_exact:
        Ed = [tuple(e) for e in w.data(raw.fields["edges"])]
        sides = {frozenset(e) for f in F for e in directed_edges(f)}
        seen = set()
        for e in Ed:
            if len(e) != 2:
                out.append(Problem("edges", f"{label}: an edge with {len(e)} ends is stored", fmt_face(e)))
                continue
            if ev.nums.sign(ev.arith(ast.Sub(), e[1], e[0])) != 1:
                out.append(Problem("edges", f"{label}: an edge is stored without its low index first", f"edge {fmt_face(e)}"))
            k = frozenset(e)
            if k in seen:
                out.append(Problem("edges", f"{label}: an edge is stored twice", f"edge {fmt_face(e)}"))
            seen.add(k)
            if edges_old is not None and k in edges_old:
                continue
            if k not in sides:
                out.append(Problem("edges", f"{label}: an edge that is not a side of a face of the result is added", f"edge {fmt_face(e)}"))
        if edges_exact and seen != sides and Ed:      # (a refinement may also declare no edge at all and leave them to the completion from faces)
            out.append(Problem("edges", f"{label}: the edges of the result are not exactly the sides of its faces",
                               f"missing {sorted(map(lambda s: fmt_face(sorted(s, key=repr)), sides - seen))}"))
    return out


# ------------------------------------------------------------------------------------------------ harness shared by the rules
def run_paths(ctx, rule, site, label, build, hooks=None, both_orders=True, limit=256):
    """Evaluate `build(world)` on fresh Worlds under every combination of answers to the conditions the template cannot decide
    (and under both relative orders of the vertex symbols).  Returns the list of hb_eval.Outcome, or None after reporting
    `undecided` when the exploration itself is impossible."""
    outs = []
    for rev in ((False, True) if both_orders else (False,)):
        def setup(dec, _r=rev):
            w = World(ctx.repo, dec, hooks={**attr_hooks(), **(hooks(w_box) if callable(hooks) else (hooks or {}))}, reverse=_r)
            w_box[:] = [w]
            return w.ev, (lambda: build(w))
        w_box = []
        try:
            outs += E.explore(setup, limit)
        except Unknown as u:
            ctx.undecided(rule, site, f"{label}: cannot be evaluated on the template", str(u)[:300])
            return None
        except AnalysisMissing as u:
            ctx.undecided(rule, site, f"{label}: method {u} not found", "")
            return None
    return outs


def settle(ctx, site, outs, problems, ok_rules, note, label=""):
    """problems: [(rule, construct, what)] -> findings; rules without finding are discharged, or undecided when a path of the
    evaluation left the modelled subset"""
    hit, seen = set(), set()
    for r, c, wh in problems:
        hit.add(r)
        if (r, c) not in seen:
            seen.add((r, c))
            ctx.fail(r, site, c, wh)
    unk = [o.unknown for o in (outs or []) if o.unknown is not None]
    for r in ok_rules:
        if r in hit:
            continue
        if unk:
            if not hit:
                ctx.undecided(r, site, f"{label or note}: cannot be evaluated on the template", str(unk[0])[:300])
        else:
            ctx.ok(r, site, note)


def decided(outs):
    return [o for o in outs if o.unknown is None]
