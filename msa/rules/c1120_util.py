"""Helpers local to the C11 / C20 checks (R-SKEL obligations of work-list algorithms):
structured path enumeration of a loop body, assignment-only data dependence, dominating
conditions (enclosing guards + earlier early exits), implication between a code predicate and
a specification predicate under every ordering (built on msa.order.Pred), freshness (R-ALIAS).
Nothing here executes repository code."""
from __future__ import annotations
import ast
from .. import au, order, flow

LOOPS = (ast.For, ast.AsyncFor, ast.While)


# ---------------------------------------------------------------- structured paths
class Path:
    __slots__ = ("guards", "stmts", "end")

    def __init__(self, guards=(), stmts=(), end="fall"):
        self.guards = list(guards)   # (test, polarity, kind)  kind in {"if", "loop"}
        self.stmts = list(stmts)     # simple statements (and loop headers) in execution order
        self.end = end               # fall | continue | break | return | raise

    def extend(self, other):
        return Path(self.guards + other.guards, self.stmts + other.stmts, other.end)

    def has_guard(self, test, polarity):
        return any(t is test and p == polarity for t, p, _ in self.guards)


def paths(body, limit=4096):
    """All structured paths through `body` (inner loops: skipped, or one iteration of their body;
    `break`/`continue` of an inner loop end that loop only).  Raises order.Unsupported beyond `limit`."""
    out = [Path()]
    for st in body:
        new = []
        for p in out:
            if p.end != "fall":
                new.append(p)
                continue
            for q in _stmt_paths(st, limit):
                new.append(p.extend(q))
        out = new
        if len(out) > limit:
            raise order.Unsupported("too many paths")
    return out


def _stmt_paths(st, limit):
    if isinstance(st, ast.If):
        res = []
        for q in paths(st.body, limit):
            res.append(Path([(st.test, True, "if")], [], "fall").extend(q))
        for q in paths(st.orelse, limit):
            res.append(Path([(st.test, False, "if")], [], "fall").extend(q))
        return res
    if isinstance(st, LOOPS):
        test = st.test if isinstance(st, ast.While) else st.iter
        res = [Path([(test, False, "loop")], [], "fall")]
        for q in paths(st.body, limit):
            q = Path([(test, True, "loop")] + q.guards, [st] + q.stmts, q.end)
            if q.end in ("break", "continue"):
                q.end = "fall"
            res.append(q)
        return res
    if isinstance(st, (ast.With, ast.AsyncWith)):
        return paths(st.body, limit)
    if isinstance(st, ast.Try):
        res = []
        for q in paths(st.body, limit):
            if q.end == "fall" and st.orelse:
                for r in paths(st.orelse, limit):
                    res.append(q.extend(r))
            else:
                res.append(q)
        for h in st.handlers:
            res.extend(paths(h.body, limit))
        if st.finalbody:
            res2 = []
            for q in res:
                if q.end == "fall":
                    for r in paths(st.finalbody, limit):
                        res2.append(q.extend(r))
                else:
                    res2.append(q)
            res = res2
        return res
    if isinstance(st, ast.Return):
        return [Path([], [st], "return")]
    if isinstance(st, ast.Raise):
        return [Path([], [st], "raise")]
    if isinstance(st, ast.Continue):
        return [Path([], [], "continue")]
    if isinstance(st, ast.Break):
        return [Path([], [], "break")]
    if isinstance(st, (ast.FunctionDef, ast.AsyncFunctionDef, ast.ClassDef)):
        return [Path()]
    return [Path([], [st], "fall")]


def path_calls(path):
    """Calls made by the simple statements of a path (loop headers contribute their iter/test only)."""
    out = []
    for st in path.stmts:
        if isinstance(st, LOOPS):
            out += au.calls(st.test if isinstance(st, ast.While) else st.iter)
        else:
            out += au.calls(st)
    return out


# ------------------------------------------------------- assignment-only dependence
def assign_deps(fn):
    """name -> set of names read by any binding of that name in `fn` (assignments, augmented
    assignments, loop targets, with-targets, walrus, comprehension targets).  No control
    dependence, no heap effects (a method call on an object does not make the object depend on
    the arguments)."""
    deps = {}

    def add(names, value):
        vs = au.names(value) if value is not None else set()
        for n in names:
            deps.setdefault(n, set()).update(vs)

    for n in au.walk(fn):
        if isinstance(n, ast.Assign):
            for t in n.targets:
                if isinstance(t, (ast.Tuple, ast.List)) and isinstance(n.value, (ast.Tuple, ast.List)) \
                        and len(t.elts) == len(n.value.elts) and not any(isinstance(x, ast.Starred) for x in t.elts):
                    for a, b in zip(t.elts, n.value.elts):
                        add(_bound_names(a), b)
                else:
                    add(_bound_names(t), n.value)
        elif isinstance(n, ast.AnnAssign):
            add(_bound_names(n.target), n.value)
        elif isinstance(n, ast.AugAssign):
            bn = _bound_names(n.target)
            add(bn, n.value)
            for x in bn:
                deps.setdefault(x, set()).add(x)
        elif isinstance(n, (ast.For, ast.AsyncFor)):
            add(_bound_names(n.target), n.iter)
        elif isinstance(n, ast.comprehension):
            add(_bound_names(n.target), n.iter)
        elif isinstance(n, (ast.With, ast.AsyncWith)):
            for it in n.items:
                if it.optional_vars is not None:
                    add(_bound_names(it.optional_vars), it.context_expr)
        elif isinstance(n, ast.NamedExpr):
            add([n.target.id], n.value)
    return deps


def _bound_names(target):
    """Plain names (re)bound by a target; `a[i] = v` / `a.f = v` do not rebind `a`."""
    if isinstance(target, ast.Name):
        return [target.id]
    if isinstance(target, (ast.Tuple, ast.List)):
        out = []
        for e in target.elts:
            out += _bound_names(e.value if isinstance(e, ast.Starred) else e)
        return out
    return []


def closure(deps, seeds):
    seen = set()
    todo = list(seeds)
    while todo:
        n = todo.pop()
        if n in seen:
            continue
        seen.add(n)
        todo.extend(deps.get(n, ()))
    return seen


def bindings_of(fn, name, within=None):
    """All (stmt, value, position) bindings of `name`: value is the RHS; position is the index in a
    tuple target (None for a plain name target).  `within`: restrict to statements under that node."""
    out = []
    root = within if within is not None else fn
    for n in au.walk(root):
        if isinstance(n, (ast.Assign, ast.AnnAssign)):
            targets = n.targets if isinstance(n, ast.Assign) else [n.target]
            if n.value is None:
                continue
            for t in targets:
                if isinstance(t, ast.Name) and t.id == name:
                    out.append((n, n.value, None))
                elif isinstance(t, (ast.Tuple, ast.List)):
                    for i, e in enumerate(t.elts):
                        if isinstance(e, ast.Name) and e.id == name:
                            if isinstance(n.value, (ast.Tuple, ast.List)) and len(n.value.elts) == len(t.elts):
                                out.append((n, n.value.elts[i], None))
                            else:
                                out.append((n, n.value, i))
        elif isinstance(n, ast.AugAssign) and isinstance(n.target, ast.Name) and n.target.id == name:
            out.append((n, n, None))
        elif isinstance(n, (ast.For, ast.AsyncFor)) and name in au.assigned_names(n.target):
            out.append((n, n.iter, "iter"))
    return out


# ---------------------------------------------------------- dominating conditions
def dominating_conditions(stmt, stop=None):
    """(test, polarity) facts that hold whenever `stmt` executes: enclosing if/while guards, and the
    negation of every earlier sibling `if T: <always leaves>` in the enclosing blocks (up to the
    enclosing function or `stop`)."""
    out = list(au.guards(stmt, stop=stop))
    cur = au.enclosing_stmt(stmt)
    while cur is not None and cur is not stop and not isinstance(cur, (ast.FunctionDef, ast.AsyncFunctionDef, ast.Module)):
        blk, owner = au.enclosing_block(cur)
        if blk:
            for s in blk:
                if s is cur:
                    break
                if isinstance(s, ast.If):
                    body_leaves = _always_leaves(s.body)
                    else_leaves = bool(s.orelse) and _always_leaves(s.orelse)
                    if body_leaves and not else_leaves:
                        out.append((s.test, False))
                    elif else_leaves and not body_leaves:
                        out.append((s.test, True))
        cur = owner if isinstance(owner, ast.stmt) else None
        if isinstance(owner, ast.ExceptHandler):
            cur = au.parent(owner)
    return out


def _always_leaves(body):
    """every path through body ends in return / raise / continue / break"""
    try:
        return all(p.end != "fall" for p in paths(body))
    except order.Unsupported:
        return False


def strip_not(test, pol):
    while isinstance(test, ast.UnaryOp) and isinstance(test.op, ast.Not):
        test, pol = test.operand, not pol
    return test, pol


# ------------------------------------------------------------ ordering relations
def relate(code_expr, spec_src, sym, env_ok=None, extra_symbols=()):
    """Evaluate the code predicate and the specification under every ordering of their symbols.
    Returns dict(code_not_spec=env|None, spec_not_code=env|None, n=#environments).  Raises
    order.Unsupported when the code predicate has a leaf `sym` cannot name."""
    spec = ast.parse(spec_src, mode="eval").body
    pc = order.Pred(sym).collect(code_expr)
    ps = order.Pred(lambda n: au.src(n)).collect(spec)
    symbols = pc.symbols | ps.symbols | set(extra_symbols)
    consts = pc.consts | ps.consts
    res = {"code_not_spec": None, "spec_not_code": None, "n": 0}
    for env in order.envs(symbols, consts):
        if env_ok is not None and not env_ok(env):
            continue
        res["n"] += 1
        a = bool(pc.eval(code_expr, env))
        b = bool(ps.eval(spec, env))
        if a and not b and res["code_not_spec"] is None:
            res["code_not_spec"] = dict(env)
        if b and not a and res["spec_not_code"] is None:
            res["spec_not_code"] = dict(env)
    return res


def conj(tests):
    """AST of the conjunction of (test, polarity) pairs."""
    vals = []
    for t, pol in tests:
        vals.append(t if pol else ast.UnaryOp(op=ast.Not(), operand=t))
    if not vals:
        return ast.Constant(value=True)
    if len(vals) == 1:
        return vals[0]
    return ast.BoolOp(op=ast.And(), values=vals)


# --------------------------------------------------------------------- freshness
FRESH_NP = {"copy", "array", "zeros", "ones", "full", "empty", "zeros_like", "ones_like", "full_like",
            "empty_like", "arange", "linspace", "concatenate", "stack", "vstack", "hstack", "maximum",
            "minimum", "where", "cross", "dot"}


def is_fresh(e, np_aliases=("np", "numpy")):
    """R-ALIAS freshness of an array expression (DESIGN section 3)."""
    if isinstance(e, (ast.BinOp,)):
        return True
    if isinstance(e, ast.UnaryOp) and isinstance(e.op, (ast.USub, ast.Invert)):
        return True
    if isinstance(e, ast.Call):
        t = au.call_tail(e)
        c = au.chain(e.func)
        if c and len(c) == 2 and c[0] in np_aliases and t in FRESH_NP:
            return True
        if isinstance(e.func, ast.Attribute) and t == "copy" and not (c and c[0] in np_aliases):
            return True                       # x.copy()
        if t == "deepcopy":
            return True
        if t == "Vec":
            if len(e.args) >= 2:
                return True
            return len(e.args) == 1 and is_fresh(e.args[0], np_aliases)
        if t in ("list", "tuple") and len(e.args) == 1:
            return True
    if isinstance(e, (ast.List, ast.Tuple, ast.ListComp)):
        return True
    return False


def numpy_aliases(module):
    out = set()
    for st in ast.walk(module.tree):
        if isinstance(st, ast.Import):
            for a in st.names:
                if a.name == "numpy" or a.name.startswith("numpy."):
                    out.add(a.asname or a.name.split(".")[0])
    return out


def module_aliases(tree, modname):
    """Local names bound to module `modname` (import heapq as hq -> {'hq'}) and
    names imported from it (from heapq import heappush -> {'heappush': 'heappush'})."""
    mods, names = set(), {}
    for st in ast.walk(tree):
        if isinstance(st, ast.Import):
            for a in st.names:
                if a.name == modname:
                    mods.add(a.asname or a.name)
        elif isinstance(st, ast.ImportFrom) and st.module == modname and st.level == 0:
            for a in st.names:
                names[a.asname or a.name] = a.name
    return mods, names
