"""Rule bodies shared by the C01 and C03 checks (built on the summaries of ha_sx)."""
from __future__ import annotations
import ast
from .. import au
from . import ha_sx as sx, ha_q as q


def seq_over(fr, *attrs):
    """frame iterates the whole container self.<attr> / self.mesh.<attr> / <anything>.<attr>"""
    return fr.kind == "seq" and not fr.extra and isinstance(fr.dom, ast.Attribute) and fr.dom.attr in attrs


def partition(ctx, rule, modname, cls_qual, fn, f_true, f_false, domain, pred, what, policy=None, recv=None):
    """Every index of container `domain` lands in self.<f_true> when the border predicate holds and in self.<f_false> otherwise.
    pred(test term, index variable, frame) -> True when `test` is the border predicate of the element with that index (None: not recognised)."""
    site = ctx.site(modname, fn)
    x = q.summarise(ctx.repo, modname, cls_qual, fn, policy=policy, recv=recv)
    ct, cf = q.Contents(x, f_true), q.Contents(x, f_false)
    if ct.unknown or cf.unknown or len(ct.ins) != 1 or len(cf.ins) != 1:
        ctx.undecided(rule, site, f"{fn.name}: filling of self.{f_true} / self.{f_false} not recognised",
                      f"{len(ct.ins)} / {len(cf.ins)} insertion(s); unread: {(ct.unknown + cf.unknown)[:3]}")
        return None
    (fa, ca, ea, efa), (fb, cb, eb, efb) = ct.ins[0], cf.ins[0]
    if len(fa) != 1 or len(fb) != 1 or not seq_over(fa[0], *domain) or not seq_over(fb[0], *domain) \
            or not (isinstance(ea, ast.Name) and ea.id == fa[0].var) or not (isinstance(eb, ast.Name) and eb.id == fb[0].var):
        ctx.undecided(rule, site, f"{fn.name}: the two lists are not filled with the indices of one loop over all {what}", "")
        return None
    sc = q.split_conds(ca, cb, fa, fb)
    if sc is None:
        ka, kb = set(q.cond_srcs(ca, fa)), set(q.cond_srcs(cb, fb))
        if ka < kb or kb < ka:
            ctx.fail(rule, ctx.site(modname, (efb if ka > kb else efa).fn, (efb if ka > kb else efa).node),
                     f"{fn.name}: self.{f_false if ka > kb else f_true} receives every element that passes the common conditions, self.{f_true if ka > kb else f_false} "
                     f"only those passing one more test: the two lists overlap",
                     "the two lists must partition the elements by the border predicate")
            return None
        ctx.undecided(rule, site, f"{fn.name}: the two lists are not filled under one test and its negation", "")
        return None
    test, pol, common = sc
    test = x.canon(test)          # a flag container held in a local is the attribute it is stored in
    if common:
        ctx.undecided(rule, site, f"{fn.name}: the classification of {what} is itself guarded by a further condition", "")
        return None
    p = pred(test, fa[0].var, fa[0])
    if p is None:
        ctx.undecided(rule, site, f"{fn.name}: the test that splits the {what} is not recognised as the border predicate", "")
        return None
    ctx.check(pol, rule, ctx.site(modname, efa.fn, efa.node),
              f"{fn.name}: {what} satisfying the border predicate are put into self.{f_false}, the others into self.{f_true}",
              "the two lists must partition the elements by the border predicate", note=f"{fn.name}: if/else partition on the border predicate")
    if not (ct.reset and cf.reset):
        ctx.undecided(rule, site, f"{fn.name}: the lists are appended to without being re-created here", "")
    else:
        ctx.ok(rule, site, f"{fn.name}: both lists re-created before being filled")
    return x


def flag_pred(flag_attr, method=None):
    """predicate recogniser: `self.<flag_attr>[k]` (or `self.<method>(k)`) of the element index k"""
    def pred(test, var, fr):
        if isinstance(test, ast.Subscript) and q.field(test.value) == flag_attr and isinstance(test.slice, ast.Name) and test.slice.id == var:
            return True
        if method and isinstance(test, ast.Call) and q.field(test.func) == method and len(test.args) == 1 \
                and isinstance(test.args[0], ast.Name) and test.args[0].id == var:
            return True
        return None
    return pred


def all_terms(x):
    """every term of a summary (for searches of a construct anywhere in a function and the helpers it calls)"""
    for e in x.effects:
        for t in (e.base, e.key if isinstance(e.key, ast.AST) else None, e.value):
            if t is not None:
                yield e, t
        for t in (e.args or []):
            yield e, t
        for t in (e.kwargs or {}).values():
            yield e, t
    seen = set()
    for e in x.effects:
        for fr in e.frames:
            if id(fr) not in seen:
                seen.add(id(fr))
                yield e, fr.dom
    for e in x.effects:
        for t, _ in e.conds:
            if id(t) not in seen:
                seen.add(id(t))
                yield e, t


def two_ended(ctx, rule, site, x, name, who, end_of, spec, gate=None):
    """`A, B = the two ends; who == A -> B; who == B -> A; else None` under every truth assignment of the two comparisons.
    end_of(term) -> 0 | 1 when the term is the first / second end, None otherwise."""
    def atom(t):
        if isinstance(t, ast.Compare) and len(t.ops) == 1 and isinstance(t.ops[0], (ast.Eq, ast.NotEq)):
            l, r = t.left, t.comparators[0]
            other = r if isinstance(l, ast.Name) and l.id == who else (l if isinstance(r, ast.Name) and r.id == who else None)
            if other is not None and end_of(other) in (0, 1):
                return ("is%d" % end_of(other), isinstance(t.ops[0], ast.Eq))
        return gate(t) if gate is not None else None
    if x.ret is None:
        ctx.undecided(rule, site, f"{name}: value returned from inside a loop", "")
        return
    try:
        names = q.atoms_in(x.ret, atom, value=False)
        bad = None
        if gate is not None and "two" not in names:
            raise q.Unknown("no test that there are two ends")
        for env in q.assignments({"is0", "is1"} | names):
            if env["is0"] and env["is1"]:
                continue
            leaf = q.select(x.ret, env, atom)
            got = "none" if isinstance(leaf, ast.Constant) and leaf.value is None else end_of(leaf)
            if got is None:
                raise q.Unknown(au.src(leaf))
            want = 1 if env["is0"] else (0 if env["is1"] else "none")
            if gate is not None and not env["two"]:
                want = "none"
            if got != want and bad is None:
                bad = (env, got, want)
    except q.Unknown as ex:
        ctx.undecided(rule, site, f"{name}: a condition or a returned value is not one of the two ends", str(ex))
        return
    names = {0: "the first end", 1: "the second end", "none": "None"}
    ctx.check(bad is None, rule, site, f"{name} returns {names[bad[1]] if bad else ''} where {names[bad[2]] if bad else ''} is due",
              f"{name} is `{spec}`; case {bad[0] if bad else ''}", note=f"{name} under every truth assignment")


def position_of(ctx, rule, site, x, name, row, who):
    """`first index k of row with row[k] == who, None when absent` (loop with return, or next(generator, None))"""
    sf = q.search_form(x)
    verdict = None
    if sf is not None:
        frames, conds, value, default = sf
        if len(frames) == 1 and frames[0].kind == "seq" and not frames[0].extra and q.same(frames[0].dom, row) and len(conds) == 1 \
                and isinstance(default, ast.Constant) and default.value is None:
            t, pol = au.strip_not(*conds[0])
            elem = ast.Subscript(value=row, slice=sx.N(frames[0].var), ctx=ast.Load())
            if isinstance(t, ast.Compare) and len(t.ops) == 1 and isinstance(t.ops[0], (ast.Eq, ast.NotEq)) \
                    and {au.norm(t.left), au.norm(t.comparators[0])} == {au.norm(elem), au.norm(sx.N(who))}:
                eq = isinstance(t.ops[0], ast.Eq) == pol
                if isinstance(value, ast.Name) and value.id == frames[0].var:
                    verdict = True if eq else "returns the first position whose element differs from the one asked for"
    if verdict is None:
        ctx.undecided(rule, site, f"{name} is not recognised as a search for the position of an element", "")
    else:
        ctx.check(verdict is True, rule, site, f"{name} {verdict}", f"{name} is the position of the element in the row, None if absent", note=name)


# ------------------------------------------------------------------ key normalisation agreement
def _is_keyify(t):
    if isinstance(t, ast.Call) and au.call_tail(t) == "keyify":
        return True
    return isinstance(t, ast.Call) and isinstance(t.func, ast.Name) and t.func.id == "tuple" and len(t.args) == 1 \
        and isinstance(t.args[0], ast.Call) and isinstance(t.args[0].func, ast.Name) and t.args[0].func.id == "sorted"


def keyify_agreement(ctx, rule, classes, never=()):
    """A dictionary attribute filled under keyify(...) keys is only accessed under normalised keys, in every public method of the
    class (private helpers followed): a raw tuple key makes the answer depend on the order of the vertices given by the caller."""
    repo = ctx.repo
    n_tables = 0
    for modname, qual in classes:
        cls = repo.cls(modname, qual)
        methods = repo.methods(repo.module(modname), cls)
        sums = []
        for name, (m, fn, owner) in sorted(methods.items()):
            if name.startswith("_") or ({"setter", "deleter"} & sx._decorators(fn)):
                continue
            x = q.summarise(repo, modname, qual, fn, policy=sx.Policy(never=set(never)))
            sums.append((m, fn, x))
        keyed = set()
        for m, fn, x in sums:
            for e in x.effects:
                if e.kind == "setitem" and q.field(x.canon(e.base)) and _is_keyify(e.key):
                    keyed.add(q.field(x.canon(e.base)))
        n_tables += len(keyed)
        done = set()
        for m, fn, x in sums:
            for e, t in list(all_terms(x)) + ([(None, x.ret)] if x.ret is not None else []):
                t = x.canon(t)
                for n in ast.walk(t):
                    key = tab = None
                    if isinstance(n, ast.Subscript) and q.field(n.value) in keyed:
                        key, tab = n.slice, q.field(n.value)
                    elif isinstance(n, ast.Call) and isinstance(n.func, ast.Attribute) and n.func.attr in ("get", "pop", "setdefault") \
                            and q.field(n.func.value) in keyed and n.args:
                        key, tab = n.args[0], q.field(n.func.value)
                    elif isinstance(n, ast.Compare) and len(n.ops) == 1 and isinstance(n.ops[0], (ast.In, ast.NotIn)) and q.field(n.comparators[0]) in keyed:
                        key, tab = n.left, q.field(n.comparators[0])
                    if key is None:
                        continue
                    _judge_key(ctx, rule, m, fn, x, e, key, tab, done)
            for e in x.effects:
                if e.kind == "setitem" and q.field(x.canon(e.base)) in keyed:
                    _judge_key(ctx, rule, m, fn, x, e, e.key, q.field(x.canon(e.base)), done)
    return n_tables


def _judge_key(ctx, rule, m, fn, x, e, key, tab, done):
    site = ctx.site(m.name, e.fn if e is not None and isinstance(e.fn, ast.FunctionDef) else fn, e.node if e is not None else None)
    k = (site.module, site.qualname, tab, au.norm(key))
    if k in done:
        return
    done.add(k)
    own_key = isinstance(key, ast.Name) and key.id.startswith("$k") or \
        (isinstance(key, ast.Subscript) and q.field(key.value) == tab and isinstance(key.slice, ast.Name) and key.slice.id.startswith("$k"))
    if _is_keyify(key) or own_key:
        ctx.ok(rule, site, f"{tab} accessed under a normalised key")
    elif isinstance(key, (ast.Tuple, ast.List)) and len(key.elts) == 2 and all(isinstance(k_, ast.Call) and isinstance(k_.func, ast.Name) for k_ in key.elts) \
            and [k_.func.id for k_ in key.elts] == ["min", "max"]:
        ctx.ok(rule, site, f"{tab} accessed under a (min, max) key")
    elif isinstance(key, (ast.Tuple, ast.List)) and all(isinstance(k_, ast.Name) and not k_.id.startswith("$") for k_ in key.elts):
        ctx.fail(rule, site, f"self.{tab} is accessed with a raw tuple of vertices as key",
                 f"self.{tab} is filled under keyify(...) keys (sorted tuples); a raw key makes the answer depend on the order of the vertices given by the caller")
    else:
        ctx.undecided(rule, site, f"key of an access to self.{tab} not recognised as normalised", au.src(key)[:80])


# ------------------------------------------------------------------ inverse maps / inverse relations
def _ctx_key(e, frames=None, conds=None):
    fr = e.frames if frames is None else frames
    cs = e.conds if conds is None else conds
    return (tuple(q.frame_doms(fr)), tuple(sorted(q.cond_srcs(cs, fr))))


def inverse_stores(ctx, rule, modname, x, which, label):
    """The maps to / from the boundary are mutually inverse by construction: stores fwd[k] = v and bwd[v] = k made together (same loop,
    same conditions), or one map filled by inverting the other (`for k, v in other.items(): this[v] = k`, dict comprehension).
    which(canonical base term, base term) -> 'f' | 'b' | None tells which map a store goes to.  Returns the number of stores."""
    st = []
    filled = {"f": False, "b": False}
    for e in x.effects:
        if e.kind == "setitem":
            w = which(x.canon(e.base), e.base)
            if w:
                st.append((e, w))
                filled[w] = True
        elif e.kind == "setattr":
            w = which(ast.Attribute(value=e.base, attr=e.key, ctx=ast.Load()), e.base) if isinstance(e.key, str) else None
            v = x.expand(e.value) if e.value is not None else None
            if w and isinstance(v, ast.DictComp) and hasattr(v, "_frames"):
                # map = {k: v for ..}: one store per iteration of the comprehension
                pe = sx.Effect("setitem", base=e.base, key=v.key, value=v.value, frames=tuple(e.frames) + tuple(v._frames),
                               conds=tuple(e.conds) + tuple(v._conds), node=e.node, fn=e.fn)
                st.append((pe, w))
                filled[w] = True
            elif w and v is not None and not q._empty_container(v) and not (isinstance(v, ast.Constant) and v.value is None):
                filled[w] = "assigned"

    def map_of(t):
        return which(x.canon(t), t)

    def inverts(e, w):
        """store e (into map w) copies the other map inverted: this[other[k]] = k for every key k of other"""
        for fr in e.frames:
            if fr.kind == "keys" and map_of(fr.dom) not in (None, w) and not e.conds:
                other_val = ast.Subscript(value=fr.dom, slice=sx.N(fr.var), ctx=ast.Load())
                if q.same(e.key, other_val) and q.same(e.value, sx.N(fr.var)):
                    return True
        return False
    inverted = {w for e, w in st if inverts(e, w)}
    for e, w in st:
        ow = "b" if w == "f" else "f"
        site = ctx.site(modname, e.fn, e.node)
        partner = [o for o, o_w in st if o_w != w and _ctx_key(o) == _ctx_key(e)
                   and q.same(q.alpha(o.key, o.frames), q.alpha(e.value, e.frames)) and q.same(q.alpha(o.value, o.frames), q.alpha(e.key, e.frames))]
        if partner or inverts(e, w) or ow in inverted:
            ctx.ok(rule, site, f"{label} maps stored in lock-step")
        elif any(o_w != w and _ctx_key(o) == _ctx_key(e) for o, o_w in st):
            ctx.fail(rule, site, f"the stores into the two {label} maps made together are not inverse of each other",
                     "the maps to and from the boundary must be mutually inverse index maps: map[k] = v needs inverse[v] = k")
        elif filled[ow] is False:
            ctx.fail(rule, site, f"the {label} map {'from' if w == 'f' else 'to'} the boundary is never filled while the map {'to' if w == 'f' else 'from'} the boundary is",
                     "the maps to and from the boundary must be mutually inverse index maps")
        else:
            ctx.undecided(rule, site, f"the store into the {label} map has no inverse store made with it and the other map is filled in a way that is not recognised", "")
    return len(st)


def relation_insertions(x, table):
    """[(effect, key, inserted value, frames, conds)] for `self.<table>[key].append|add(v)`, also through a local container that is
    stored as self.<table>[key] afterwards"""
    out = []
    stored = {}
    for e in x.effects:
        if e.kind == "setitem" and q.field(x.canon(e.base)) == table:
            v = q._strip_conv(e.value)
            if sx.is_special(v, "$obj"):
                stored[v.id] = e
    copied = {}          # $objD -> True when self.<table> = {k: conv($objD[k]) for k in $objD}
    for e in x.effects:
        if e.kind == "setattr" and q.q_is_self(e.base) and e.key == table:
            v = e.value if not sx.is_special(e.value, "$obj") else x.objs[e.value.id].init
            if isinstance(v, ast.DictComp) and hasattr(v, "_frames") and len(v._frames) == 1 and v._frames[0].kind == "keys" \
                    and sx.is_special(v._frames[0].dom, "$obj") and not v._conds and isinstance(v.key, ast.Name) and v.key.id == v._frames[0].var:
                val = q._strip_conv(v.value)
                if isinstance(val, ast.Subscript) and q.same(val.value, v._frames[0].dom) and q.same(val.slice, v.key):
                    copied[v._frames[0].dom.id] = True
    for e in x.effects:
        if e.kind != "call" or e.method not in ("append", "add") or e.base is None or len(e.args) != 1:
            continue
        b = x.canon(e.base)
        k = q.lookup_key(b, table)
        if k is None and isinstance(e.base, ast.Subscript) and sx.is_special(e.base.value, "$obj") and e.base.value.id in copied:
            k = e.base.slice
        if k is None and isinstance(b, ast.Call) and isinstance(b.func, ast.Attribute) and b.func.attr == "setdefault" and q.field(b.func.value) == table and b.args:
            k = b.args[0]
        if k is not None:
            out.append((e, k, e.args[0], e.frames, e.conds))
        elif sx.is_special(e.base, "$obj") and e.base.id in stored:
            s_ = stored[e.base.id]
            out.append((e, s_.key, e.args[0], e.frames, e.conds))
    return out


def inverse_relations(ctx, rule, modname, x, fn, rel_a, rel_b):
    ia, ib = relation_insertions(x, rel_a), relation_insertions(x, rel_b)
    if not ia or not ib:
        ctx.undecided(rule, ctx.site(modname, fn), f"insertions into the inverse relations self.{rel_a} / self.{rel_b} not recognised", f"{len(ia)} / {len(ib)}")
        return
    def derived_from(ins, src):
        """the insertion `self.<dst>[ROW[i]].add(K)` runs over ROW = (a copy of) the finished row self.<src>[K]: dst is filled from src"""
        e, k, v, fr, cs = ins
        if not fr or fr[-1].kind != "seq" or not isinstance(k, ast.Subscript):
            return False
        last = fr[-1]
        if not (isinstance(k.slice, ast.Name) and k.slice.id == last.var and q.same(x.canon(k.value), x.canon(last.dom))):
            return False
        for _, leaf in sx.leaves(last.dom):
            kk = q.lookup_key(x.canon(q._strip_conv(leaf)), src)
            if kk is None or not q.same(kk, v):
                return False
        return True
    fill_b_from_a = any(derived_from(o, rel_a) for o in ib)
    fill_a_from_b = any(derived_from(o, rel_b) for o in ia)
    for mine, others, a, b in ((ia, ib, rel_a, rel_b), (ib, ia, rel_b, rel_a)):
        for e, k, v, fr, cs in mine:
            src_filled_later = fill_b_from_a if a == rel_a else fill_a_from_b      # the other relation is rebuilt from the rows of this one
            if derived_from((e, k, v, fr, cs), b) or src_filled_later:
                ctx.check(True, rule, ctx.site(modname, e.fn, e.node), "", "", note=f"{rel_a}/{rel_b}: one relation is filled from the finished rows of the other")
                continue
            partner = [o for o in others if _ctx_key(o[0], o[3], o[4]) == _ctx_key(e, fr, cs)
                       and q.same(q.alpha(o[1], o[3]), q.alpha(v, fr)) and q.same(q.alpha(o[2], o[3]), q.alpha(k, fr))]
            ctx.check(bool(partner), rule, ctx.site(modname, e.fn, e.node),
                      f"an insertion into self.{a} has no inverse insertion into self.{b} made with it",
                      f"{rel_a} and {rel_b} are inverse relations: y in A[x] iff x in B[y]", note=f"{rel_a}/{rel_b} inserted in lock-step")


# ------------------------------------------------------------------ anchors found by role
def method_of(repo, modname, cls_qual, name):
    """(module name, FunctionDef) of method `name` of the class, looked up along its bases (a method moved to a base class is still found)"""
    mod = repo.module(modname)
    m = repo.methods(mod, repo.cls(modname, cls_qual)).get(name)
    return (m[0].name, m[1]) if m else None


def guard_callee(repo, modname, cls_qual, field):
    """the method called by the cold path of the lazy guards of `field`:  if self.<field> is None: self.<M>()  -> (module name, FunctionDef) of M"""
    mod = repo.module(modname)
    cls = repo.cls(modname, cls_qual)
    methods = repo.methods(mod, cls)
    votes = {}
    for m, c in repo.mro(mod, cls):
        for fn in c.body:
            if not isinstance(fn, ast.FunctionDef):
                continue
            for st in au.stmts(fn.body):
                if isinstance(st, ast.If) and isinstance(st.test, ast.Compare) and len(st.test.ops) == 1 and isinstance(st.test.ops[0], ast.Is) \
                        and au.is_self_attr(st.test.left, field) and isinstance(st.test.comparators[0], ast.Constant) and st.test.comparators[0].value is None:
                    for s2 in st.body:
                        if isinstance(s2, ast.Expr) and isinstance(s2.value, ast.Call) and au.is_self_attr(s2.value.func) and not s2.value.args:
                            votes[s2.value.func.attr] = votes.get(s2.value.func.attr, 0) + 1
    if not votes:
        return None
    best = max(votes.values())
    names = [n for n, v in votes.items() if v == best]
    if len(names) != 1 or names[0] not in methods:
        return None
    m, fn, o = methods[names[0]]
    return m.name, fn


def private_anchor(ctx, rule, modname, cls_qual, name, finder=None):
    """FunctionDef of a private method the rule is about: by its current name, else by role (finder() -> (module, fn) | None).
    When neither works the rule is undecided - a renamed helper is not a vanished public anchor.  Returns (module name, fn) or None."""
    r = method_of(ctx.repo, modname, cls_qual, name) if cls_qual else None
    if r is None and not cls_qual and ctx.repo.has_func(modname, name):
        r = (ctx.repo.module(modname).name, ctx.repo.func(modname, name))
    if r is None and finder is not None:
        r = finder()
    if r is None:
        ctx.undecided(rule, ctx.site(modname, cls_qual or name), f"the helper `{name}` was not found under that name nor by its role", "")
    return r


def method_with(repo, modname, cls_qual, pred):
    """the unique method defined in the body of the class for which pred(FunctionDef) holds"""
    mod = repo.module(modname)
    cls = repo.cls(modname, cls_qual)
    hits = [st for st in cls.body if isinstance(st, ast.FunctionDef) and pred(st)]
    return (mod.name, hits[0]) if len(hits) == 1 else None


def builders(repo, modname, cls_qual):
    """names of the methods called from the cold path of a lazy guard (`if self.<f> is None: self.<M>()`) anywhere in the class and its bases"""
    cache = repo.__dict__.setdefault("_ha_builders", {})
    key = (modname, cls_qual)
    if key in cache:
        return cache[key]
    mod = repo.module(modname)
    out = set()
    for m, c in repo.mro(mod, repo.cls(modname, cls_qual)):
        for fn in c.body:
            if not isinstance(fn, ast.FunctionDef):
                continue
            for st in au.stmts(fn.body):
                if isinstance(st, ast.If) and isinstance(st.test, ast.Compare) and len(st.test.ops) == 1 and isinstance(st.test.ops[0], ast.Is) \
                        and au.is_self_attr(st.test.left) and isinstance(st.test.comparators[0], ast.Constant) and st.test.comparators[0].value is None:
                    for s2 in st.body:
                        if isinstance(s2, ast.Expr) and isinstance(s2.value, ast.Call) and au.is_self_attr(s2.value.func):
                            out.add(s2.value.func.attr)
    cache[key] = out
    return out
