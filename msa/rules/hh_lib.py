"""Models of the python builtins and of the numpy / math / cmath functions the geometric primitives use (for hh_eval).
Import hh_eval, not this module."""
from __future__ import annotations
import math, cmath
from .hh_np import Arr, Unknown, Raised, asarr, elementwise, reduce_axis, kind, join, cast, broadcast_vals, _prod
from .hh_sym import is_sym, sym_math, SymC
from .hh_eval import Builtin, ErrState, DType, Lazy, ExtM, Obj, Cls, Func, ExcObj, Rec, is_number


def B(name, attrs=None):
    def deco(fn):
        return Builtin(name, fn, attrs)
    return deco


def scalar(x, what="argument"):
    """a python number out of a number or a one-element array (what math.* accepts)"""
    if is_number(x):
        return x
    if isinstance(x, Arr) and x.size == 1:
        return x.vals()[0]
    if isinstance(x, Arr):
        raise Raised(TypeError, "only length-1 arrays can be converted to Python scalars")
    raise Raised(TypeError, f"{what} must be a number, not {type(x).__name__}")


def real(x):
    v = scalar(x)
    if isinstance(v, complex):
        raise Raised(TypeError, "must be real number, not complex")
    return v


def no_kw(kwargs, allowed=()):
    for k in kwargs:
        if k not in allowed:
            raise Unknown(f"keyword argument {k}")


def dtype_of(spec):
    if spec is None:
        return None
    if isinstance(spec, DType):
        return spec.k
    if spec is float:
        return "f"
    if spec is int:
        return "i"
    if spec is bool:
        return "b"
    if spec is complex:
        return "c"
    if isinstance(spec, str):
        m = {"float": "f", "float64": "f", "float32": "f", "f": "f", "d": "f", "int": "i", "int64": "i", "int32": "i", "i": "i",
             "bool": "b", "complex": "c", "complex128": "c"}
        if spec in m:
            return m[spec]
    raise Unknown(f"dtype {spec!r}")


def shape_of(s):
    if isinstance(s, int) and not isinstance(s, bool):
        return (s,)
    if isinstance(s, (tuple, list)) and all(isinstance(x, int) and not isinstance(x, bool) for x in s):
        return tuple(s)
    raise Unknown("array shape")


# ------------------------------------------------------------------------------------------------ python builtins
def _len(it, a, k):
    (x,) = a
    if isinstance(x, Arr):
        if x.ndim == 0:
            raise Raised(TypeError, "len() of unsized object")
        return x.shape[0]
    if isinstance(x, (list, tuple, str, dict, set, range)):
        return len(x)
    if isinstance(x, Lazy):
        raise Raised(TypeError, "object of type 'generator' has no len()")
    if isinstance(x, Rec) and x.seq is not None:
        return _len(it, [x.seq], {})
    if isinstance(x, Obj):
        m = it.class_members(x.cls).get("__len__")
        if m is not None and m[0] == "func":
            return it.call(Func(m[-1].mod, m[1], bound=x, owner=m[-1]), [], {})
    raise Raised(TypeError, "object has no len()")


def _range(it, a, k):
    if not all(isinstance(x, int) and not isinstance(x, bool) for x in a):
        raise Raised(TypeError, "range() integer argument expected")
    return range(*a)


def _abs(it, a, k):
    (x,) = a
    if isinstance(x, Arr):
        return elementwise(abs, [x])
    return abs(scalar(x))


def _minmax(which):
    def f(it, a, k):
        key = k.pop("key", None)
        default = k.pop("default", _NONE)
        no_kw(k)
        items = it.iterate(a[0]) if len(a) == 1 else list(a)
        if not items:
            if default is not _NONE:
                return default
            raise Raised(ValueError, f"{which}() arg is an empty sequence")
        keys = [it.call(key, [x], {}) for x in items] if key is not None else items
        if any(isinstance(x, Arr) and x.size != 1 for x in keys):
            raise Raised(ValueError, "The truth value of an array with more than one element is ambiguous")
        best = 0
        for i in range(1, len(items)):
            c = it.compare(_LT if which == "min" else _GT, keys[i], keys[best])
            if it.truth(c):
                best = i
        return items[best]
    return f


def _sum(it, a, k):
    start = a[1] if len(a) > 1 else k.pop("start", 0)
    no_kw(k)
    tot = start
    for x in it.iterate(a[0]):
        tot = it.binop(_ADD, tot, x)
    return tot


def _isinstance(it, a, k):
    v, t = a
    if isinstance(t, tuple):
        return any(_isinstance(it, [v, x], {}) for x in t)
    if t is float:
        return isinstance(v, float)
    if t is complex:
        return isinstance(v, complex)
    if t is bool:
        if isinstance(v, bool):
            raise Unknown("isinstance(x, bool): python bool or numpy bool")
        return False
    if t is int:
        if isinstance(v, int):
            raise Unknown("isinstance(x, int): python int or numpy integer")
        return False
    if t in (str, list, tuple, dict, set):
        return isinstance(v, t)
    if t is object:
        return True
    if isinstance(t, Builtin) and t.name in ("ndarray",):
        return isinstance(v, Arr)
    if isinstance(t, Builtin) and t.name in ("number", "floating", "integer"):
        raise Unknown("isinstance with a numpy scalar type")
    if isinstance(t, DType):
        raise Unknown("isinstance with a numpy scalar type")
    if isinstance(t, Builtin) and t.name.startswith("numbers."):
        if not is_number(v):
            return False
        return {"numbers.Number": True, "numbers.Complex": True, "numbers.Real": not isinstance(v, complex),
                "numbers.Rational": isinstance(v, int), "numbers.Integral": isinstance(v, int)}[t.name]
    if isinstance(t, Cls):
        c = it.class_of(v)
        if c is None:
            return False
        return any(x is t.node for _, x in it.repo.mro(c.mod, c.node))
    if isinstance(t, type) and issubclass(t, BaseException):
        return isinstance(v, ExcObj) and it.exc_matches(v.etype, t)
    raise Unknown("isinstance with this type")


def py_type_call(it, t, a, k):
    no_kw(k)
    if t in (float, int, complex, bool):
        if not a:
            return t()
        if t is complex and len(a) == 2:
            if is_sym(a[0]) or is_sym(a[1]):
                return SymC.make(scalar(a[0]), scalar(a[1]))
            return complex(real(a[0]), real(a[1]))
        x = a[0]
        if is_sym(x) or (isinstance(x, Arr) and x.size == 1 and is_sym(x.vals()[0])):
            v = scalar(x)
            if t is float and not isinstance(v, SymC):
                return v                 # float() of an exact value: the value
            if t is complex:
                return SymC.of(v)
            if t is bool:
                return bool(v)
            raise Unknown("int() of a symbolic value")
        if isinstance(x, str):
            try:
                return t(x)
            except ValueError as e:
                raise Raised(ValueError, str(e))
        v = scalar(x)
        if t in (float, int) and isinstance(v, complex):
            raise Raised(TypeError, "can't convert complex")
        if t is int and isinstance(v, float) and (v != v or abs(v) == math.inf):
            raise Raised(ValueError, "cannot convert float NaN/inf to integer")
        if t is bool:
            return it.truth(x)
        return t(v)
    if t is str:
        return "<str>" if a and not isinstance(a[0], (str, int, float, bool)) else str(*a)
    if t in (list, tuple):
        return t(it.iterate(a[0])) if a else t()
    if t is dict:
        if not a:
            return dict(k)
        if isinstance(a[0], dict):
            return dict(a[0])
        return {it._hashable(p[0]): p[1] for p in (it.iterate(x) for x in it.iterate(a[0]))}
    if t is set:
        return set(it._hashable(x) for x in it.iterate(a[0])) if a else set()
    raise Unknown(f"call of {t.__name__}")


def _zip(it, a, k):
    strict = k.pop("strict", False)
    no_kw(k)
    cols = [it.iterate(x) for x in a]
    if strict and len({len(c) for c in cols}) > 1:
        raise Raised(ValueError, "zip() arguments have different lengths")
    return Lazy(list(zip(*cols)))


def _enumerate(it, a, k):
    start = a[1] if len(a) > 1 else k.pop("start", 0)
    no_kw(k)
    return Lazy([(i + start, x) for i, x in enumerate(it.iterate(a[0]))])


def _sorted(it, a, k):
    key = k.pop("key", None)
    rev = k.pop("reverse", False)
    no_kw(k)
    items = it.iterate(a[0])
    keys = [it.call(key, [x], {}) for x in items] if key is not None else items
    import functools

    def cmp(i, j):
        if it.truth(it.compare(_LT, keys[i], keys[j])):
            return -1
        if it.truth(it.compare(_LT, keys[j], keys[i])):
            return 1
        return 0
    order = sorted(range(len(items)), key=functools.cmp_to_key(cmp), reverse=bool(rev))
    return [items[i] for i in order]


def _all(it, a, k):
    return all(it.truth(x) for x in it.iterate(a[0]))


def _any(it, a, k):
    return any(it.truth(x) for x in it.iterate(a[0]))


def _round(it, a, k):
    v = real(a[0])
    if len(a) > 1:
        return round(v, a[1])
    return round(v)


def _map(it, a, k):
    cols = [it.iterate(x) for x in a[1:]]
    return Lazy([it.call(a[0], list(t), {}) for t in zip(*cols)])


def _filter(it, a, k):
    return Lazy([x for x in it.iterate(a[1]) if it.truth(it.call(a[0], [x], {}) if a[0] is not None else x)])


def _divmod(it, a, k):
    x, y = real(a[0]), real(a[1])
    if y == 0:
        raise Raised(ZeroDivisionError, "divmod by zero")
    return divmod(x, y)


def _pow(it, a, k):
    if len(a) != 2:
        raise Unknown("3-argument pow")
    return it.binop(_POW, a[0], a[1])


def _type(it, a, k):
    if len(a) != 1:
        raise Unknown("type() with three arguments")
    c = it.class_of(a[0])
    if c is not None:
        return c
    v = a[0]
    if isinstance(v, Arr):
        return EXT["numpy"]["ndarray"]
    if isinstance(v, (str, list, tuple, dict, set)) or v is None:
        return type(v)
    if isinstance(v, float):
        return float                # (np.float64 is a subclass of float: only used in messages / isinstance-like comparisons)
    raise Unknown("type() of a number")


def _getattr(it, a, k):
    try:
        return it.getattr(a[0], a[1])
    except Raised as e:
        if e.etype is AttributeError and len(a) > 2:
            return a[2]
        raise


def _hasattr(it, a, k):
    try:
        it.getattr(a[0], a[1])
        return True
    except Raised as e:
        if e.etype is AttributeError:
            return False
        raise


def _next(it, a, k):
    items = it.iterate(a[0])
    if items:
        return items[0]
    if len(a) > 1:
        return a[1]
    raise Raised(StopIteration, "")


import ast as _ast
_LT, _GT, _ADD, _POW, _SUB, _MUL, _DIV = _ast.Lt(), _ast.Gt(), _ast.Add(), _ast.Pow(), _ast.Sub(), _ast.Mult(), _ast.Div()
_NONE = object()

BUILTINS = {
    "len": Builtin("len", _len), "range": Builtin("range", _range), "abs": Builtin("abs", _abs),
    "min": Builtin("min", _minmax("min")), "max": Builtin("max", _minmax("max")), "sum": Builtin("sum", _sum),
    "isinstance": Builtin("isinstance", _isinstance), "zip": Builtin("zip", _zip), "enumerate": Builtin("enumerate", _enumerate),
    "sorted": Builtin("sorted", _sorted), "all": Builtin("all", _all), "any": Builtin("any", _any), "round": Builtin("round", _round),
    "map": Builtin("map", _map), "filter": Builtin("filter", _filter), "divmod": Builtin("divmod", _divmod), "pow": Builtin("pow", _pow),
    "print": Builtin("print", lambda it, a, k: None), "type": Builtin("type", _type), "getattr": Builtin("getattr", _getattr),
    "hasattr": Builtin("hasattr", _hasattr), "next": Builtin("next", _next),
    "reversed": Builtin("reversed", lambda it, a, k: Lazy(list(reversed(it.iterate(a[0]))))),
    "iter": Builtin("iter", lambda it, a, k: Lazy(it.iterate(a[0]))),
    "id": Builtin("id", lambda it, a, k: (_ for _ in ()).throw(Unknown("id()"))),
    "repr": Builtin("repr", lambda it, a, k: "<repr>"),
}


# ------------------------------------------------------------------------------------------------ sequences
def seq_method(it, v, name):
    if isinstance(v, list):
        if name == "append":
            return Builtin("append", lambda it_, a, k: v.append(a[0]))
        if name == "extend":
            return Builtin("extend", lambda it_, a, k: v.extend(it.iterate(a[0])))
        if name == "insert":
            return Builtin("insert", lambda it_, a, k: v.insert(a[0], a[1]))
        if name == "pop":
            def pop(it_, a, k):
                try:
                    return v.pop(*a)
                except IndexError:
                    raise Raised(IndexError, "pop from empty list")
            return Builtin("pop", pop)
        if name == "copy":
            return Builtin("copy", lambda it_, a, k: list(v))
        if name == "reverse":
            return Builtin("reverse", lambda it_, a, k: v.reverse())
        if name == "clear":
            return Builtin("clear", lambda it_, a, k: v.clear())
        if name == "sort":
            def sort(it_, a, k):
                v[:] = _sorted(it, [v], k)
            return Builtin("sort", sort)
    if isinstance(v, (list, tuple)):
        if name == "index":
            def index(it_, a, k):
                for i, x in enumerate(v):
                    if it._eq(x, a[0]):
                        return i
                raise Raised(ValueError, "value not in sequence")
            return Builtin("index", index)
        if name == "count":
            return Builtin("count", lambda it_, a, k: sum(1 for x in v if it._eq(x, a[0])))
    if isinstance(v, dict):
        if name == "get":
            return Builtin("get", lambda it_, a, k: v.get(it._hashable(a[0]), a[1] if len(a) > 1 else None))
        if name == "keys":
            return Builtin("keys", lambda it_, a, k: list(v.keys()))
        if name == "values":
            return Builtin("values", lambda it_, a, k: list(v.values()))
        if name == "items":
            return Builtin("items", lambda it_, a, k: [(x, y) for x, y in v.items()])
        if name == "copy":
            return Builtin("copy", lambda it_, a, k: dict(v))
        if name == "update":
            return Builtin("update", lambda it_, a, k: v.update(*(a[:1]), **k))
        if name == "pop":
            def dpop(it_, a, k):
                if a[0] in v:
                    return v.pop(a[0])
                if len(a) > 1:
                    return a[1]
                raise Raised(KeyError, str(a[0]))
            return Builtin("pop", dpop)
        if name == "setdefault":
            return Builtin("setdefault", lambda it_, a, k: v.setdefault(it._hashable(a[0]), a[1] if len(a) > 1 else None))
    if isinstance(v, str):
        if name in ("lower", "upper", "strip", "startswith", "endswith", "format", "join", "split", "replace"):
            def sm(it_, a, k):
                if name == "format":
                    return "<formatted>"
                if name == "join":
                    return v.join(str(x) for x in it.iterate(a[0]))
                if not all(isinstance(x, (str, int, tuple)) for x in a):
                    raise Unknown("string method argument")
                return getattr(v, name)(*a)
            return Builtin(name, sm)
    if isinstance(v, set):
        if name == "add":
            return Builtin("add", lambda it_, a, k: v.add(it._hashable(a[0])))
    raise Unknown(f"method {name} of {type(v).__name__}")


# ------------------------------------------------------------------------------------------------ numpy: element-wise
def _dom(f, lo=None, hi=None, kindname="invalid"):
    """real function with a domain: numpy returns nan (+ 'invalid' error) outside, math raises ValueError"""
    return f


def np_unary(name, f, complex_ok=False, keep_int=False, promote=True):
    def g(it, a, k):
        out = k.pop("out", None)
        no_kw(k)
        if len(a) != 1:
            raise Unknown(f"np.{name} with {len(a)} arguments")
        x = a[0]

        def h(v):
            if is_sym(v):
                return sym_math(name, [v])
            if isinstance(v, complex) and not complex_ok:
                raise Unknown(f"np.{name} of a complex number")
            try:
                r = f(v)
            except (ValueError, ZeroDivisionError):
                if it.err["invalid"] == "raise":
                    raise Raised(FloatingPointError, f"invalid value encountered in {name}")
                return math.nan
            except OverflowError:
                raise Unknown("overflow")
            return r
        if isinstance(x, (list, tuple)):
            x = asarr(x)
        if isinstance(x, Arr):
            return elementwise(h, [x], out=out, promote=promote) if keep_int else _float_result(elementwise(h, [x], out=out), x, out)
        return h(scalar(x))
    return Builtin(name, g)


def _float_result(res, x, out):
    if out is None and isinstance(res, Arr) and res.dtype in "bi" and res.size == 0:
        return res.astype("f")
    return res


def np_binary(name, f, promote=True, reducible=False):
    def g(it, a, k):
        out = k.pop("out", None)
        no_kw(k)
        if len(a) == 3 and out is None:
            out = a[2]
            a = a[:2]
        if len(a) != 2:
            raise Unknown(f"np.{name} with {len(a)} arguments")
        if out is not None and not isinstance(out, Arr):
            raise Unknown("out= that is not an array")

        def h(x, y):
            try:
                return f(it, x, y)
            except OverflowError:
                raise Unknown("overflow")
        x, y = a
        if not isinstance(x, (Arr, list, tuple)) and not isinstance(y, (Arr, list, tuple)):
            return h(scalar(x), scalar(y))
        return elementwise(h, [x, y], promote=promote, out=out)
    attrs = {}
    if reducible:
        def red(it, a, k):
            axis = k.pop("axis", 0)
            no_kw(k)
            x = asarr(a[0])
            if len(a) > 1:
                axis = a[1]
            import functools
            return reduce_axis(x, lambda vals: functools.reduce(lambda p, q: f(it, p, q), vals), axis)
        attrs["reduce"] = Builtin(name + ".reduce", red)
    return Builtin(name, g, attrs)


def _nanmax(it, x, y):
    if x != x or y != y:
        return math.nan
    return x if x >= y else y


def _nanmin(it, x, y):
    if x != x or y != y:
        return math.nan
    return x if x <= y else y


def _cmplx_guard(*vs):
    if any(isinstance(v, complex) for v in vs):
        raise Unknown("complex operand")


def _maximum(it, x, y):
    _cmplx_guard(x, y)
    return _nanmax(it, x, y)


def _minimum(it, x, y):
    _cmplx_guard(x, y)
    return _nanmin(it, x, y)


def _fmax(it, x, y):
    _cmplx_guard(x, y)
    if x != x:
        return y
    if y != y:
        return x
    return x if x >= y else y


def _fmin(it, x, y):
    _cmplx_guard(x, y)
    if x != x:
        return y
    if y != y:
        return x
    return x if x <= y else y


def _arith(op):
    def f(it, x, y):
        return it._scalar_op(op, array=True)(x, y)
    return f


def _atan2(it, y, x):
    _cmplx_guard(x, y)
    return math.atan2(y, x)


def _hypot(it, x, y):
    _cmplx_guard(x, y)
    return math.hypot(x, y)


def _fmod(it, x, y):
    _cmplx_guard(x, y)
    if y == 0:
        raise Unknown("fmod by zero")
    r = math.fmod(x, y)
    return int(r) if isinstance(x, int) and isinstance(y, int) else r


def _copysign(it, x, y):
    _cmplx_guard(x, y)
    return math.copysign(x, y)


def _logical(f):
    def g(it, x, y):
        return bool(f(bool(x), bool(y)))
    return g


def _cmpf(op):
    def g(it, x, y):
        _cmplx_guard(x, y) if op not in ("eq", "ne") else None
        import operator
        return bool(getattr(operator, op)(x, y))
    return g


def _sign(v):
    if v != v:
        return math.nan
    if isinstance(v, bool):
        raise Unknown("sign of a boolean")
    r = (v > 0) - (v < 0)
    return float(r) if isinstance(v, float) else r


def _sqrt(v):
    if isinstance(v, complex):
        return cmath.sqrt(v)
    if v < 0:
        raise ValueError
    return math.sqrt(v)


def _floatf(f):
    return lambda v: f(float(v))


# ------------------------------------------------------------------------------------------------ numpy: reductions
def _axis_args(a, k, n_pos=1):
    axis = k.pop("axis", None)
    if len(a) > n_pos:
        axis = a[n_pos]
    if k.pop("keepdims", False):
        raise Unknown("keepdims")
    if isinstance(axis, tuple):
        raise Unknown("tuple axis")
    return axis


def np_reduce(name, f, empty=None, dtype=None):
    def g(it, a, k):
        axis = _axis_args(a, k)
        k.pop("out", None) if k.get("out") is None else None
        no_kw(k)
        x = asarr(a[0])

        def h(vals):
            if not vals:
                if empty is None:
                    raise Raised(ValueError, f"zero-size array to reduction operation {name} which has no identity")
                return empty
            return f(it, vals, x.dtype)
        return reduce_axis(x, h, axis, dtype)
    return Builtin(name, g)


def _r_min(it, vals, dt):
    _cmplx_guard(*vals)
    return math.nan if any(v != v for v in vals) else min(vals)


def _r_max(it, vals, dt):
    _cmplx_guard(*vals)
    return math.nan if any(v != v for v in vals) else max(vals)


def _r_sum(it, vals, dt):
    if dt == "b":
        return sum(1 for v in vals if v)
    tot = vals[0]
    for v in vals[1:]:
        tot = tot + v
    return tot


def _r_prod(it, vals, dt):
    tot = vals[0] if dt != "b" else int(vals[0])
    for v in vals[1:]:
        tot = tot * v
    return tot


def _r_mean(it, vals, dt):
    return _r_sum(it, vals, dt) / len(vals)


def _r_argmin(it, vals, dt):
    _cmplx_guard(*vals)
    return min(range(len(vals)), key=lambda i: vals[i])


def _r_argmax(it, vals, dt):
    _cmplx_guard(*vals)
    return max(range(len(vals)), key=lambda i: vals[i])


R_ALL = np_reduce("all", lambda it, vals, dt: all(bool(v) for v in vals), empty=True)
R_ANY = np_reduce("any", lambda it, vals, dt: any(bool(v) for v in vals), empty=False)
R_MIN = np_reduce("min", _r_min)
R_MAX = np_reduce("max", _r_max)
R_SUM = np_reduce("sum", _r_sum, empty=0.0)
R_PROD = np_reduce("prod", _r_prod, empty=1.0)
R_MEAN = np_reduce("mean", _r_mean)
R_ARGMIN = np_reduce("argmin", _r_argmin)
R_ARGMAX = np_reduce("argmax", _r_argmax)


# ------------------------------------------------------------------------------------------------ numpy: construction
def np_array(it, a, k):
    dt = dtype_of(k.pop("dtype", a[1] if len(a) > 1 else None))
    k.pop("copy", None)
    no_kw(k)
    x = a[0]
    if isinstance(x, Lazy):
        raise Unknown("np.array of a generator")
    if isinstance(x, Rec) and x.seq is not None:
        x = x.seq
    r = asarr(x, dt)
    if r is x or (isinstance(x, Arr) and r.store is x.store):
        r = r.copy()
    return r.view(cls=None)


def np_asarray(it, a, k):
    dt = dtype_of(k.pop("dtype", a[1] if len(a) > 1 else None))
    no_kw(k)
    if isinstance(a[0], Lazy):
        raise Unknown("np.asarray of a generator")
    if isinstance(a[0], Rec) and a[0].seq is not None:
        a = [a[0].seq] + list(a[1:])
    r = asarr(a[0], dt)
    return r.view(cls=None) if isinstance(a[0], Arr) else r


def np_asanyarray(it, a, k):
    dt = dtype_of(k.pop("dtype", a[1] if len(a) > 1 else None))
    no_kw(k)
    return asarr(a[0], dt)


def _filled(value, poison=False):
    def g(it, a, k):
        dt = dtype_of(k.pop("dtype", a[1] if len(a) > 1 else None)) or "f"
        no_kw(k)
        shape = shape_of(a[0])
        v = math.nan if poison and dt in "fc" else value
        return Arr.of([cast(v, dt)] * _prod(shape), shape, dt)
    return g


def np_full(it, a, k):
    dt = dtype_of(k.pop("dtype", a[2] if len(a) > 2 else None))
    no_kw(k)
    shape = shape_of(a[0])
    fill = a[1] if len(a) > 1 else k.pop("fill_value")
    if isinstance(fill, (Arr, list, tuple)):
        vals = broadcast_vals(asarr(fill), shape)
        return Arr.of(vals, shape, dt)
    fill = scalar(fill)
    return Arr.of([fill] * _prod(shape), shape, dt or kind(fill))


def _like(value, poison=False):
    def g(it, a, k):
        x = asarr(a[0])
        dt = dtype_of(k.pop("dtype", None)) or x.dtype
        no_kw(k)
        v = value if value is not None else a[1]
        if poison and dt in "fc":
            v = math.nan
        return Arr.of([cast(scalar(v), dt)] * x.size, x.shape, dt, x.cls if isinstance(a[0], Arr) else None)
    return g


def np_copy(it, a, k):
    no_kw(k)
    return asarr(a[0]).copy(cls=None)


def np_arange(it, a, k):
    dt = dtype_of(k.pop("dtype", None))
    no_kw(k)
    if all(isinstance(x, int) and not isinstance(x, bool) for x in a):
        return Arr.of(list(range(*a)), None, dt or "i")
    raise Unknown("float arange")


def np_linspace(it, a, k):
    num = a[2] if len(a) > 2 else k.pop("num", 50)
    endpoint = k.pop("endpoint", True)
    no_kw(k)
    lo, hi = float(real(a[0])), float(real(a[1]))
    if num == 1:
        return Arr.of([lo], None, "f")
    div = (num - 1) if endpoint else num
    step = (hi - lo) / div
    vals = [lo + i * step for i in range(num)]
    if endpoint and num > 1:
        vals[-1] = hi
    return Arr.of(vals, None, "f")


def np_eye(it, a, k):
    dt = dtype_of(k.pop("dtype", None)) or "f"
    no_kw(k)
    n = a[0]
    return Arr.of([cast(1 if i == j else 0, dt) for i in range(n) for j in range(n)], (n, n), dt)


def np_stack(it, a, k):
    axis = k.pop("axis", a[1] if len(a) > 1 else 0)
    no_kw(k)
    parts = [asarr(x) for x in it.iterate(a[0])]
    if axis != 0:
        if axis in (1, -1) and all(p.ndim == 1 for p in parts) and len({p.shape for p in parts}) == 1:
            n = parts[0].shape[0]
            return Arr.of([p.vals()[i] for i in range(n) for p in parts], (n, len(parts)))
        raise Unknown("stack along another axis")
    if len({p.shape for p in parts}) != 1:
        raise Raised(ValueError, "all input arrays must have the same shape")
    vals = []
    for p in parts:
        vals.extend(p.vals())
    return Arr.of(vals, (len(parts),) + parts[0].shape, join(p.dtype for p in parts))


def np_vstack(it, a, k):
    no_kw(k)
    parts = [asarr(x) for x in it.iterate(a[0])]
    parts = [p if p.ndim >= 2 else Arr(p.store, p.idx, (1, p.size), p.dtype) for p in parts]
    if len({p.shape[1:] for p in parts}) != 1:
        raise Raised(ValueError, "all the input array dimensions except for the concatenation axis must match")
    vals = []
    for p in parts:
        vals.extend(p.vals())
    return Arr.of(vals, (sum(p.shape[0] for p in parts),) + parts[0].shape[1:], join(p.dtype for p in parts))


def np_concatenate(it, a, k):
    axis = k.pop("axis", a[1] if len(a) > 1 else 0)
    no_kw(k)
    parts = [asarr(x) for x in it.iterate(a[0])]
    if axis == 0 and all(p.ndim == 1 for p in parts):
        vals = []
        for p in parts:
            vals.extend(p.vals())
        return Arr.of(vals, None, join(p.dtype for p in parts))
    if axis == 0:
        return np_vstack(it, [parts], {})
    raise Unknown("concatenate along another axis")


def np_hstack(it, a, k):
    no_kw(k)
    parts = [asarr(x) for x in it.iterate(a[0])]
    parts = [p if p.ndim else Arr(p.store, p.idx, (1,), p.dtype) for p in parts]
    if all(p.ndim == 1 for p in parts):
        return np_concatenate(it, [parts], {})
    raise Unknown("hstack of matrices")


def np_where(it, a, k):
    no_kw(k)
    if len(a) != 3:
        raise Unknown("np.where with one argument")
    return elementwise(lambda c, x, y: x if c else y, a)


def np_clip(it, a, k):
    lo = a[1] if len(a) > 1 else k.pop("a_min", k.pop("min", None))
    hi = a[2] if len(a) > 2 else k.pop("a_max", k.pop("max", None))
    out = k.pop("out", None)
    no_kw(k)
    r = a[0] if isinstance(a[0], Arr) else asarr(a[0]) if isinstance(a[0], (list, tuple)) else a[0]
    if lo is not None:
        r = elementwise(lambda x, y: _maximum(it, x, y), [r, lo])
    if hi is not None:
        r = elementwise(lambda x, y: _minimum(it, x, y), [r, hi])
    if out is not None:
        out.set(slice(None) if out.ndim else (), r)
        return out
    return r


def np_dot(it, a, k):
    no_kw(k)
    x, y = a[0], a[1]
    if is_number(x) or is_number(y):
        return it.binop(_MUL, x, y)
    x, y = asarr(x), asarr(y)
    if x.ndim == 0 or y.ndim == 0:
        return it.binop(_MUL, x, y)
    mul = it._scalar_op(_MUL, array=True)

    def inner(p, q):
        if len(p) != len(q):
            raise Raised(ValueError, f"shapes not aligned ({len(p)} and {len(q)})")
        tot = 0 if join([x.dtype, y.dtype]) in "bi" else 0.0
        for u, v in zip(p, q):
            tot = tot + mul(u, v) if not (isinstance(u, bool) and isinstance(v, bool)) else tot + (u and v)
        return tot
    if x.ndim == 1 and y.ndim == 1:
        return inner(x.vals(), y.vals())
    if x.ndim == 2 and y.ndim == 1:
        return Arr.of([inner(r.vals(), y.vals()) for r in x.rows()], None, None, x.cls or y.cls)
    if x.ndim == 1 and y.ndim == 2:
        cols = [y.get((slice(None), j)).vals() for j in range(y.shape[1])]
        return Arr.of([inner(x.vals(), c) for c in cols], None, None, x.cls or y.cls)
    if x.ndim == 2 and y.ndim == 2:
        cols = [y.get((slice(None), j)).vals() for j in range(y.shape[1])]
        vals = [inner(r.vals(), c) for r in x.rows() for c in cols]
        return Arr.of(vals, (x.shape[0], y.shape[1]), None, x.cls or y.cls)
    raise Unknown("dot of arrays with more than two dimensions")


def np_vdot(it, a, k):
    x, y = asarr(a[0]), asarr(a[1])
    if x.dtype == "c":
        raise Unknown("vdot of complex")
    return np_dot(it, [Arr.of(x.vals()), Arr.of(y.vals())], {})


def np_cross(it, a, k):
    no_kw(k)
    x, y = asarr(a[0]), asarr(a[1])
    if x.shape != (3,) or y.shape != (3,):
        raise Unknown("np.cross of other than two 3-vectors")
    p, q = x.vals(), y.vals()
    return Arr.of([p[1] * q[2] - p[2] * q[1], p[2] * q[0] - p[0] * q[2], p[0] * q[1] - p[1] * q[0]], None, join([x.dtype, y.dtype, "i"]),
                  x.cls or y.cls)


def np_outer(it, a, k):
    x, y = asarr(a[0]), asarr(a[1])
    return Arr.of([u * v for u in x.vals() for v in y.vals()], (x.size, y.size))


def np_norm(it, a, k):
    ordv = a[1] if len(a) > 1 else k.pop("ord", None)
    axis = k.pop("axis", None)
    no_kw(k)
    x = asarr(a[0])

    def nrm(vals):
        vs = [abs(v) for v in vals]
        if ordv is None or ordv == 2:
            return math.sqrt(sum(v * v for v in vs))
        if ordv == 1:
            return float(sum(vs))
        if ordv == math.inf:
            return float(max(vs)) if vs else 0.0
        if ordv == -math.inf:
            return float(min(vs))
        raise Unknown(f"norm of order {ordv}")
    if axis is None:
        if x.ndim > 1 and ordv is not None:
            raise Unknown("matrix norm")
        return nrm(x.vals())
    return reduce_axis(x, nrm, axis)


def np_det(it, a, k):
    m = asarr(a[0])
    v = m.vals()
    if m.shape == (2, 2):
        return float(v[0] * v[3] - v[1] * v[2])
    if m.shape == (3, 3):
        return float(v[0] * (v[4] * v[8] - v[5] * v[7]) - v[1] * (v[3] * v[8] - v[5] * v[6]) + v[2] * (v[3] * v[7] - v[4] * v[6]))
    raise Unknown("determinant of another shape")


def np_transpose(it, a, k):
    no_kw(k)
    if len(a) > 1:
        raise Unknown("transpose with axes")
    return _transpose(asarr(a[0]))


def _transpose(x):
    if x.ndim < 2:
        return x.view()
    if x.ndim == 2:
        n, m = x.shape
        return Arr(x.store, [x.idx[i * m + j] for j in range(m) for i in range(n)], (m, n), x.dtype, x.cls)
    raise Unknown("transpose of a 3-d array")


def np_reshape(it, a, k):
    no_kw(k)
    x = asarr(a[0])
    shape = a[1] if len(a) == 2 else tuple(a[1:])
    return _reshape(x, shape)


def _reshape(x, shape):
    if isinstance(shape, int):
        shape = (shape,)
    shape = list(shape)
    if shape.count(-1) == 1:
        rest = _prod([s for s in shape if s != -1])
        if rest == 0 or x.size % rest:
            raise Raised(ValueError, "cannot reshape")
        shape[shape.index(-1)] = x.size // rest
    if _prod(shape) != x.size:
        raise Raised(ValueError, f"cannot reshape array of size {x.size} into shape {tuple(shape)}")
    return Arr(x.store, x.idx, tuple(shape), x.dtype, x.cls)


def np_array_equal(it, a, k):
    no_kw(k)
    x, y = asarr(a[0]), asarr(a[1])
    return x.shape == y.shape and all(p == q for p, q in zip(x.vals(), y.vals()))


def np_isclose(it, a, k):
    rtol = k.pop("rtol", a[2] if len(a) > 2 else 1e-5)
    atol = k.pop("atol", a[3] if len(a) > 3 else 1e-8)
    no_kw(k)
    return elementwise(lambda x, y: bool(x == y or abs(x - y) <= atol + rtol * abs(y)), [a[0], a[1]], promote=False)


def np_allclose(it, a, k):
    r = np_isclose(it, a, k)
    return all(r.vals()) if isinstance(r, Arr) else bool(r)


def np_sort(it, a, k):
    no_kw(k, ())
    x = asarr(a[0])
    if x.ndim != 1:
        raise Unknown("sort of a matrix")
    _cmplx_guard(*x.vals())
    return Arr.of(sorted(x.vals()), None, x.dtype, x.cls)


def np_argsort(it, a, k):
    no_kw(k)
    x = asarr(a[0])
    if x.ndim != 1:
        raise Unknown("argsort of a matrix")
    v = x.vals()
    return Arr.of(sorted(range(len(v)), key=lambda i: v[i]), None, "i")


def np_seterr(it, a, k):
    if a:
        raise Unknown("positional np.seterr")
    old = dict(it.err)
    allv = k.pop("all", None)
    if allv is not None:
        for key in it.err:
            it.err[key] = allv
    for key, v in k.items():
        if key not in it.err:
            raise Raised(TypeError, f"seterr() got an unexpected keyword argument '{key}'")
        if v is not None:
            it.err[key] = v
    for v in it.err.values():
        if v not in ("ignore", "warn", "raise", "call", "print", "log"):
            raise Raised(ValueError, "invalid error mode")
    return old


def np_errstate(it, a, k):
    if a:
        raise Unknown("positional np.errstate")
    s = {}
    allv = k.pop("all", None)
    if allv is not None:
        s = {key: allv for key in it.err}
    for key, v in k.items():
        if key not in it.err:
            raise Unknown(f"errstate({key}=...)")
        if v is not None:
            s[key] = v
    return ErrState(s)


def np_atleast_1d(it, a, k):
    x = asarr(a[0])
    return x if x.ndim >= 1 else Arr(x.store, x.idx, (1,), x.dtype, x.cls)


def np_count_nonzero(it, a, k):
    no_kw(k)
    return sum(1 for v in asarr(a[0]).vals() if v)


def np_isscalar(it, a, k):
    return is_number(a[0]) or isinstance(a[0], str)


def np_ndim(it, a, k):
    return asarr(a[0]).ndim


def np_shape(it, a, k):
    return asarr(a[0]).shape


def np_size(it, a, k):
    return asarr(a[0]).size


def np_ravel(it, a, k):
    x = asarr(a[0])
    return Arr(x.store, x.idx, (x.size,), x.dtype, x.cls)


def np_squeeze(it, a, k):
    no_kw(k)
    x = asarr(a[0])
    return Arr(x.store, x.idx, tuple(s for s in x.shape if s != 1), x.dtype, x.cls)


def np_trace(it, a, k):
    x = asarr(a[0])
    if x.ndim != 2:
        raise Unknown("trace")
    return _r_sum(it, [x.get((i, i)) for i in range(min(x.shape))], x.dtype)


def np_copyto(it, a, k):
    no_kw(k)
    dst = a[0]
    if not isinstance(dst, Arr):
        raise Raised(TypeError, "copyto destination")
    dst.set(tuple(slice(None) for _ in dst.shape) if dst.ndim else (), a[1])


def np_issubdtype(it, a, k):
    d = dtype_of(a[0]) if not isinstance(a[0], Builtin) else None
    t = a[1]
    name = t.name if isinstance(t, Builtin) else {"f": "floating", "i": "integer", "c": "complexfloating", "b": "bool_"}.get(dtype_of(t))
    if d is None:
        raise Unknown("issubdtype")
    table = {"floating": "f", "integer": "i", "signedinteger": "i", "complexfloating": "c", "bool_": "b", "inexact": "fc", "number": "ifc"}
    if name not in table:
        raise Unknown("issubdtype")
    return d in table[name]


def np_einsum(it, a, k):
    no_kw(k)
    spec = a[0]
    if not isinstance(spec, str) or "." in spec:
        raise Unknown("einsum specification")
    ops = [asarr(x) for x in a[1:]]
    spec = spec.replace(" ", "")
    lhs, _, rhs = spec.partition("->")
    ins = lhs.split(",")
    if len(ins) != len(ops) or any(len(i) != o.ndim for i, o in zip(ins, ops)):
        raise Raised(ValueError, "einsum operands do not match the subscripts")
    if "->" not in spec:
        letters = "".join(ins)
        rhs = "".join(sorted(c for c in set(letters) if letters.count(c) == 1))
    dims = {}
    for i, o in zip(ins, ops):
        for c, n in zip(i, o.shape):
            if dims.setdefault(c, n) != n:
                raise Raised(ValueError, "einsum dimension mismatch")
    summed = [c for c in dims if c not in rhs]
    import itertools
    mul = it._scalar_op(_MUL, array=True)
    out = []
    vals = [o.vals() for o in ops]
    strides = []
    for o in ops:
        st_, acc = [], 1
        for n in reversed(o.shape):
            st_.append(acc)
            acc *= n
        strides.append(st_[::-1])
    for combo in itertools.product(*[range(dims[c]) for c in rhs]):
        env = dict(zip(rhs, combo))
        tot = 0
        for inner in itertools.product(*[range(dims[c]) for c in summed]):
            env.update(zip(summed, inner))
            term = 1
            for i, v, st_ in zip(ins, vals, strides):
                term = mul(term, v[sum(env[c] * s_ for c, s_ in zip(i, st_))]) if not isinstance(term, bool) else v[sum(env[c] * s_ for c, s_ in zip(i, st_))]
            tot = tot + term
        out.append(tot)
    dt = join([o.dtype for o in ops] + ["i"])
    if not rhs:
        return cast(out[0], dt)
    return Arr.of(out, tuple(dims[c] for c in rhs), dt)


def np_roll(it, a, k):
    shift = a[1] if len(a) > 1 else k.pop("shift")
    axis = a[2] if len(a) > 2 else k.pop("axis", None)
    no_kw(k)
    x = asarr(a[0])
    if not isinstance(shift, int):
        raise Unknown("roll by a tuple")
    if x.ndim == 1 or axis is None:
        v = x.vals()
        n = len(v)
        if n == 0:
            return x.copy()
        sh = shift % n
        return Arr.of(v[-sh:] + v[:-sh] if sh else v, x.shape, x.dtype, x.cls)
    if axis in (0, -x.ndim):
        rows = x.rows()
        n = len(rows)
        sh = shift % n if n else 0
        rows = rows[-sh:] + rows[:-sh] if sh else rows
        vals = []
        for r in rows:
            vals.extend(r.vals() if isinstance(r, Arr) else [r])
        return Arr.of(vals, x.shape, x.dtype, x.cls)
    raise Unknown("roll along another axis")


def np_flip(it, a, k):
    axis = a[1] if len(a) > 1 else k.pop("axis", None)
    no_kw(k)
    x = asarr(a[0])
    if x.ndim == 1 and axis in (None, 0, -1):
        return x.get(slice(None, None, -1))
    if x.ndim == 2 and axis == 0:
        return x.get(slice(None, None, -1))
    raise Unknown("flip")


def np_diff(it, a, k):
    axis = k.pop("axis", -1)
    no_kw(k)
    x = asarr(a[0])
    if len(a) > 1 and a[1] != 1:
        raise Unknown("higher-order diff")
    if x.ndim == 1:
        v = x.vals()
        return Arr.of([q - p for p, q in zip(v, v[1:])], None, join([x.dtype, "i"]), x.cls)
    if x.ndim == 2 and axis == 0:
        rows = x.rows()
        vals = []
        for p, q in zip(rows, rows[1:]):
            vals.extend(v2 - v1 for v1, v2 in zip(p.vals(), q.vals()))
        return Arr.of(vals, (x.shape[0] - 1, x.shape[1]), join([x.dtype, "i"]), x.cls)
    raise Unknown("diff along another axis")


def np_ptp(it, a, k):
    axis = _axis_args(a, k)
    no_kw(k)
    return reduce_axis(asarr(a[0]), lambda vals: max(vals) - min(vals), axis)


def np_round(it, a, k):
    dec = a[1] if len(a) > 1 else k.pop("decimals", 0)
    no_kw(k)
    x = a[0]
    f = lambda v: v if isinstance(v, int) else float(round(v, dec))
    return elementwise(f, [x]) if isinstance(x, (Arr, list, tuple)) else f(scalar(x))


def np_angle(it, a, k):
    no_kw(k)
    f = lambda v: cmath.phase(complex(v))
    return elementwise(f, [a[0]]) if isinstance(a[0], (Arr, list, tuple)) else f(scalar(a[0]))


def np_column_stack(it, a, k):
    no_kw(k)
    parts = [asarr(x) for x in it.iterate(a[0])]
    if all(p.ndim == 1 for p in parts) and len({p.shape for p in parts}) == 1:
        n = parts[0].shape[0]
        return Arr.of([p.vals()[i] for i in range(n) for p in parts], (n, len(parts)), join(p.dtype for p in parts))
    raise Unknown("column_stack of matrices")


def _cx(real_f, complex_f):
    return lambda v: complex_f(v) if isinstance(v, complex) else real_f(v)


U = np_unary
NUMPY = {
    "einsum": Builtin("einsum", np_einsum), "roll": Builtin("roll", np_roll), "flip": Builtin("flip", np_flip), "diff": Builtin("diff", np_diff),
    "ptp": Builtin("ptp", np_ptp), "round": Builtin("round", np_round), "around": Builtin("around", np_round), "angle": Builtin("angle", np_angle),
    "column_stack": Builtin("column_stack", np_column_stack),
    "pi": math.pi, "inf": math.inf, "nan": math.nan, "e": math.e, "newaxis": None, "infty": math.inf, "Inf": math.inf,
    "float64": DType("f"), "float32": DType("f"), "float_": DType("f"), "double": DType("f"), "int64": DType("i"), "int32": DType("i"),
    "int_": DType("i"), "intp": DType("i"), "bool_": DType("b"), "complex128": DType("c"), "complex64": DType("c"),
    "ndarray": Builtin("ndarray", lambda it, a, k: (_ for _ in ()).throw(Unknown("np.ndarray()"))),
    "floating": Builtin("floating", None), "integer": Builtin("integer", None), "number": Builtin("number", None),
    "complexfloating": Builtin("complexfloating", None), "signedinteger": Builtin("signedinteger", None), "inexact": Builtin("inexact", None),
    "sqrt": U("sqrt", _sqrt, complex_ok=True), "abs": U("abs", abs, True, True), "absolute": U("absolute", abs, True, True),
    "fabs": U("fabs", _floatf(abs)),
    "sin": U("sin", _cx(math.sin, cmath.sin), complex_ok=True), "cos": U("cos", _cx(math.cos, cmath.cos), complex_ok=True), "tan": U("tan", math.tan), "arctan": U("arctan", math.atan),
    "arccos": U("arccos", math.acos), "arcsin": U("arcsin", math.asin), "exp": U("exp", _cx(math.exp, cmath.exp), complex_ok=True), "log": U("log", _cx(math.log, cmath.log), complex_ok=True),
    "sinh": U("sinh", math.sinh), "cosh": U("cosh", math.cosh), "tanh": U("tanh", math.tanh),
    "deg2rad": U("deg2rad", math.radians), "rad2deg": U("rad2deg", math.degrees), "radians": U("radians", math.radians),
    "degrees": U("degrees", math.degrees),
    "sign": U("sign", _sign, keep_int=True), "floor": U("floor", lambda v: v if isinstance(v, int) else float(math.floor(v)), keep_int=True),
    "ceil": U("ceil", lambda v: v if isinstance(v, int) else float(math.ceil(v)), keep_int=True),
    "square": U("square", lambda v: v * v, True, True), "negative": U("negative", lambda v: -v, True, True),
    "positive": U("positive", lambda v: +v, True, True),
    "isnan": U("isnan", lambda v: v != v, True, True, False), "isinf": U("isinf", lambda v: isinstance(v, float) and abs(v) == math.inf, False, True, False),
    "isfinite": U("isfinite", lambda v: not (v != v or (isinstance(v, float) and abs(v) == math.inf)), False, True, False),
    "logical_not": U("logical_not", lambda v: not v, True, True, False),
    "real": U("real", lambda v: v.real if isinstance(v, complex) else v, True, True),
    "imag": U("imag", lambda v: v.imag if isinstance(v, complex) else type(v)(0) if not isinstance(v, bool) else 0, True, True),
    "conj": U("conj", lambda v: v.conjugate() if isinstance(v, complex) else v, True, True),
    "conjugate": U("conjugate", lambda v: v.conjugate() if isinstance(v, complex) else v, True, True),
    "maximum": np_binary("maximum", _maximum, reducible=True), "minimum": np_binary("minimum", _minimum, reducible=True),
    "fmax": np_binary("fmax", _fmax, reducible=True), "fmin": np_binary("fmin", _fmin, reducible=True),
    "add": np_binary("add", _arith(_ADD), reducible=True), "subtract": np_binary("subtract", _arith(_SUB)),
    "multiply": np_binary("multiply", _arith(_MUL), reducible=True), "divide": np_binary("divide", _arith(_DIV)),
    "true_divide": np_binary("true_divide", _arith(_DIV)), "power": np_binary("power", _arith(_POW)),
    "mod": np_binary("mod", _arith(_ast.Mod())), "remainder": np_binary("remainder", _arith(_ast.Mod())),
    "fmod": np_binary("fmod", _fmod), "arctan2": np_binary("arctan2", _atan2), "hypot": np_binary("hypot", _hypot),
    "copysign": np_binary("copysign", _copysign),
    "logical_and": np_binary("logical_and", _logical(lambda p, q: p and q), promote=False, reducible=True),
    "logical_or": np_binary("logical_or", _logical(lambda p, q: p or q), promote=False, reducible=True),
    "logical_xor": np_binary("logical_xor", _logical(lambda p, q: p != q), promote=False),
    "greater": np_binary("greater", _cmpf("gt"), promote=False), "greater_equal": np_binary("greater_equal", _cmpf("ge"), promote=False),
    "less": np_binary("less", _cmpf("lt"), promote=False), "less_equal": np_binary("less_equal", _cmpf("le"), promote=False),
    "equal": np_binary("equal", _cmpf("eq"), promote=False), "not_equal": np_binary("not_equal", _cmpf("ne"), promote=False),
    "all": R_ALL, "any": R_ANY, "alltrue": R_ALL, "min": R_MIN, "amin": R_MIN, "max": R_MAX, "amax": R_MAX, "sum": R_SUM, "prod": R_PROD,
    "mean": R_MEAN, "average": R_MEAN, "argmin": R_ARGMIN, "argmax": R_ARGMAX,
    "array": Builtin("array", np_array), "asarray": Builtin("asarray", np_asarray), "asanyarray": Builtin("asanyarray", np_asanyarray),
    "ascontiguousarray": Builtin("ascontiguousarray", np_asarray), "asfarray": Builtin("asfarray", lambda it, a, k: asarr(a[0], "f")),
    "zeros": Builtin("zeros", _filled(0)), "ones": Builtin("ones", _filled(1)), "empty": Builtin("empty", _filled(0, poison=True)),
    "full": Builtin("full", np_full), "zeros_like": Builtin("zeros_like", _like(0)), "ones_like": Builtin("ones_like", _like(1)),
    "empty_like": Builtin("empty_like", _like(0, poison=True)), "full_like": Builtin("full_like", _like(None)),
    "copy": Builtin("copy", np_copy), "arange": Builtin("arange", np_arange), "linspace": Builtin("linspace", np_linspace),
    "eye": Builtin("eye", np_eye), "identity": Builtin("identity", np_eye), "stack": Builtin("stack", np_stack),
    "vstack": Builtin("vstack", np_vstack), "row_stack": Builtin("row_stack", np_vstack), "hstack": Builtin("hstack", np_hstack),
    "concatenate": Builtin("concatenate", np_concatenate), "where": Builtin("where", np_where), "clip": Builtin("clip", np_clip),
    "dot": Builtin("dot", np_dot), "matmul": Builtin("matmul", np_dot), "inner": Builtin("inner", np_dot), "vdot": Builtin("vdot", np_vdot),
    "cross": Builtin("cross", np_cross), "outer": Builtin("outer", np_outer), "transpose": Builtin("transpose", np_transpose),
    "reshape": Builtin("reshape", np_reshape), "array_equal": Builtin("array_equal", np_array_equal),
    "isclose": Builtin("isclose", np_isclose), "allclose": Builtin("allclose", np_allclose), "sort": Builtin("sort", np_sort),
    "argsort": Builtin("argsort", np_argsort), "seterr": Builtin("seterr", np_seterr),
    "geterr": Builtin("geterr", lambda it, a, k: dict(it.err)), "errstate": Builtin("errstate", np_errstate),
    "atleast_1d": Builtin("atleast_1d", np_atleast_1d), "count_nonzero": Builtin("count_nonzero", np_count_nonzero),
    "isscalar": Builtin("isscalar", np_isscalar), "ndim": Builtin("ndim", np_ndim), "shape": Builtin("shape", np_shape),
    "size": Builtin("size", np_size), "ravel": Builtin("ravel", np_ravel), "squeeze": Builtin("squeeze", np_squeeze),
    "trace": Builtin("trace", np_trace), "copyto": Builtin("copyto", np_copyto), "issubdtype": Builtin("issubdtype", np_issubdtype),
}


# ------------------------------------------------------------------------------------------------ ndarray attributes / methods
def arr_attr(it, x, name):
    if name == "size":
        return x.size
    if name == "shape":
        return x.shape
    if name == "ndim":
        return x.ndim
    if name == "dtype":
        return DType(x.dtype)
    if name == "T":
        return _transpose(x)
    if name == "real":
        return elementwise(lambda v: v.real if isinstance(v, complex) else v, [x]) if x.dtype == "c" else x.view()
    if name == "imag":
        return elementwise(lambda v: v.imag if isinstance(v, complex) else type(v)(0), [x])
    if name == "flat":
        raise Unknown("ndarray.flat")
    table = {"all": R_ALL, "any": R_ANY, "min": R_MIN, "max": R_MAX, "sum": R_SUM, "prod": R_PROD, "mean": R_MEAN,
             "argmin": R_ARGMIN, "argmax": R_ARGMAX}
    if name in table:
        f = table[name]
        return Builtin(name, lambda it_, a, k: f.fn(it_, [x] + a, k))
    if name == "dot":
        return Builtin("dot", lambda it_, a, k: np_dot(it_, [x] + a, k))
    if name == "copy":
        return Builtin("copy", lambda it_, a, k: x.copy())
    if name == "astype":
        def astype(it_, a, k):
            k.pop("copy", None)
            no_kw(k)
            return x.astype(dtype_of(a[0]))
        return Builtin("astype", astype)
    if name == "flatten":
        return Builtin("flatten", lambda it_, a, k: Arr.of(x.vals(), (x.size,), x.dtype, x.cls))
    if name == "ravel":
        return Builtin("ravel", lambda it_, a, k: Arr(x.store, x.idx, (x.size,), x.dtype, x.cls))
    if name == "reshape":
        return Builtin("reshape", lambda it_, a, k: _reshape(x, a[0] if len(a) == 1 else tuple(a)))
    if name == "view":
        def view(it_, a, k):
            no_kw(k)
            if not a:
                return x.view()
            t = a[0]
            if isinstance(t, Cls):
                if not it.is_array_class(t):
                    raise Raised(TypeError, "view type is not an array class")
                return x.view(cls=t)
            if isinstance(t, Builtin) and t.name == "ndarray":
                return x.view(cls=None)
            raise Unknown("view with a dtype")
        return Builtin("view", view)
    if name == "fill":
        def fill(it_, a, k):
            for p in x.idx:
                x.store[p] = cast(scalar(a[0]), x.dtype)
        return Builtin("fill", fill)
    if name == "tolist":
        return Builtin("tolist", lambda it_, a, k: x.tolist())
    if name == "item":
        return Builtin("item", lambda it_, a, k: scalar(x) if not a else x.get(a[0] if len(a) == 1 else tuple(a)))
    if name in ("conj", "conjugate"):
        return Builtin(name, lambda it_, a, k: elementwise(lambda v: v.conjugate() if isinstance(v, complex) else v, [x]))
    if name == "clip":
        return Builtin("clip", lambda it_, a, k: np_clip(it_, [x] + a, k))
    if name == "squeeze":
        return Builtin("squeeze", lambda it_, a, k: np_squeeze(it_, [x], k))
    if name == "transpose":
        return Builtin("transpose", lambda it_, a, k: _transpose(x))
    if name == "sort":
        def sort(it_, a, k):
            if x.ndim != 1:
                raise Unknown("in-place sort of a matrix")
            vals = sorted(x.vals())
            for p, v in zip(x.idx, vals):
                x.store[p] = v
        return Builtin("sort", sort)
    if name == "round":
        return Builtin("round", lambda it_, a, k: elementwise(lambda v: float(round(v, *a)), [x]))
    if name == "base":
        raise Unknown("ndarray.base")
    if name in ("x", "y", "z", "xy", "norm", "normalize", "normalized", "outer") and x.cls is None:
        raise Raised(AttributeError, f"'numpy.ndarray' object has no attribute '{name}'")
    raise Unknown(f"ndarray attribute {name}")


# ------------------------------------------------------------------------------------------------ math / cmath
def M(name, f, n=1, domain_exc=True):
    def g(it, a, k):
        no_kw(k)
        if len(a) != n and n is not None:
            raise Raised(TypeError, f"math.{name} expects {n} argument(s)")
        vals = [real(x) for x in a]
        if any(is_sym(v) for v in vals):
            return sym_math(name, vals)
        try:
            return f(*vals)
        except ValueError:
            raise Raised(ValueError, "math domain error")
        except ZeroDivisionError:
            raise Raised(ZeroDivisionError, "float division by zero")
        except OverflowError:
            raise Raised(OverflowError, "math range error")
    return Builtin(name, g)


MATH = {"pi": math.pi, "e": math.e, "inf": math.inf, "nan": math.nan, "tau": math.tau}
for _n in ("sqrt", "sin", "cos", "tan", "atan", "acos", "asin", "fabs", "floor", "ceil", "degrees", "radians", "isnan", "isinf",
           "isfinite", "exp", "trunc", "sinh", "cosh", "tanh", "log2", "log10", "expm1", "log1p"):
    MATH[_n] = M(_n, getattr(math, _n))
for _n in ("atan2", "fmod", "remainder", "copysign", "pow"):
    MATH[_n] = M(_n, getattr(math, _n), 2)
MATH["hypot"] = M("hypot", math.hypot, None)
MATH["log"] = M("log", math.log, None)
MATH["isclose"] = Builtin("isclose", lambda it, a, k: math.isclose(*[real(x) for x in a], **{kk: real(v) for kk, v in k.items()}))
MATH["dist"] = Builtin("dist", lambda it, a, k: math.dist([real(v) for v in it.iterate(a[0])], [real(v) for v in it.iterate(a[1])]))
MATH["fsum"] = Builtin("fsum", lambda it, a, k: math.fsum([real(v) for v in it.iterate(a[0])]))
MATH["prod"] = Builtin("prod", lambda it, a, k: math.prod([real(v) for v in it.iterate(a[0])]))


def C(name, f, n=1):
    def g(it, a, k):
        no_kw(k)
        vals = [scalar(x) for x in a]
        if any(is_sym(v) for v in vals):
            return sym_math(name, vals)
        try:
            return f(*vals)
        except (ValueError, ZeroDivisionError):
            raise Raised(ValueError, "math domain error")
        except OverflowError:
            raise Raised(OverflowError, "math range error")
    return Builtin(name, g)


CMATH = {"pi": math.pi, "e": math.e, "inf": math.inf, "nan": math.nan, "tau": math.tau, "infj": complex(0, math.inf)}
for _n in ("polar", "phase", "exp", "sqrt", "log", "sin", "cos", "isclose", "isnan", "isfinite"):
    CMATH[_n] = C(_n, getattr(cmath, _n))
CMATH["rect"] = C("rect", cmath.rect, 2)

OPERATOR = {}
import operator as _operator
for _n, _o in (("add", _ADD), ("sub", _SUB), ("mul", _MUL), ("truediv", _DIV)):
    OPERATOR[_n] = Builtin(_n, (lambda o: lambda it, a, k: it.binop(o, a[0], a[1]))(_o))
for _n, _o in (("lt", _ast.Lt()), ("le", _ast.LtE()), ("gt", _ast.Gt()), ("ge", _ast.GtE()), ("eq", _ast.Eq()), ("ne", _ast.NotEq())):
    OPERATOR[_n] = Builtin(_n, (lambda o: lambda it, a, k: it.compare(o, a[0], a[1]))(_o))

class _Quiet:
    """a logger: every method is a no-op"""


def _quiet_attr(name):
    return Builtin(name, lambda it, a, k: None)


_LOGGER = Builtin("logger", lambda it, a, k: None)
LOGGING = {n: Builtin(n, lambda it, a, k: None) for n in ("debug", "info", "warning", "error", "critical", "exception", "log", "basicConfig")}
LOGGING["getLogger"] = Builtin("getLogger", lambda it, a, k: _LOGGER)
for _n in ("DEBUG", "INFO", "WARNING", "ERROR", "CRITICAL"):
    LOGGING[_n] = 0
_LOGGER.attrs.update({n: Builtin(n, lambda it, a, k: None) for n in ("debug", "info", "warning", "warn", "error", "critical", "exception", "log",
                                                                  "setLevel", "addHandler")})
_LOGGER.attrs["isEnabledFor"] = Builtin("isEnabledFor", lambda it, a, k: False)
WARNINGS = {"warn": Builtin("warn", lambda it, a, k: None), "simplefilter": Builtin("simplefilter", lambda it, a, k: None)}
NUMBERS = {n: Builtin("numbers." + n, None) for n in ("Number", "Complex", "Real", "Rational", "Integral")}

import itertools as _it


def _itool(name, f):
    def g(it, a, k):
        cols = [it.iterate(x) if not isinstance(x, int) else x for x in a]
        kw = {kk: v for kk, v in k.items()}
        return Lazy([tuple(x) if isinstance(x, tuple) else x for x in f(*cols, **kw)])
    return Builtin(name, g)


ITERTOOLS = {n: _itool(n, getattr(_it, n)) for n in ("combinations", "permutations", "product", "chain", "combinations_with_replacement",
                                                      "zip_longest", "pairwise")}
ITERTOOLS["islice"] = Builtin("islice", lambda it, a, k: Lazy(list(_it.islice(it.iterate(a[0]), *a[1:]))))
ITERTOOLS["repeat"] = Builtin("repeat", lambda it, a, k: Lazy([a[0]] * a[1]) if len(a) == 2 else (_ for _ in ()).throw(Unknown("endless repeat")))
ITERTOOLS["starmap"] = Builtin("starmap", lambda it, a, k: Lazy([it.call(a[0], list(it.iterate(x)), {}) for x in it.iterate(a[1])]))


def _accumulate(it, a, k):
    items = it.iterate(a[0])
    f = a[1] if len(a) > 1 else k.get("func")
    out = []
    for x in items:
        out.append(x if not out else (it.call(f, [out[-1], x], {}) if f is not None else it.binop(_ADD, out[-1], x)))
    return Lazy(out)


ITERTOOLS["accumulate"] = Builtin("accumulate", _accumulate)


def _reduce(it, a, k):
    items = it.iterate(a[1])
    if len(a) > 2:
        acc = a[2]
    elif items:
        acc, items = items[0], items[1:]
    else:
        raise Raised(TypeError, "reduce() of empty iterable with no initial value")
    for x in items:
        acc = it.call(a[0], [acc, x], {})
    return acc


FUNCTOOLS = {"reduce": Builtin("reduce", _reduce)}

EXT = {
    "itertools": ITERTOOLS, "functools": FUNCTOOLS,
    "logging": LOGGING, "warnings": WARNINGS, "numbers": NUMBERS,
    "numpy": NUMPY,
    "numpy.linalg": {"norm": Builtin("norm", np_norm), "det": Builtin("det", np_det)},
    "math": MATH,
    "cmath": CMATH,
    "operator": OPERATOR,
}
