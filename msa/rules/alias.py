"""R-ALIAS: a small ownership grammar for numpy-backed values.

fresh(e) = evaluating e allocates a new array object that nothing else references.
  * arithmetic BinOp / unary minus on arrays allocate (numpy semantics), scalars are immutable anyway
  * np.array / np.zeros / np.ones / np.full / np.copy / x.copy() / deepcopy(x) allocate
  * Vec(a, b, c) (>= 2 arguments) builds a new array; Vec(x) / np.asarray(x) are *views* of x
    (re-derived from Vec.__new__ on every run), hence fresh iff x is fresh
  * a bare name, subscript or attribute read is NOT fresh
  * calls to unknown functions are assumed fresh (they return new objects in this code base); this can only
    lose alarms, never create one
"""
from __future__ import annotations
import ast
from .. import au

ALLOC_CALLS = {"array", "zeros", "ones", "full", "empty", "copy", "deepcopy", "zeros_like", "ones_like", "full_like",
               "concatenate", "stack", "vstack", "hstack", "cross", "linspace", "arange", "random", "normalized"}
VIEW_CALLS = {"asarray", "asanyarray", "view", "reshape", "ravel", "squeeze", "transpose", "atleast_1d", "atleast_2d"}
ARITH = (ast.Add, ast.Sub, ast.Mult, ast.Div, ast.FloorDiv, ast.Mod, ast.Pow, ast.MatMult)


class Freshness:
    def __init__(self, repo):
        fn = repo.func("geometry.vector", "Vec.__new__")
        self.vec_is_view = any(au.call_tail(c) in VIEW_CALLS for c in au.calls(fn)) and \
            not any(au.call_tail(c) in ("array", "copy") for c in au.calls(fn))

    def is_fresh(self, e, names_nonfresh=(), names_fresh=()):
        if isinstance(e, ast.Constant):
            return True
        if isinstance(e, ast.BinOp) and isinstance(e.op, ARITH):
            return True
        if isinstance(e, ast.UnaryOp) and isinstance(e.op, (ast.USub, ast.UAdd)):
            return True
        if isinstance(e, ast.IfExp):
            return self.is_fresh(e.body, names_nonfresh, names_fresh) and self.is_fresh(e.orelse, names_nonfresh, names_fresh)
        if isinstance(e, (ast.Tuple, ast.List)):
            return all(self.is_fresh(x, names_nonfresh, names_fresh) for x in e.elts)
        if isinstance(e, (ast.ListComp, ast.GeneratorExp)):
            return self.is_fresh(e.elt, names_nonfresh, names_fresh)
        if isinstance(e, ast.Name):
            return e.id in names_fresh
        if isinstance(e, ast.Call):
            t = au.call_tail(e)
            if t == "Vec":
                if len(e.args) >= 2:
                    return True
                if len(e.args) == 1:
                    return (not self.vec_is_view) or self.is_fresh(e.args[0], names_nonfresh, names_fresh)
                return True
            if t in VIEW_CALLS:
                base = e.args[0] if (e.args and isinstance(e.func, ast.Attribute) and au.chain(e.func.value) in (["np"], ["numpy"])) \
                    else (e.func.value if isinstance(e.func, ast.Attribute) else None)
                return base is not None and self.is_fresh(base, names_nonfresh, names_fresh)
            if t in ALLOC_CALLS:
                return True
            return True  # unknown call: assumed to return a new object
        return False

    def aliases(self, e):
        """Names whose storage the value of e may share (for parameter-immutability checks)."""
        if isinstance(e, ast.Name):
            return {e.id}
        if isinstance(e, ast.Subscript):
            return self.aliases(e.value)   # basic slicing / row of an array is a view
        if isinstance(e, ast.Attribute):
            if e.attr in ("T", "real", "imag", "flat"):
                return self.aliases(e.value)
            return set()
        if isinstance(e, ast.Call):
            t = au.call_tail(e)
            if t == "Vec" and len(e.args) == 1 and self.vec_is_view:
                return self.aliases(e.args[0])
            if t in VIEW_CALLS:
                if e.args and isinstance(e.func, ast.Attribute) and au.chain(e.func.value) in (["np"], ["numpy"]):
                    return self.aliases(e.args[0])
                if isinstance(e.func, ast.Attribute):
                    return self.aliases(e.func.value)
            return set()
        if isinstance(e, ast.IfExp):
            return self.aliases(e.body) | self.aliases(e.orelse)
        return set()


# ======================================================================================================================
# May-alias data flow (used by C12-A1 / C12-A2): which parameters (or receiver fields) may a local name share storage with,
# at every statement, over every path - branches are merged, loops are iterated to a fixpoint, helper functions of the
# repository are summarised (which parameters they may return a view of, which parameters they write into).
# ======================================================================================================================
from .. import sym as _sym

WHOLE, PART = "whole", "part"
IN_WHOLE, IN_PART = "in-whole", "in-part"     # a NEW container (list / tuple / comprehension) whose elements are such values
WRITABLE = (WHOLE, PART)
INPLACE_METHODS = {"sort", "fill", "normalize", "resize", "put", "itemset", "append", "extend", "clear", "pop", "remove",
                   "insert", "update", "reverse", "setflags", "partition", "byteswap", "setfield", "__setitem__", "__iadd__",
                   "__isub__", "__imul__", "__itruediv__", "setdefault", "popitem", "add", "discard"}
FIRST_ARG_WRITERS = {"copyto", "put", "place", "putmask", "fill_diagonal", "shuffle", "put_along_axis"}
VIEW_ATTRS = {"T", "real", "imag", "flat", "mT"}


def _downgrade(s):
    return frozenset((r, PART) for r, k in s if k in WRITABLE)


def _elem(s):
    """what an element (integer index, iteration, unpacking) of a value with these aliases may alias"""
    m = {WHOLE: PART, PART: PART, IN_WHOLE: WHOLE, IN_PART: PART}
    return frozenset((r, m[k]) for r, k in s)


def _wrap(s):
    """a new container holding such values"""
    m = {WHOLE: IN_WHOLE, PART: IN_PART, IN_WHOLE: IN_PART, IN_PART: IN_PART}
    return frozenset((r, m[k]) for r, k in s)


class Sink:
    __slots__ = ("node", "root", "kind", "how")

    def __init__(self, node, root, kind, how):
        self.node, self.root, self.kind, self.how = node, root, kind, how


class MayAlias:
    """one instance per run: caches the summaries of the helper functions"""

    def __init__(self, repo, fresh):
        self.repo, self.fresh = repo, fresh
        self._summary = {}
        self._active = set()

    # ------------------------------------------------------------------ callee resolution
    def callee(self, call, mod, cls):
        """(module, class or None, FunctionDef, number of leading parameters bound implicitly) of a call to a repository function"""
        f = call.func
        if isinstance(f, ast.Name):
            r = self.repo.resolve_func(mod.name, f.id)
            if r and r[1] is not None:
                return r[0], None, r[1], 0
            return None
        if isinstance(f, ast.Attribute) and isinstance(f.value, ast.Name):
            base = f.value.id
            target_cls = None
            via_instance = False
            if base in ("self", "cls") and cls is not None:
                target_cls, target_mod, via_instance = cls, mod, base == "self"
            else:
                r = self.repo.resolve(mod.name, base)
                if r and r[0] == "class":
                    target_mod = self.repo.modules[r[1]]
                    target_cls = target_mod.classes.get(r[2])
                elif r and r[0] == "module" and r[1] in self.repo.modules:
                    rr = self.repo.resolve_func(r[1], f.attr)
                    if rr and rr[1] is not None:
                        return rr[0], None, rr[1], 0
                    return None
            if target_cls is None:
                return None
            meths = self.repo.methods(target_mod, target_cls)
            if f.attr not in meths:
                return None
            m, fn, owner = meths[f.attr]
            decos = {au.src(d) for d in fn.decorator_list}
            if "property" in decos:
                return None
            if "staticmethod" in decos:
                skip = 0
            elif "classmethod" in decos:
                skip = 1
            else:
                skip = 1 if (via_instance or base == "cls") else 0
            return m, owner, fn, skip
        return None

    def summary(self, mod, cls, fn):
        """(set of parameter names a returned value may alias, {parameter name: how} written into) of a repository function"""
        key = id(fn)
        if key in self._summary:
            return self._summary[key]
        if key in self._active:
            return set(), {}
        self._active.add(key)
        try:
            a = Analysis(self, mod, cls, fn, {p: frozenset({(p, WHOLE)}) for p in au.params(fn)})
            a.run()
            rets = {r for r, _ in a.returned}
            writes = {}
            for s in a.sinks:
                if s.kind == PART or s.how[0] != "aug-name" or True:
                    writes.setdefault(s.root, s.how[1])
            res = (rets, writes)
        finally:
            self._active.discard(key)
        self._summary[key] = res
        return res


class Analysis:
    def __init__(self, ma, mod, cls, fn, init, field_roots=None, props=None):
        self.ma, self.mod, self.cls, self.fn = ma, mod, cls, fn
        self.init = dict(init)
        self.field_roots = field_roots or {}     # field name -> root label, for `self.<field>` reads
        self.props = props or {}                 # property name -> field name
        self.sinks, self._seen = [], set()
        self.returned = set()

    # ------------------------------------------------------------------ expressions
    def aliases(self, e, st):
        if e is None:
            return frozenset()
        if isinstance(e, ast.Name):
            return st.get(e.id, frozenset())
        if isinstance(e, ast.Starred):
            return self.aliases(e.value, st)
        if isinstance(e, ast.NamedExpr):
            return self.aliases(e.value, st)
        if isinstance(e, ast.Subscript):
            base = self.aliases(e.value, st)
            sl = e.slice
            is_slice = isinstance(sl, ast.Slice) or (isinstance(sl, ast.Tuple) and any(isinstance(x, ast.Slice) for x in sl.elts))
            return base if is_slice else _elem(base)
        if isinstance(e, ast.Attribute):
            if au.is_self_attr(e) and "self" not in st:
                f = self.props.get(e.attr, e.attr)
                if f in self.field_roots:
                    return frozenset({(self.field_roots[f], WHOLE)})
                return frozenset()
            base = self.aliases(e.value, st)
            return base if e.attr in VIEW_ATTRS else _downgrade(base)
        if isinstance(e, ast.IfExp):
            return self.aliases(e.body, st) | self.aliases(e.orelse, st)
        if isinstance(e, ast.BoolOp):
            out = frozenset()
            for v in e.values:
                out |= self.aliases(v, st)
            return out
        if isinstance(e, (ast.Tuple, ast.List, ast.Set)):
            out = frozenset()
            for v in e.elts:
                out |= self.aliases(v.value, st) if isinstance(v, ast.Starred) else _wrap(self.aliases(v, st))
            return out
        if isinstance(e, (ast.ListComp, ast.GeneratorExp, ast.SetComp)):
            st2 = dict(st)
            for g in e.generators:
                self._bind_iter(g.target, g.iter, st2)
            return _wrap(self.aliases(e.elt, st2))
        if isinstance(e, ast.Call):
            return self._call_aliases(e, st)
        return frozenset()

    def _call_aliases(self, e, st):
        t = au.call_tail(e)
        arrays_only = lambda al: frozenset(x for x in al if x[1] in WRITABLE)     # an array built from a list of arrays is new
        if t == "Vec" and len(e.args) == 1 and not e.keywords:
            return arrays_only(self.aliases(e.args[0], st)) if self.ma.fresh.vec_is_view else frozenset()
        if t in VIEW_CALLS:
            if e.args and isinstance(e.func, ast.Attribute) and au.chain(e.func.value) in (["np"], ["numpy"]):
                return arrays_only(self.aliases(e.args[0], st))
            if isinstance(e.func, ast.Attribute):
                return arrays_only(self.aliases(e.func.value, st))
            if e.args:
                return arrays_only(self.aliases(e.args[0], st))
        if t in ("zip", "enumerate", "reversed", "iter"):
            # transparent for iteration: the items are (tuples of) elements of the arguments
            out = frozenset()
            for a in e.args:
                al = self.aliases(a, st)
                out |= frozenset(x for x in al if x[1] not in WRITABLE) | _wrap(_elem(frozenset(x for x in al if x[1] in WRITABLE)))
            return out
        if t in ("list", "tuple", "sorted", "set", "frozenset") and isinstance(e.func, ast.Name):
            out = frozenset()
            for a in e.args:
                al = self.aliases(a, st)
                out |= frozenset(x for x in al if x[1] not in WRITABLE) | _wrap(_elem(frozenset(x for x in al if x[1] in WRITABLE)))
            return out
        if t in ALLOC_CALLS:
            return frozenset()
        c = self.ma.callee(e, self.mod, self.cls)
        if c is not None:
            m, owner, fn, skip = c
            rets, _ = self.ma.summary(m, owner, fn)
            out = frozenset()
            for pname, arg in self._bind_args(e, fn, skip):
                if pname in rets:
                    out |= self.aliases(arg, st)
            return out
        return frozenset()

    @staticmethod
    def _bind_args(call, fn, skip):
        ps = [x.arg for x in fn.args.posonlyargs + fn.args.args][skip:]
        out = []
        for i, a in enumerate(call.args):
            if isinstance(a, ast.Starred):
                for p in ps[i:]:
                    out.append((p, a.value))
                break
            if i < len(ps):
                out.append((ps[i], a))
            elif fn.args.vararg:
                out.append((fn.args.vararg.arg, a))
        names = set(ps) | {x.arg for x in fn.args.kwonlyargs}
        for k in call.keywords:
            if k.arg in names:
                out.append((k.arg, k.value))
        return out

    # ------------------------------------------------------------------ statements
    def _sink(self, node, roots, how):
        for r, k in sorted(roots):
            if k not in WRITABLE:
                continue
            key = (id(node), r, how[0])
            if key not in self._seen:
                self._seen.add(key)
                self.sinks.append(Sink(node, r, k, how))

    def _expr_sinks(self, node, st):
        """writes performed by the calls of an expression / simple statement"""
        for c in au.calls(node):
            f = c.func
            if isinstance(f, ast.Attribute) and f.attr in INPLACE_METHODS:
                self._sink(c, self.aliases(f.value, st), ("method", f"in-place method `{au.src(c)}`"))
            for k in c.keywords:
                if k.arg == "out":
                    self._sink(c, self.aliases(k.value, st), ("out", f"`{au.src(c)}` stores its result into the array (out=)"))
            if au.call_tail(c) in FIRST_ARG_WRITERS and c.args:
                self._sink(c, self.aliases(c.args[0], st), ("writer", f"`{au.src(c)}` writes into its first argument"))
            cal = self.ma.callee(c, self.mod, self.cls)
            if cal is not None:
                m, owner, fn, skip = cal
                _, writes = self.ma.summary(m, owner, fn)
                if writes:
                    for pname, arg in self._bind_args(c, fn, skip):
                        if pname in writes:
                            self._sink(c, self.aliases(arg, st), ("helper", f"`{au.src(c)}`: the helper writes into this argument ({writes[pname]})"))

    def _bind_iter(self, target, it, st):
        al = _elem(self.aliases(it, st))
        if isinstance(it, ast.Call) and au.call_tail(it) in ("zip", "enumerate") and isinstance(target, (ast.Tuple, ast.List)):
            # items are tuples of elements: unpacking them gives the elements
            for sub in target.elts:
                self._bind_names(sub, al, st)
            return
        self._bind_names(target, al, st)

    def _bind_names(self, target, al, st):
        if isinstance(target, ast.Name):
            st[target.id] = al
        elif isinstance(target, ast.Starred):
            self._bind_names(target.value, al, st)
        elif isinstance(target, (ast.Tuple, ast.List)):
            for sub in target.elts:
                self._bind_names(sub, _elem(al), st)

    def _store_target(self, t, node, st, what):
        if isinstance(t, (ast.Tuple, ast.List)):
            for x in t.elts:
                self._store_target(x, node, st, what)
        elif isinstance(t, ast.Starred):
            self._store_target(t.value, node, st, what)
        elif isinstance(t, ast.Subscript):
            self._sink(node, self.aliases(t.value, st), ("item", f"`{au.src(t)} {what}` writes into the array"))
        elif isinstance(t, ast.Attribute):
            if au.is_self_attr(t) and "self" not in st:
                return
            self._sink(node, self.aliases(t.value, st), ("attr", f"`{au.src(t)} {what}` changes the object"))

    def stmt(self, s, st):
        if isinstance(s, (ast.FunctionDef, ast.AsyncFunctionDef, ast.ClassDef)):
            return st
        if isinstance(s, ast.If):
            self._expr_sinks(s.test, st)
            a = self.block(s.body, dict(st))
            b = self.block(s.orelse, dict(st))
            return self._merge(a, b)
        if isinstance(s, (ast.For, ast.AsyncFor)):
            self._expr_sinks(s.iter, st)
            cur = dict(st)
            for _ in range(3):
                body_in = dict(cur)
                self._bind_iter(s.target, s.iter, body_in)
                cur = self._merge(cur, self.block(s.body, body_in))
            return self.block(s.orelse, cur)
        if isinstance(s, ast.While):
            cur = dict(st)
            for _ in range(3):
                self._expr_sinks(s.test, cur)
                cur = self._merge(cur, self.block(s.body, dict(cur)))
            return self.block(s.orelse, cur)
        if isinstance(s, (ast.With, ast.AsyncWith)):
            st = dict(st)
            for it in s.items:
                self._expr_sinks(it.context_expr, st)
                if it.optional_vars is not None:
                    for n in au.assigned_names(it.optional_vars):
                        st[n] = frozenset()
            return self.block(s.body, st)
        if isinstance(s, ast.Try):
            body = self.block(s.body, dict(st))
            cur = self._merge(st, body)
            outs = [self.block(s.orelse, dict(body))]
            for h in s.handlers:
                hs = dict(cur)
                if h.name:
                    hs[h.name] = frozenset()
                outs.append(self.block(h.body, hs))
            out = outs[0]
            for o in outs[1:]:
                out = self._merge(out, o)
            return self.block(s.finalbody, out)
        if hasattr(ast, "Match") and isinstance(s, ast.Match):
            outs = [self.block(c.body, dict(st)) for c in s.cases] + [st]
            out = outs[0]
            for o in outs[1:]:
                out = self._merge(out, o)
            return out
        # ---- simple statements
        self._expr_sinks(s, st)
        if isinstance(s, ast.Return):
            self.returned |= set(self.aliases(s.value, st))
            return st
        if isinstance(s, ast.AugAssign):
            t = s.target
            if isinstance(t, ast.Name):
                roots = frozenset((r, k) for r, k in st.get(t.id, frozenset()) if k == WHOLE)
                self._sink(s, roots, ("aug-name", f"augmented assignment `{au.src(s)}` updates the array in place"))
            else:
                if isinstance(t, ast.Attribute) and au.is_self_attr(t) and "self" not in st:
                    # `self.f op= e` evaluates self.f in place when it is an array
                    self._sink(s, frozenset(x for x in self.aliases(t, st) if x[1] == WHOLE), ("aug-field", f"`{au.src(s)}` updates the array in place"))
                else:
                    self._store_target(t, s, st, au.src(s)[len(au.src(t)):].strip().split("=")[0] + "= ...")
            return st
        if isinstance(s, (ast.Assign, ast.AnnAssign)):
            if getattr(s, "value", None) is None:
                return st
            for t in au.assign_targets(s):
                self._store_target(t, s, st, "= ...")
            st = dict(st)
            pairs = list(_sym.split_assign(s))
            if pairs:
                vals = [(n, self.aliases(v, st)) for n, v in pairs]
                for n, al in vals:
                    st[n] = al
            else:
                val = self.aliases(s.value, st)
                for t in au.assign_targets(s):
                    if isinstance(t, ast.Name):
                        st[t.id] = val
                    elif isinstance(t, (ast.Tuple, ast.List)):
                        for sub in t.elts:
                            self._bind_names(sub, _elem(val), st)
            for n in au.walk(s.value):
                if isinstance(n, ast.NamedExpr):
                    st[n.target.id] = self.aliases(n.value, st)
            return st
        if isinstance(s, ast.Delete):
            for t in s.targets:
                if isinstance(t, ast.Subscript):
                    self._sink(s, self.aliases(t.value, st), ("item", f"`{au.src(s)}` removes items"))
            return st
        if isinstance(s, ast.Expr):
            for n in au.walk(s.value):
                if isinstance(n, ast.NamedExpr):
                    st = dict(st)
                    st[n.target.id] = self.aliases(n.value, st)
        return st

    @staticmethod
    def _merge(a, b):
        out = dict(a)
        for k, v in b.items():
            out[k] = out.get(k, frozenset()) | v
        return out

    def block(self, body, st):
        for s in body or []:
            st = self.stmt(s, st)
        return st

    def run(self):
        self.block(self.fn.body, dict(self.init))
        return self
