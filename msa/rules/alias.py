"""R-ALIAS: a small ownership grammar for numpy-backed values.

fresh(e) = evaluating e allocates a new array object that nothing else references.
  * arithmetic BinOp / unary minus on arrays allocate (numpy semantics), scalars are immutable anyway
  * np.array / np.zeros / np.ones / np.full / np.copy / x.copy() / deepcopy(x) allocate
  * Vec(a, b, c) (>= 2 arguments) builds a new array; Vec(x) / np.asarray(x) are *views* of x
    (re-derived from Vec.__new__ on every run), hence fresh iff x is fresh
  * a bare name, subscript or attribute read is NOT fresh
  * calls to unknown functions are assumed fresh (they return new objects in this code base); this can only
    lose alarms, never create one
"""
from __future__ import annotations
import ast
from .. import au

ALLOC_CALLS = {"array", "zeros", "ones", "full", "empty", "copy", "deepcopy", "zeros_like", "ones_like", "full_like",
               "concatenate", "stack", "vstack", "hstack", "cross", "linspace", "arange", "random", "normalized"}
VIEW_CALLS = {"asarray", "asanyarray", "view", "reshape", "ravel", "squeeze", "transpose", "atleast_1d", "atleast_2d"}
ARITH = (ast.Add, ast.Sub, ast.Mult, ast.Div, ast.FloorDiv, ast.Mod, ast.Pow, ast.MatMult)


class Freshness:
    def __init__(self, repo):
        fn = repo.func("geometry.vector", "Vec.__new__")
        self.vec_is_view = any(au.call_tail(c) in VIEW_CALLS for c in au.calls(fn)) and \
            not any(au.call_tail(c) in ("array", "copy") for c in au.calls(fn))

    def is_fresh(self, e, names_nonfresh=(), names_fresh=()):
        if isinstance(e, ast.Constant):
            return True
        if isinstance(e, ast.BinOp) and isinstance(e.op, ARITH):
            return True
        if isinstance(e, ast.UnaryOp) and isinstance(e.op, (ast.USub, ast.UAdd)):
            return True
        if isinstance(e, ast.IfExp):
            return self.is_fresh(e.body, names_nonfresh, names_fresh) and self.is_fresh(e.orelse, names_nonfresh, names_fresh)
        if isinstance(e, (ast.Tuple, ast.List)):
            return all(self.is_fresh(x, names_nonfresh, names_fresh) for x in e.elts)
        if isinstance(e, (ast.ListComp, ast.GeneratorExp)):
            return self.is_fresh(e.elt, names_nonfresh, names_fresh)
        if isinstance(e, ast.Name):
            return e.id in names_fresh
        if isinstance(e, ast.Call):
            t = au.call_tail(e)
            if t == "Vec":
                if len(e.args) >= 2:
                    return True
                if len(e.args) == 1:
                    return (not self.vec_is_view) or self.is_fresh(e.args[0], names_nonfresh, names_fresh)
                return True
            if t in VIEW_CALLS:
                base = e.args[0] if (e.args and isinstance(e.func, ast.Attribute) and au.chain(e.func.value) in (["np"], ["numpy"])) \
                    else (e.func.value if isinstance(e.func, ast.Attribute) else None)
                return base is not None and self.is_fresh(base, names_nonfresh, names_fresh)
            if t in ALLOC_CALLS:
                return True
            return True  # unknown call: assumed to return a new object
        return False

    def aliases(self, e):
        """Names whose storage the value of e may share (for parameter-immutability checks)."""
        if isinstance(e, ast.Name):
            return {e.id}
        if isinstance(e, ast.Subscript):
            return self.aliases(e.value)   # basic slicing / row of an array is a view
        if isinstance(e, ast.Attribute):
            if e.attr in ("T", "real", "imag", "flat"):
                return self.aliases(e.value)
            return set()
        if isinstance(e, ast.Call):
            t = au.call_tail(e)
            if t == "Vec" and len(e.args) == 1 and self.vec_is_view:
                return self.aliases(e.args[0])
            if t in VIEW_CALLS:
                if e.args and isinstance(e.func, ast.Attribute) and au.chain(e.func.value) in (["np"], ["numpy"]):
                    return self.aliases(e.args[0])
                if isinstance(e.func, ast.Attribute):
                    return self.aliases(e.func.value)
            return set()
        if isinstance(e, ast.IfExp):
            return self.aliases(e.body) | self.aliases(e.orelse)
        return set()
