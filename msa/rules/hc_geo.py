"""C04 rules of the geogram_ascii codec on top of the writer model (hc_emit tree cut into chunks) and of the flattened importer.
Protocol as in hc_text: violation only on an understood construct that contradicts the rule, `undecided` otherwise."""
from __future__ import annotations
import ast
from .. import au, sym
from . import codec_c04 as cc
from . import hc_flat, hc_emit as em, hc_read as rd, hc_eval as hv
from . import hc_text as ht

GEO = "mesh.io.geogram_ascii"
ATTR = "mesh.mesh_attributes"
TAGS = ("[HEAD]", "[ATTS]", "[ATTR]")


# =========================================================================== writer: chunks
class Chunk:
    def __init__(self, tag, lines, path, node):
        self.tag, self.lines, self.path, self.node = tag, lines, path, node
        self.payload = []

    def lit(self, i):
        """literal text of header line i (None when the line is not one literal token)"""
        if i >= len(self.lines):
            return None
        ln = self.lines[i]
        if len(ln) == 1 and isinstance(ln[0], em.Token):
            return ln[0].literal()
        return None

    def leaf(self, i):
        """the single rendered value of header line i, with (quoted?)"""
        if i >= len(self.lines):
            return None
        ln = self.lines[i]
        if len(ln) != 1 or not isinstance(ln[0], em.Token):
            return None
        parts = ln[0].parts
        lv = [p for p in parts if p[0] == "leaf"]
        if len(lv) != 1 or any(p[0] not in ("leaf", "lit") for p in parts):
            return None
        lits = "".join(p[1] for p in parts if p[0] == "lit")
        if lits not in ("", '""'):
            return None
        return lv[0][1], lits == '""'

    def conds(self):
        return [(p[1], p[2]) for p in self.path if p[0] == "alt"]

    def reps(self):
        return [p[1] for p in self.path if p[0] == "rep"]


def _starts_chunk(items):
    for x, p in em.walk(items):
        if isinstance(x, em.Lit) and any(t in x.text for t in TAGS):
            return True
    return False


def segment(items, path, out):
    """cut the emitted text into chunks: header lines (runs of literal / rendered values starting with a `[TAG]` line) and the
    repetitions / alternatives that follow (payload)"""
    run = []

    def flush():
        nonlocal run
        if not run:
            return
        lines = em.tokenize(run)
        cur = None
        for ln in lines:
            first = ln[0].literal() if ln and isinstance(ln[0], em.Token) else None
            if first in TAGS and len(ln) == 1:
                cur = Chunk(first, [ln], list(path), run[0])
                out.append(cur)
            elif cur is not None:
                cur.lines.append(ln)
            else:
                c0 = Chunk(None, [ln], list(path), run[0])      # text outside any chunk
                out.append(c0)
                cur = c0
        run = []
    for x in items:
        if isinstance(x, (em.Lit, em.Lf)):
            if out and out[-1].payload and out[-1].path == list(path) and isinstance(x, em.Lit) and not any(t in x.text for t in TAGS) and not run:
                out[-1].payload.append(x)        # separator text inside a payload
                continue
            run.append(x)
            continue
        if isinstance(x, em.Unk):
            flush()
            c0 = Chunk(None, [], list(path), x.node)
            c0.payload.append(x)
            out.append(c0)
            continue
        flush()
        if isinstance(x, em.Rep):
            if _starts_chunk(x.body):
                segment(x.body, path + [("rep", x)], out)
            elif out and len(out[-1].path) <= len(path) and out[-1].path == list(path)[:len(out[-1].path)]:
                out[-1].payload.append(x)
            else:
                c0 = Chunk(None, [], list(path), x.node)
                c0.payload.append(x)
                out.append(c0)
        elif isinstance(x, em.Alt):
            if _starts_chunk(x.a) or _starts_chunk(x.b):
                segment(x.a, path + [("alt", x.test, True)], out)
                segment(x.b, path + [("alt", x.test, False)], out)
            elif out and out[-1].path == list(path)[:len(out[-1].path)]:
                out[-1].payload.append(x)
            else:
                c0 = Chunk(None, [], list(path), x.node or x.test)
                c0.payload.append(x)
                out.append(c0)
    flush()
    return out


def unquote(t):
    return t.strip().strip('"') if t is not None else None


def count_leaves(items):
    """values written per outer iteration: leaves of the body (nested repetitions counted once, alternatives by their larger branch)"""
    n = 0
    for x in items:
        if isinstance(x, em.Lf):
            n += 1
        elif isinstance(x, em.Rep):
            n += count_leaves(x.body)
        elif isinstance(x, em.Alt):
            n += max(count_leaves(x.a), count_leaves(x.b))
    return n


# =========================================================================== reader tables
def chunk_reader_fields(repo):
    """Chunk.__init__: {field: (line index, conversion tail, stmt)}, 'data[]' -> [(first line, conversion src, stmt)], payload start"""
    fn = repo.func(GEO, "Chunk.__init__")
    ps = au.params(fn, skip_self=True)
    if not ps:
        return fn, {}, set()
    data = ps[0]
    fields, start = {}, set()
    for st in au.stmts(fn.body):
        tg = None
        if isinstance(st, ast.Assign) and len(st.targets) == 1:
            tg, val = st.targets[0], st.value
        elif isinstance(st, ast.AnnAssign) and st.value is not None:
            tg, val = st.target, st.value
        if tg is None or not au.is_self_attr(tg):
            continue
        subs = [x for x in au.walk(val) if isinstance(x, ast.Subscript) and isinstance(x.value, ast.Name) and x.value.id == data]
        if len(subs) != 1:
            continue
        sub = subs[0]
        if isinstance(sub.slice, ast.Slice):
            if sub.slice.upper is None and isinstance(au.const(sub.slice.lower), int):
                start.add(au.const(sub.slice.lower))
            conv = None
            if isinstance(val, (ast.ListComp, ast.GeneratorExp)):
                conv = au.src(val.elt)
            fields.setdefault(tg.attr + "[]", []).append((au.const(sub.slice.lower), conv, st))
            continue
        k = au.const(sub.slice)
        conv = au.call_tail(val) if isinstance(val, ast.Call) else None
        fields[tg.attr] = (k, conv, st)
    return fn, fields, start


def _atoms(test):
    if isinstance(test, ast.BoolOp) and isinstance(test.op, ast.And):
        return [a for v in test.values for a in _atoms(v)]
    return [test]


def special_branches(rfn, b, role_field):
    """importer branches `chk.container == Container.X and chk.name == "N"`: [(X, N unquoted, If node, asserted arity, kinds stored)]"""
    out = []
    cf, nf = role_field.get("container"), role_field.get("name")
    for st in au.walk(rfn):
        if not isinstance(st, ast.If):
            continue
        X = N = None
        for t in _atoms(st.test):
            t = cc.resolve(b, t, at=st) if any(isinstance(x, ast.Name) for x in au.walk(t)) else t
            if isinstance(t, ast.Compare) and len(t.ops) == 1 and isinstance(t.ops[0], ast.Eq):
                pairs = [(t.left, t.comparators[0]), (t.comparators[0], t.left)]
                if isinstance(t.left, ast.Tuple) and isinstance(t.comparators[0], ast.Tuple) and len(t.left.elts) == len(t.comparators[0].elts):
                    # (chk.container, chk.name) == (Container.X, "N")
                    pairs = [p_ for a_, b2 in zip(t.left.elts, t.comparators[0].elts) for p_ in ((a_, b2), (b2, a_))]
                for l, r in pairs:
                    if isinstance(l, ast.Attribute) and l.attr == (cf or "container") and isinstance(r, ast.Attribute):
                        X = r.attr
                    if isinstance(l, ast.Attribute) and l.attr == (nf or "name") and isinstance(r, ast.Constant) and isinstance(r.value, str):
                        N = r.value
        if X is None or N is None:
            continue
        arity = None
        for s in st.body:
            if isinstance(s, ast.Assert) and isinstance(s.test, ast.Compare) and len(s.test.ops) == 1 and isinstance(s.test.ops[0], ast.Eq):
                for l, r in ((s.test.left, s.test.comparators[0]), (s.test.comparators[0], s.test.left)):
                    if isinstance(l, ast.Attribute) and isinstance(au.const(r), int):
                        arity = (l.attr, au.const(r))
        kinds = []
        for s in st.body:
            for c in au.calls(s):
                if isinstance(c.func, ast.Attribute) and c.func.attr in ("append", "extend"):
                    k = rd.container_of(c.func.value, b, c)
                    if k:
                        kinds.append(k)
        out.append((X, unquote(N), st, arity, kinds))
    return out


def reader_tables(ctx, repo, rfn, b):
    cfn, fields, start = chunk_reader_fields(repo)
    member_field = {}
    for n_ in au.walk(rfn):
        if isinstance(n_, ast.Dict) and n_.keys and all(isinstance(k, ast.Attribute) for k in n_.keys) \
                and all(isinstance(v, ast.Attribute) for v in n_.values):
            member_field = {k.attr: v.attr for k, v in zip(n_.keys, n_.values)}
    role_field = {}
    for f_, v in fields.items():
        if f_.endswith("[]"):
            continue
        k, conv, st = v
        if conv == "from_string":
            role_field["container" if "Container" in au.src(st.value.func) else "type"] = f_
    for c in au.calls(rfn):
        if au.call_tail(c) == "create_attribute" and len(c.args) >= 3 and isinstance(c.args[2], ast.Attribute) \
                and isinstance(c.args[1], ast.Attribute) and c.args[1].attr == role_field.get("type"):
            role_field["arity"] = c.args[2].attr
            nm = [x.attr for x in au.walk(c.args[0]) if isinstance(x, ast.Attribute) and x.attr in fields]
            if nm:
                role_field["name"] = nm[0]
    return cfn, fields, start, member_field, role_field


# --------------------------------------------------------------------------- conditions on the attribute type / arity
def eval_type_guard(test, member, extra=None):
    if isinstance(test, ast.BoolOp):
        vals = [eval_type_guard(v, member, extra) for v in test.values]
        return ht._and3(vals) if isinstance(test.op, ast.And) else ht._or3(vals)
    if isinstance(test, ast.UnaryOp) and isinstance(test.op, ast.Not):
        v = eval_type_guard(test.operand, member, extra)
        return None if v is None else (not v)
    if isinstance(test, ast.Compare) and len(test.ops) == 1:
        l, r, op = test.left, test.comparators[0], test.ops[0]

        def mem(x):
            if isinstance(x, ast.Attribute) and isinstance(x.value, ast.Attribute) and x.value.attr == "Type" \
                    and x.attr in ("Bool", "Int", "Float", "Complex", "String"):
                return x.attr
            return None

        def is_type_expr(x):
            return isinstance(x, ast.Attribute) and x.attr in ("type", "data_type")
        for a, c in ((l, r), (r, l)):
            if is_type_expr(a):
                if mem(c) is not None and isinstance(op, (ast.Eq, ast.NotEq, ast.Is, ast.IsNot)):
                    v = mem(c) == member
                    return v if isinstance(op, (ast.Eq, ast.Is)) else (not v)
                if isinstance(c, (ast.Tuple, ast.List, ast.Set)) and all(mem(e) for e in c.elts) and isinstance(op, (ast.In, ast.NotIn)) and a is l:
                    v = member in [mem(e) for e in c.elts]
                    return v if isinstance(op, ast.In) else (not v)
    return extra(test) if extra else None


def branch_runs(node, member, stop=None, extra=None):
    vals = []
    for t, pol in au.guards(node, stop=stop):
        v = eval_type_guard(t, member, extra)
        vals.append(None if v is None else (v == pol))
    return ht._and3(vals or [True])


def payload_conversions(fields):
    out = {}
    for T in ("Bool", "Int", "Float", "Complex", "String"):
        for lo, conv, st in fields.get("data[]", []):
            if branch_runs(st, T) is not False:
                out[T] = conv or "<raw>"
                out[T + ":stmt"] = st
                break
    return out


def select(items, decide):
    """the flat emission when every alternative is decided by `decide(test) -> True / False`; raises LookupError on None"""
    out = []
    for x in items:
        if isinstance(x, em.Alt):
            v = decide(x.test)
            if v is None:
                raise LookupError(au.src(x.test))
            out += select(x.a if v else x.b, decide)
        elif isinstance(x, em.Rep):
            r = em.Rep(x.target, x.iter, x.ifs, select(x.body, decide), x.sep, x.node)
            r.partial = x.partial
            out.append(r)
        else:
            out.append(x)
    return out


# =========================================================================== models of the geogram codec
class Geo:
    def __init__(self, ctx):
        repo = ctx.repo
        self.ctx, self.repo = ctx, repo
        self.cx = ht.Codec(ctx, "geogram")
        cx = self.cx
        self.chunks = segment(cx.tree, [], [])
        self.cfn, self.fields, self.start, self.member_field, self.role_field = reader_tables(ctx, repo, cx.rfn, cx.rb)
        ctx.site(GEO, self.cfn)
        self.special = special_branches(cx.rfn, cx.rb, self.role_field)
        self.cfold = cc.folder_for(repo, GEO, "Chunk.Container")
        self.tfold = cc.folder_for(repo, ATTR, "_BaseAttribute.Type")
        if repo.has_func(GEO, "Chunk.Container.from_string"):
            ctx.site(GEO, repo.func(GEO, "Chunk.Container.from_string"))
        self.header_len = max(self.start) if len(self.start) == 1 else None

    def fold_container(self, written):
        """enum member the importer maps a written container line to; None = no member; raises Unfoldable when not foldable"""
        try:
            return self.cfold.call("from_string", written)
        except cc.Raised:
            return None

    def literal_attr(self):
        """[ATTR] chunks whose header is fully literal (connectivity and size tables)"""
        return [c for c in self.chunks if c.tag == "[ATTR]" and all(c.lit(i) is not None for i in range(len(c.lines)))]

    def generic_attr(self):
        """[ATTR] chunks written for every attribute of a container"""
        return [c for c in self.chunks if c.tag == "[ATTR]" and any(c.lit(i) is None for i in range(len(c.lines)))]


def attr_header_roles(g):
    """{role: (line, quoted, leaf)} of the generic [ATTR] header (all generic chunks must agree), n header lines; None if unread"""
    res = None
    for c in g.generic_attr():
        roles = {}
        name_var = None
        for r in c.reps():
            if isinstance(r.iter, ast.Attribute) and r.iter.attr == "attributes" or \
                    (isinstance(r.iter, ast.Call) and isinstance(r.iter.func, ast.Attribute) and isinstance(r.iter.func.value, ast.Attribute)
                     and r.iter.func.value.attr == "attributes"):
                name_var = r.target
        for i in range(1, len(c.lines)):
            if c.lit(i) is not None:
                if "container" not in roles:
                    roles["container"] = (i, c.lit(i).startswith('"'), c.lit(i))
                continue
            lq = c.leaf(i)
            if lq is None:
                return None
            lf, quoted = lq
            e = cc.resolve(g.cx.b, lf.expr, at=lf.node, keep=tuple(au.names(name_var)) if name_var is not None else ())
            role = None
            if isinstance(e, ast.Call) and au.call_tail(e) in ("to_string", "byte_size") and not e.args:
                role = au.call_tail(e)
            elif isinstance(e, ast.Attribute) and e.attr == "elemsize":
                role = "elemsize"
            elif name_var is not None and isinstance(e, ast.Name) and e.id in au.names(name_var):
                role = "name"
            elif isinstance(e, ast.Constant) and isinstance(e.value, str):
                role = "container"
            if role is None:
                return None
            roles[role] = (i, quoted, lf)
        c.roles = roles
        key = {k: v[:2] for k, v in roles.items()}, len(c.lines)
        if res is not None and res[2] != key:
            return None
        res = (roles, len(c.lines), key)
    return (res[0], res[1]) if res else None


def g1_header_layout(g):
    ctx, cx = g.ctx, g.cx
    site = cx.ws()
    hr = attr_header_roles(g)
    need = {"container", "type", "arity", "name"}
    if hr is None or not need <= set(g.role_field) or not {"to_string", "elemsize", "name", "container"} <= set(hr[0]):
        ctx.undecided("C04-G1", site, "geogram: [ATTR] header layout of user attributes not recognised",
                      f"writer roles {sorted(hr[0]) if hr else None}, reader roles {sorted(g.role_field)}")
        return None
    roles, n_lines = hr
    for rrole, wrole in (("type", "to_string"), ("arity", "elemsize"), ("container", "container"), ("name", "name")):
        rk = g.fields[g.role_field[rrole]][0]
        wl = roles[wrole][0]
        ctx.check(wl == rk, "C04-G1", site,
                  f"geogram: the {rrole} of an attribute is written on header line {wl} and read from line {rk}",
                  f"Chunk.__init__ takes self.{g.role_field[rrole]} from line {rk} of the chunk; a user attribute comes back "
                  f"with the wrong {rrole} or fails to parse", note=f"geogram [ATTR] header: {rrole} on line {rk}")
    if g.start:
        ctx.check(g.start == {n_lines}, "C04-G1", site,
                  f"geogram: attribute values start on line {n_lines} of the chunk, the importer reads them from line {sorted(g.start)}",
                  "header lines parsed as values (or values skipped)", note=f"geogram [ATTR] payload starts on line {n_lines}")
    else:
        ctx.undecided("C04-G1", cx.rs(), "geogram: first payload line read by Chunk.__init__ not recognised", "")
    return roles


def g1_generic_payload(g, roles):
    """payload of a user attribute chunk: for every element i in range(size) the scalar attr[i] (arity 1) or attr[i][j] for j in
    range(arity); Bool through int(), Int / Float as they are"""
    ctx, cx, b = g.ctx, g.cx, g.cx.b
    reader_conv = payload_conversions(g.fields)
    done = set()
    for c in g.generic_attr():
        site = chunk_site(g, c)
        if any(isinstance(x, em.Unk) for x, _p in em.walk(c.payload)):
            ctx.undecided("C04-G1", site, "geogram: payload of a user attribute chunk is written in a way the writer model does not read", "")
            continue
        key = tuple(id(x) for x in c.payload)
        if key in done:
            continue
        done.add(key)
        roles_c = getattr(c, "roles", roles)
        size_src = au.src(cc.resolve(b, roles_c["elemsize"][2].expr, at=roles_c["elemsize"][2].node))
        anchor = roles_c["elemsize"][2].node

        def decide(T, n):
            def d(test):
                t = cc.resolve(b, test, at=test if au.parent(test) is not None else anchor)

                def extra(x):
                    if any(au.src(y) == size_src for y in au.walk(x)):
                        key_ = au.norm(next(y for y in au.walk(x) if au.src(y) == size_src))
                        return cc.eval_test(_TagSubst(key_).visit(cc.clean(x)), {"__tag": n})
                    return None
                return eval_type_guard(t, T, extra)
            return d
        ok_all = True
        for T in ("Bool", "Int", "Float"):
            for n in (1, 2):
                try:
                    flat0 = select(c.payload, decide(T, n))
                except LookupError:
                    ctx.undecided("C04-G1", site, "geogram: a condition inside the payload of user attributes is not about the "
                                  "attribute type / arity", "")
                    ok_all = None
                    break
                reps = [x for x in flat0 if isinstance(x, em.Rep)]
                if len(reps) != 1 or any(isinstance(x, em.Lf) for x in flat0):
                    ctx.undecided("C04-G1", site, f"geogram: payload loop of a {T} attribute of arity {n} not recognised", "")
                    ok_all = None
                    break
                rep = reps[0]
                it = cc.resolve(b, rep.iter, at=rep.node)
                if not (isinstance(it, ast.Call) and au.call_tail(it) == "range" and len(it.args) == 1 and isinstance(rep.target, ast.Name)):
                    ctx.undecided("C04-G1", site, "geogram: the payload of a user attribute chunk does not run over range(size)", "")
                    ok_all = None
                    break
                i = rep.target.id
                verdict, why = payload_case(g, rep.body, i, n, T, roles_c, rep)
                if verdict is None:
                    ctx.undecided("C04-G1", site, f"geogram: values written for a {T} attribute of arity {n} not recognised", why)
                    ok_all = None
                    break
                rule = "C04-A1" if why.startswith("type:") else "C04-G1"
                ctx.check(verdict, rule, site,
                          f"geogram: export of a {T} attribute of arity {n}: {why.split(':', 1)[-1]}" if not verdict else "",
                          "the importer assigns value group k to element k, `arity` values per element, Bool as 0/1",
                          note=f"geogram: {T} attribute of arity {n}: dense, element-major, value text matches the importer")
            if ok_all is None:
                break


def payload_case(g, flat, i, n, T, roles, rep):
    """(True / False / None, why) for the values written per element when the attribute has type T and arity n"""
    b = g.cx.b
    reader_conv = payload_conversions(g.fields)
    bool_int = bool(reader_conv.get("Bool") and "int(" in reader_conv["Bool"])
    leaves = [x for x in flat if isinstance(x, em.Lf)]
    inner = [x for x in flat if isinstance(x, em.Rep)]
    if any(isinstance(x, em.Unk) for x, p in em.walk(flat)):
        return None, "unread text"

    def value(lf, keep):
        e = cc.resolve(b, lf.expr, at=lf.node, keep=keep)
        as_int = False
        if isinstance(e, ast.Call) and isinstance(e.func, ast.Name) and e.func.id in ("int", "round") and len(e.args) == 1:
            as_int, e = e.func.id, e.args[0]
        idx = []
        while isinstance(e, ast.Subscript) and not isinstance(e.slice, ast.Slice):
            idx.insert(0, au.src(e.slice))
            e = e.value
        return as_int, idx, e

    def type_ok(as_int, lf):
        if not lf.plain():
            return False, f"type:a value is written with format {ht.spec_text(lf)!r}"
        if T == "Bool" and bool_int and not as_int:
            return False, "type:a Bool value is written as True/False, the importer parses bool(int(token))"
        if T in ("Int", "Float") and as_int:
            return False, f"type:a {T} value is written through {as_int}()"
        return True, ""
    size_src = au.src(cc.resolve(b, roles["elemsize"][2].expr, at=roles["elemsize"][2].node))

    def component_loop(r2):
        """(j, leaf) when r2 is `for j in range(arity)` writing one value, else None"""
        body = [x for x in r2.body if isinstance(x, em.Lf)]
        if len(body) != 1 or not isinstance(r2.target, ast.Name) or any(isinstance(x, (em.Rep, em.Alt)) for x in r2.body):
            return None
        it = cc.resolve(b, r2.iter, at=r2.node)
        if not (isinstance(it, ast.Call) and au.call_tail(it) == "range" and len(it.args) == 1):
            return None
        return r2.target.id, body[0].leaf, au.src(it.args[0])
    if n == 1:
        if inner and not leaves and len(inner) == 1:
            cl = component_loop(inner[0])
            if cl is not None and value(cl[1], (i, cl[0]))[1] == [i, cl[0]]:
                return False, "the per-component loop is used for arity 1 (a scalar is indexed)"
            return None, "values written through a loop the rule does not read"
        if len(leaves) != 1 or inner:
            return None, "mixed forms"
        as_int, idx, base = value(leaves[0].leaf, (i,))
        if idx != [i]:
            return (False, f"the value written for element i is indexed by {idx}") if len(idx) == 2 and idx[0] == i else (None, "value not indexed by the element")
        ok, why = type_ok(as_int, leaves[0].leaf)
        return (ok, why) if not ok else (True, "")
    if leaves and not inner:
        if len(leaves) == 1 and value(leaves[0].leaf, (i,))[1] == [i]:
            return False, "the scalar form is used for arity > 1 (a vector is written as one token)"
        return None, "values not read"
    if len(inner) != 1 or leaves:
        return None, "mixed forms"
    cl = component_loop(inner[0])
    if cl is None:
        return None, "component loop not read"
    j, lf, rng = cl
    as_int, idx, base = value(lf, (i, j))
    if idx != [i, j]:
        return (False, f"component j of element i is written from index {idx}") if sorted(idx) == sorted([i, j]) else (None, "component not indexed by (i, j)")
    if rng != size_src:
        return None, f"the component loop runs over range({rng}), the header announces {size_src}"
    ok, why = type_ok(as_int, lf)
    return (ok, why) if not ok else (True, "")


class _TagSubst(ast.NodeTransformer):
    def __init__(self, key):
        self.key = key

    def generic_visit(self, node):
        if isinstance(node, ast.expr) and au.norm(node) == self.key:
            return ast.Name(id="__tag", ctx=ast.Load())
        return super().generic_visit(node)


# =========================================================================== writer: literal chunks, containers, counts
def chunk_site(g, c):
    for ln in c.lines:
        for tk in ln:
            if isinstance(tk, em.Token):
                for p in tk.parts:
                    if p[0] == "leaf":
                        return g.cx.ws(p[1].node)
    for x in c.payload:
        if isinstance(x, em.Rep):
            return g.cx.ws(x.node)
    return g.cx.ws()


def geogram_chunks(g, ptr_names):
    """literal [ATTR] chunks of the exporter against the importer branches; returns {chunk name: chunk}"""
    ctx, cx, prov, b = g.ctx, g.cx, g.cx.prov, g.cx.b
    names_written = {}
    lits = g.literal_attr()
    if not lits:
        ctx.undecided("C04-E1", cx.ws(), "geogram: connectivity chunks of the exporter not recognised", "")
    for c in lits:
        rep0 = next((x for x in c.payload if isinstance(x, em.Rep)), None)
        site = cx.ws(rep0.node) if rep0 is not None else chunk_site(g, c)
        if g.header_len is None or len(c.lines) != g.header_len or len(c.lines) < 6:
            ctx.undecided("C04-G1", site, "geogram: a connectivity chunk header does not have the number of lines the importer indexes",
                          f"{len(c.lines)} header line(s)")
            continue
        cont_w, name, typ, nbytes, arity = c.lit(1), unquote(c.lit(2)), unquote(c.lit(3)), c.lit(4), c.lit(5)
        names_written[name] = c
        try:
            m = g.fold_container(cont_w)
        except cc.Unfoldable:
            ctx.undecided("C04-E1", site, "geogram: Chunk.Container.from_string is not a foldable table", "")
            continue
        match = [sp for sp in g.special if m is not None and sp[0] == m.name and sp[1] == name]
        if not match and name in ptr_names and m is not None and m.name == ptr_names[name][1]:
            match = [(m.name, name, None, (None, 1), [])]
        if not match:
            elsewhere = any(isinstance(x, ast.Constant) and isinstance(x.value, str) and unquote(x.value) == name for x in au.walk(cx.rfn)) \
                and not any(sp[1] == name for sp in g.special) and name not in ptr_names
            if len(g.special) < 4 or elsewhere:
                ctx.undecided("C04-E1", site, f"geogram: importer branch for chunk {name} not recognised", "")
            else:
                near = [sp for sp in g.special if sp[1].split("::")[-1] == name.split("::")[-1]]
                if name in ptr_names:
                    near = [(ptr_names[name][1], name)]
                ctx.fail("C04-E1", site,
                         f"geogram: chunk {name} written under {unquote(cont_w)} matches no connectivity branch of the importer",
                         f"the importer looks for "
                         f"{('`' + near[0][1] + '` of Container.' + near[0][0]) if near else 'other names'}; this chunk is read back as a "
                         f"user attribute of {m} and the connectivity it carries is lost")
        else:
            X, N, ifnode, asserted, kinds = match[0]
            ctx.ok("C04-E1", site, f"geogram: chunk {name} of {X} has an importer branch")
            try:
                T = g.tfold.call("from_string", typ)
                bs = g.tfold.call("byte_size", T) if T is not None else None
                wantT = "Float" if "vertices" in kinds else "Int"
                ctx.check(T is not None and T.name == wantT, "C04-E1", site,
                          f"geogram: chunk {name} is declared with type {typ}, parsed as {T} (its values are {wantT.lower()}s)",
                          "Chunk.__init__ converts the payload according to the declared type")
                ctx.check(str(bs) == nbytes, "C04-E1", site,
                          f"geogram: chunk {name} declares {nbytes} bytes per value, the type table says {bs} for {T}",
                          "independent readers size the payload with this field")
            except cc.Raised:
                ctx.fail("C04-E1", site, f"geogram: chunk {name} is declared with type {typ}, which the type table does not know", "")
            except cc.Unfoldable:
                ctx.undecided("C04-E1", site, "geogram: the attribute type table is not foldable", "")
            if asserted is not None:
                ctx.check(str(asserted[1]) == arity, "C04-E1", site,
                          f"geogram: chunk {name} declares {arity} value(s) per element, the importer asserts {asserted[1]}",
                          "the importer raises AssertionError on reload")
        # payload
        reps = [x for x in c.payload if isinstance(x, em.Rep)]
        if len(reps) != 1 or any(isinstance(x, (em.Alt, em.Unk)) for x in c.payload):
            ctx.undecided("C04-G1", site, f"geogram: payload loop of chunk {name} not recognised", "")
            continue
        rep = reps[0]
        psite = cx.ws(rep.node)
        if em.unknowns(rep.body) or any(isinstance(x, em.Alt) for x, p in em.walk(rep.body)):
            ctx.undecided("C04-G1", psite, f"geogram: payload of chunk {name} is written in a way the writer model does not read", "")
            continue
        nvals = count_leaves(rep.body)
        ctx.check(str(nvals) == arity, "C04-G1", psite,
                  f"geogram: chunk {name} declares {arity} value(s) per element but {nvals} are written per element",
                  "the importer groups the payload by the declared arity")
        lvs = em.leaves_of(rep.body)
        it, _ = cc.strip_enumerate(rep.iter)
        itr = cc.resolve(b, it, at=rep.node)
        is_attr_obj = isinstance(itr, ast.Call) and au.call_tail(itr) in ("get_attribute", "create_attribute")
        if match and match[0][4] and not is_attr_obj:
            want_kind = match[0][4][0]
            cl = [em.leaf_class(prov, lf) for lf in lvs]
            if lvs and any(c_ is None for c_ in cl):
                ctx.undecided("C04-G1", psite, f"geogram: the values written in chunk {name} are not recognised as mesh elements", "")
            else:
                good = bool(lvs) and all((c_ or (None, None))[:2] == ("elem", want_kind) for c_ in cl)
                pos_ = [c_[3] for c_ in cl if c_ and len(c_) > 3]
                if good and pos_ and all(isinstance(p_, int) for p_ in pos_):
                    ctx.check(pos_ == list(range(len(pos_))), "C04-G1", psite,
                              f"geogram: the values of chunk {name} are components {pos_} of each element instead of {list(range(len(pos_)))}",
                              "the importer takes the values of an element in order", note=f"geogram: payload of {name} in component order")
                ctx.check(good, "C04-G1", psite,
                          f"geogram: the payload of chunk {name} is not made of the "
                          f"{'coordinates' if want_kind == 'vertices' else 'vertex indices'} of mesh.{want_kind}",
                          f"the importer builds {want_kind} from these values",
                          note=f"geogram: payload of {name} = elements of mesh.{want_kind}")
        ctx.check(not is_attr_obj, "C04-G1", psite,
                  f"geogram: the payload of chunk {name} iterates the attribute object itself",
                  f"iterating a sparse Attribute yields the keys of its non-default entries, not one value per element: the "
                  "keys (tuples for cell facets) are written as values and int() fails on reload",
                  note=f"geogram: payload of {name} runs over the elements")
        if not is_attr_obj:
            ri = em.row_iteration(rep, prov, b)
            dense = (ri is not None and ri[1] in ("loop", "range")) or (isinstance(itr, ast.Call) and au.call_tail(itr) == "range") \
                or prov.container_kind(it) is not None or any(_sizes_list(it, prov, k_) for k_ in ("faces", "cells")) \
                or any(_accumulated_offsets(it, prov, k_) is not None for k_ in ("faces", "cells"))
            if dense:
                ctx.ok("C04-G1", psite, f"geogram: payload of {name} runs over the elements")
            elif ri is not None:
                ctx.fail("C04-G1", psite, f"geogram: payload loop of chunk {name} does not run over all elements",
                         "one group of values per element, in element order")
            else:
                ctx.undecided("C04-G1", psite, f"geogram: what the payload loop of chunk {name} runs over is not recognised", "")
    return names_written


def geogram_containers(g, roles):
    """the container line of the user attribute chunks of mesh.<field> is one the importer maps back to <field>"""
    ctx, cx = g.ctx, g.cx
    for c in g.generic_attr():
        fld = None
        for r in c.reps():
            it = r.iter
            if isinstance(it, ast.Call) and isinstance(it.func, ast.Attribute) and it.func.attr in ("keys", "items"):
                it = it.func.value
            if isinstance(it, ast.Attribute) and it.attr == "attributes" and isinstance(it.value, ast.Attribute):
                fld = it.value.attr
        site = chunk_site(g, c)
        cl = c.lit(roles["container"][0]) if roles and "container" in roles else None
        if fld is None or cl is None:
            ctx.undecided("C04-E1", site, "geogram: container line / attribute loop of a user attribute chunk not recognised", "")
            continue
        try:
            m = g.fold_container(cl)
        except cc.Unfoldable:
            ctx.undecided("C04-E1", site, "geogram: Chunk.Container.from_string is not a foldable table", "")
            continue
        if not g.member_field:
            ctx.undecided("C04-E1", cx.rs(), "geogram: container -> mesh field table of the importer not recognised", "")
            continue
        ctx.check(m is not None and g.member_field.get(m.name) == fld, "C04-E1", site,
                  f"geogram: attributes of mesh.{fld} are written under container name {unquote(cl)}, which the importer maps to "
                  f"{('mesh.' + str(g.member_field.get(m.name))) if m is not None else 'no container'}",
                  f"Chunk.Container.from_string({unquote(cl)!r}) is {m}: a user attribute on mesh.{fld} "
                  f"{'makes the importer raise (container not recognised)' if m is None else 'comes back on another container'}",
                  note=f"geogram: mesh.{fld} attributes -> {m}")


def geogram_counts(g):
    ctx, cx, b = g.ctx, g.cx, g.cx.b
    wsite = cx.ws()
    atts = {}
    rk = [(f_, v[0]) for f_, v in g.fields.items() if not f_.endswith("[]") and v[1] == "int"
          and any("ATTS" in au.src(t) for t, pol in au.guards(v[2]) if pol)]
    for c in g.chunks:
        if c.tag != "[ATTS]":
            continue
        site = chunk_site(g, c)
        wl = [k for k in range(len(c.lines)) if c.leaf(k) is not None]
        if len(rk) == 1 and len(wl) == 1 and len(c.lines) == 3:
            ctx.check(wl == [rk[0][1]], "C04-H1", site,
                      f"geogram: an [ATTS] chunk carries its element count on line {wl}, the importer reads line {[k for f_, k in rk]}",
                      "container sizes are wrong: no / too many elements are read", note=f"geogram: [ATTS] count on line {wl}")
        else:
            ctx.undecided("C04-H1", site, "geogram: layout of an [ATTS] chunk / of its reader not recognised", "")
            continue
        try:
            m = g.fold_container(c.lit(1)) if c.lit(1) is not None else None
        except cc.Unfoldable:
            m = None
        if m is not None:
            atts[m.name] = (c, c.leaf(wl[0])[0])
    for X in sorted(g.member_field):
        used = False
        for x in au.walk(cx.rfn):
            if isinstance(x, ast.Subscript) and isinstance(x.slice, ast.Attribute) and x.slice.attr == X and isinstance(x.ctx, ast.Load):
                used = True
        if not used:
            continue
        fld = g.member_field.get(X)
        ent = atts.get(X)
        if ent is None:
            if fld not in cc.KINDS:
                continue
            if cx.writer_understood() and not [c for c in g.chunks if c.tag == "[ATTS]" and c.lit(1) is None]:
                ctx.fail("C04-H1", wsite, f"geogram: no [ATTS] chunk gives the number of {fld}",
                         f"the importer loops over container_sizes[{X}] (0 when absent): no {fld} are loaded")
            else:
                ctx.undecided("C04-H1", wsite, f"geogram: the [ATTS] chunk giving the number of {fld} is not recognised", "")
            continue
        c, cnt = ent
        r = cc.resolve(b, cnt.expr, at=cnt.node)
        if fld not in cc.KINDS and fld not in cc.CORNER_KINDS:
            continue
        ok = isinstance(r, ast.Call) and isinstance(r.func, ast.Name) and r.func.id == "len" and len(r.args) == 1 \
            and au.src(r.args[0]) == f"{cx.prov.mesh}.{fld}"
        if not ok and fld in cc.CORNER_KINDS and isinstance(r, ast.Call) and au.call_tail(r) == "sum":
            continue          # number of corners computed from the rows
        if isinstance(r, ast.Call) and isinstance(r.func, ast.Name) and r.func.id == "len" and len(r.args) == 1 and \
                cx.prov.container_kind(r.args[0]) is not None:
            ctx.check(ok, "C04-H1", chunk_site(g, c),
                      f"geogram: the [ATTS] count of {X} is the size of mesh.{r.args[0].attr if isinstance(r.args[0], ast.Attribute) else '?'}, not len(mesh.{fld})",
                      f"the importer reads exactly that many {fld}", note=f"geogram: [ATTS] {X} = len(mesh.{fld})")
        elif ok:
            ctx.ok("C04-H1", chunk_site(g, c), f"geogram: [ATTS] {X} = len(mesh.{fld})")
        else:
            ctx.undecided("C04-H1", chunk_site(g, c), f"geogram: the [ATTS] count of {X} is not recognised as a container size", "")


def g1_attribute_loops(g, names_written):
    """every attribute of a container is exported, except the ones written as their own chunk"""
    ctx, cx, b = g.ctx, g.cx, g.cx.b
    seen = set()
    for c in g.generic_attr():
        lp = None
        k = None
        for idx, p in enumerate(c.path):
            if p[0] == "rep":
                it = p[1].iter
                if isinstance(it, ast.Call) and isinstance(it.func, ast.Attribute) and it.func.attr in ("keys", "items"):
                    it = it.func.value
                if isinstance(it, ast.Attribute) and it.attr == "attributes":
                    lp, k = p[1], idx
        if lp is None or id(lp) in seen:
            continue
        seen.add(id(lp))
        site = cx.ws(lp.node)
        keys = set(au.names(lp.target))
        skipped, bad, only, content = [], None, None, None
        for p in c.path[k + 1:]:
            if p[0] != "alt":
                bad = "nested loop"
                continue
            t, pol = p[1], p[2]
            t = cc.resolve(b, t, at=t if au.parent(t) is not None else lp.node, keep=tuple(keys))
            handled = False
            if isinstance(t, ast.Compare) and len(t.ops) == 1:
                l, r, op = t.left, t.comparators[0], t.ops[0]
                for a, cst in ((l, r), (r, l)):
                    if isinstance(a, ast.Name) and a.id in keys and isinstance(cst, ast.Constant) and \
                            (isinstance(op, ast.Eq) and not pol or isinstance(op, ast.NotEq) and pol):
                        skipped.append(cst.value)
                        handled = True
                        break
                    if isinstance(a, ast.Name) and a.id in keys and isinstance(cst, ast.Constant) and \
                            (isinstance(op, ast.Eq) and pol or isinstance(op, ast.NotEq) and not pol):
                        only = [cst.value]
                        handled = True
                        break
                if not handled and isinstance(l, ast.Name) and l.id in keys and isinstance(r, (ast.Tuple, ast.List, ast.Set)) and \
                        (isinstance(op, ast.In) and not pol or isinstance(op, ast.NotIn) and pol):
                    skipped += [au.const(e) for e in r.elts]
                    handled = True
            if not handled:
                bad = ("" if pol else "not ") + au.src(t)
                # does the condition look at the attribute itself (its content), i.e. at `<container>.get_attribute(<key>)` ?
                for x in au.walk(t):
                    if isinstance(x, ast.Call) and au.call_tail(x) == "get_attribute" and x.args and isinstance(x.args[0], ast.Name) \
                            and x.args[0].id in keys:
                        content = ("" if pol else "not ") + au.src(cc.subst(t, {kk: ast.Name(id="key", ctx=ast.Load()) for kk in keys}))
        if lp.ifs:
            bad = "filter in the comprehension"
        handled_all = all(any(str(nm) == w.split("::")[-1] for w in names_written) for nm in skipped)
        fld = lp.iter.value.attr if isinstance(lp.iter, ast.Attribute) and isinstance(lp.iter.value, ast.Attribute) else "?"
        if content is not None:
            ctx.fail("C04-G1", site, f"geogram: an attribute of mesh.{fld} is exported only when a condition on its content holds",
                     f"exported under `{content}`: an attribute that does not satisfy it (e.g. one holding only default values) is left out of "
                     f"the file and does not come back with its name, type and arity")
            continue
        if bad is not None:
            ctx.undecided("C04-G1", site, f"geogram: condition under which the attributes of mesh.{fld} are exported not recognised", "")
            continue
        if not handled_all and (cx.unknown or cx.problems or any(c2.tag is None for c2 in g.chunks)
                                or any(c2.tag == "[ATTR]" and len(c2.lines) >= 3 and c2.lit(2) is None and c2 not in g.generic_attr() for c2 in g.chunks)):
            # part of what the exporter writes is not read: the chunk of the skipped attribute may be there
            ctx.undecided("C04-G1", site, f"geogram: whether the attributes of mesh.{fld} skipped by name are written as their own chunk cannot be told", "")
            continue
        ctx.check(bad is None and handled_all and only is None, "C04-G1", site,
                  f"geogram: not every attribute of mesh.{fld} "
                  f"is exported (only the ones written as their own chunk may be skipped)",
                  f"skipped {skipped}{', exported only ' + str(only) if only else ''}: user attributes are missing from the file",
                  note=f"geogram: all attributes of mesh.{fld} exported, skipping {skipped}")


# =========================================================================== size tables (facet_ptr / cell_ptr)
def list_fills(fn, b, name):
    """how a local list is filled: [('each', elt, var, range arg, node)] for one value per i in range(..) (append in a loop /
    extend or += of a comprehension), [('one', elt, node)] for single appends; plus the plain assignments [(value, node)]"""
    fills, assigns = [], []
    for st in au.stmts(fn.body):
        for n2, v in sym.split_assign(st):
            if n2 == name:
                assigns.append((v, st))
        comp = None
        if isinstance(st, ast.AugAssign) and isinstance(st.target, ast.Name) and st.target.id == name and isinstance(st.op, ast.Add):
            comp = st.value
        elif isinstance(st, ast.Expr) and isinstance(st.value, ast.Call) and isinstance(st.value.func, ast.Attribute) \
                and isinstance(st.value.func.value, ast.Name) and st.value.func.value.id == name and len(st.value.args) == 1:
            if st.value.func.attr == "extend":
                comp = st.value.args[0]
            elif st.value.func.attr == "append":
                loops = []
                for a in au.ancestors(st):
                    if isinstance(a, ast.For):
                        loops.append(a)
                    if isinstance(a, (ast.FunctionDef,)):
                        break
                inner = loops[0] if loops else None
                rng = inner.iter if inner is not None else None
                if inner is not None and isinstance(rng, ast.Call) and au.call_tail(rng) == "range" and len(rng.args) == 1 \
                        and isinstance(inner.target, ast.Name) and inner.target.id in au.names(st.value.args[0]):
                    fills.append(("each", st.value.args[0], inner.target.id, rng.args[0], st))
                else:
                    fills.append(("one", st.value.args[0], None, None, st))
        if comp is not None:
            if isinstance(comp, (ast.ListComp, ast.GeneratorExp)) and len(comp.generators) == 1 and not comp.generators[0].ifs \
                    and isinstance(comp.generators[0].target, ast.Name) and isinstance(comp.generators[0].iter, ast.Call) \
                    and au.call_tail(comp.generators[0].iter) == "range" and len(comp.generators[0].iter.args) == 1:
                fills.append(("each", comp.elt, comp.generators[0].target.id, comp.generators[0].iter.args[0], st))
            elif isinstance(comp, (ast.List, ast.Tuple)) and len(comp.elts) == 1:
                fills.append(("one", comp.elts[0], None, None, st))
            else:
                fills.append(("other", comp, None, None, st))
    return fills, assigns


def chunk_name_guard(node, name_field):
    """chunk names under whose `X.name == "N"` test `node` runs"""
    out = []
    for test, pol in au.guards(node):
        if not pol:
            continue
        for t in au.walk(test):
            if isinstance(t, ast.Compare) and len(t.ops) == 1 and isinstance(t.ops[0], ast.Eq):
                for l, r in ((t.left, t.comparators[0]), (t.comparators[0], t.left)):
                    if isinstance(l, ast.Attribute) and l.attr == (name_field or "name") and isinstance(r, ast.Constant) and isinstance(r.value, str):
                        out.append(unquote(r.value))
    return out


def arity_tables(g):
    """{kind: dict(size table name T, offset table P, data source, chunk names filling T, default size, fills, node)} from the rows
    `[D[P[i] + k] for k in range(T[i])]` the importer stores as faces / cells"""
    rfn, b = g.cx.rfn, g.cx.rb
    out = {}
    for rb in g.cx.rblocks:
        if rb.kind not in ("faces", "cells"):
            continue
        lp = rb.loop
        i = lp.target.id if lp is not None and isinstance(lp.target, ast.Name) else None
        row = rb.row
        for _ in range(3):
            if isinstance(row, ast.Name):
                row = b.reaching(row.id, rb.node) or row
        if not (isinstance(row, (ast.ListComp, ast.GeneratorExp)) and len(row.generators) == 1 and i):
            continue
        gen = row.generators[0]
        it = gen.iter
        if not (isinstance(it, ast.Call) and au.call_tail(it) == "range" and len(it.args) in (1, 2) and isinstance(gen.target, ast.Name)):
            continue
        lo_e = None
        if len(it.args) == 2:
            # range(ptr, ptr + size): the corners of the element directly
            lo_e = cc.resolve(b, it.args[0], at=rb.node, keep=(i,))
            hi_e = cc.resolve(b, it.args[1], at=rb.node, keep=(i,))
            if not (isinstance(hi_e, ast.BinOp) and isinstance(hi_e.op, ast.Add)):
                continue
            if au.src(hi_e.left) == au.src(lo_e):
                n_e = hi_e.right
            elif au.src(hi_e.right) == au.src(lo_e):
                n_e = hi_e.left
            else:
                continue
        else:
            n_e = cc.resolve(b, it.args[0], at=rb.node, keep=(i,))
        if not (isinstance(n_e, ast.Subscript) and isinstance(n_e.value, ast.Name) and au.src(n_e.slice) == i):
            continue
        def alias(nm):
            # `a, b = (p, s)` / `a = p`: the table is the local the values were built in
            for _ in range(4):
                d = b.reaching(nm, rb.node)
                if isinstance(d, ast.Name):
                    nm = d.id
                else:
                    break
            return nm
        T = alias(n_e.value.id)
        P = None
        elt = cc.resolve(b, row.elt, at=rb.node, keep=(i, gen.target.id))
        if lo_e is not None:
            elt = ast.Subscript(value=ast.Name(id="_", ctx=ast.Load()), slice=lo_e, ctx=ast.Load())
        if isinstance(elt, ast.Subscript):
            for x in au.walk(elt.slice):
                if isinstance(x, ast.Subscript) and isinstance(x.value, ast.Name) and au.src(x.slice) == i:
                    P = alias(x.value.id)
        fills, assigns = list_fills(rfn, b, T)
        names = []
        for f in fills:
            for nm in chunk_name_guard(f[4], g.role_field.get("name")):
                if nm not in names:
                    names.append(nm)
        default = None
        dnode = None
        for v, st in assigns:
            if isinstance(v, ast.BinOp) and isinstance(v.op, ast.Mult):
                for side, other in ((v.left, v.right), (v.right, v.left)):
                    if isinstance(side, ast.List) and len(side.elts) == 1 and isinstance(au.const(side.elts[0]), int):
                        default, dnode = au.const(side.elts[0]), st
        cont = None
        cnt = rb.count
        if cnt is not None:
            ce = cc.resolve(b, cnt, at=rb.node)
            for x in au.walk(ce):
                if isinstance(x, ast.Subscript) and isinstance(x.slice, ast.Attribute):
                    cont = x.slice.attr
        out[rb.kind] = dict(T=T, P=P, names=names, default=default, dnode=dnode, fills=fills, assigns=assigns, cont=cont, rb=rb, i=i)
    return out


def _count_of(e, b, at):
    """container member X when e resolves to `sizes[Container.X]` (+ integer k): (X, k)"""
    r = cc.resolve(b, e, at=at)
    subs = [x for x in au.walk(r) if isinstance(x, ast.Subscript) and isinstance(x.slice, ast.Attribute)]
    if len(subs) != 1:
        return None
    try:
        p = sym.to_poly(r, atom_of=lambda n: "@" if n is subs[0] else None, opaque=False)
    except sym.NotPoly:
        return None
    if p.coeff("@") == sym.Poly.const(1) and p.without("@").is_const() and p.degree_in("@") == 1:
        k = p.without("@").const_value()
        if k.denominator == 1:
            return subs[0].slice.attr, int(k)
    return None


def g1_reader_ptr_tables(g, tables):
    ctx, cx, b, rfn = g.ctx, g.cx, g.cx.rb, g.cx.rfn
    site = cx.rs()
    data_f = "data"
    for kind, t in sorted(tables.items()):
        T, P, names = t["T"], t["P"], t["names"]
        nm = names[0] if names else "?"
        each = [f for f in t["fills"] if f[0] == "each"]
        one = [f for f in t["fills"] if f[0] == "one"]
        other = [f for f in t["fills"] if f[0] == "other"]
        if other or not each or not one or not names:
            ctx.undecided("C04-G1", site, f"geogram: the way the sizes of {kind} are recovered from their size chunk is not recognised", "")
        else:
            verdicts = []
            for f in each:
                _, e, i, rng, st = f
                er = cc.resolve(b, e, at=st, keep=(i,))
                good = None
                if isinstance(er, ast.BinOp) and isinstance(er.op, (ast.Add, ast.Mult)) and all(
                        isinstance(x, ast.Subscript) and isinstance(x.value, ast.Attribute) and x.value.attr == data_f for x in (er.left, er.right)):
                    good = False
                if isinstance(er, ast.BinOp) and isinstance(er.op, ast.Sub) and all(
                        isinstance(x, ast.Subscript) and isinstance(x.value, ast.Attribute) and x.value.attr == data_f for x in (er.left, er.right)):
                    pl, pr = sym.to_poly(er.left.slice), sym.to_poly(er.right.slice)
                    cnt = _count_of(rng, b, st)
                    if cnt is None or t["cont"] is None:
                        good = None
                    else:
                        good = (pl - pr == sym.Poly.const(1)) and pr == sym.Poly.atom(i) and cnt == (t["cont"], -1)
                verdicts.append((good, f"size i is `{au.src(er)}` for i in range({au.src(cc.resolve(b, rng, at=st))})"))
            for f in one:
                _, e, _i, _r, st = f
                er = cc.resolve(b, e, at=st)
                good = None
                if isinstance(er, ast.BinOp) and isinstance(er.op, ast.Add) and isinstance(er.right, ast.Subscript) \
                        and isinstance(er.right.value, ast.Attribute) and er.right.value.attr == data_f and _count_of(er.left, b, st):
                    good = False
                if isinstance(er, ast.BinOp) and isinstance(er.op, ast.Sub) and isinstance(er.right, ast.Subscript) \
                        and isinstance(er.right.value, ast.Attribute) and er.right.value.attr == data_f:
                    cnt = _count_of(er.left, b, st)
                    if cnt is not None:
                        good = cnt[1] == 0 and cnt[0].endswith("CORNERS") and cnt[0].startswith(kind[:-1].upper()) \
                            and au.const(er.right.slice) == -1
                verdicts.append((good, f"last size is `{au.src(er)}`"))
            if any(v is None for v, w in verdicts):
                ctx.undecided("C04-G1", site, f"geogram: the way the sizes of {kind} are recovered from `{nm}` is not recognised",
                              "; ".join(w for v, w in verdicts if v is None))
            else:
                ctx.check(all(v for v, w in verdicts), "C04-G1", site,
                          f"geogram: the sizes of {kind} are not recovered from `{nm}` as ptr[i+1] - ptr[i] "
                          f"(last: number of corners - ptr[-1])", "; ".join(w for v, w in verdicts if not v),
                          note=f"geogram: sizes of {kind} = differences of consecutive offsets")
        # the default sizes apply exactly when no size chunk was read, and are the convention of the format
        if t["default"] is not None and t["dnode"] is not None:
            want_d = {"faces": 3, "cells": 4}[kind]
            ctx.check(t["default"] == want_d, "C04-E1", cx.rs(t["dnode"]),
                      f"geogram: without a size chunk the importer assumes {t['default']} vertices per {kind[:-1]}, the format says {want_d}",
                      "files of triangles / tetrahedra written without size chunk (by mouette and by geogram itself) are mis-read",
                      note=f"geogram: default size of {kind} is {want_d}")
            lenT = ast.Call(func=ast.Name(id="len", ctx=ast.Load()), args=[ast.Name(id=T, ctx=ast.Load())], keywords=[])
            res = []
            for n_el in (0, 2):
                vals = []
                for tst, pol in au.guards(t["dnode"]):
                    if T not in au.names(tst):
                        continue
                    parts = _atoms(tst) if pol else [tst]
                    for a_ in parts:
                        if T not in au.names(a_):
                            continue
                        if isinstance(a_, ast.Name) and a_.id == T:
                            v = n_el > 0
                        elif isinstance(a_, ast.UnaryOp) and isinstance(a_.op, ast.Not) and isinstance(a_.operand, ast.Name) and a_.operand.id == T:
                            v = n_el == 0
                        else:
                            v = cc.eval_test(_TagSubst(au.norm(lenT)).visit(cc.clean(a_)), {"__tag": n_el})
                        vals.append(None if v is None else (bool(v) == pol))
                res.append(ht._and3(vals) if vals else None)
            if None in res:
                ctx.undecided("C04-G1", cx.rs(t["dnode"]), f"geogram: condition under which the default sizes of {kind} are used not recognised", "")
            else:
                ctx.check(res[0] is True and res[1] is False, "C04-G1", cx.rs(t["dnode"]),
                          f"geogram: the default sizes of {kind} are not used exactly when no size chunk was read",
                          f"used with an empty size table: {res[0]}, with a filled one: {res[1]}",
                          note=f"geogram: default sizes of {kind} iff no size chunk")
        # default offsets: running sum of the default size from 0
        verdict, why = default_offsets(g, t)
        if verdict is None:
            ctx.undecided("C04-G1", site, f"geogram: the offsets of {kind} assumed without a size chunk are not recognised", why)
        else:
            ctx.check(verdict, "C04-G1", site,
                      f"geogram: without a size chunk the offsets of {kind} are not the running sum of the default size starting at 0",
                      f"element i of a file without `{nm}` starts at corner {t['default']}*i; {why}",
                      note=f"geogram: default offsets of {kind} = running sum from 0")


def default_offsets(g, t):
    b, rfn = g.cx.rb, g.cx.rfn
    P, T, default = t["P"], t["T"], t["default"]
    if P is None or default is None:
        return None, "offset table / default size not found"
    # (a) P = list(range(0, k*n, k))
    for st in au.stmts(rfn.body):
        for n2, v in sym.split_assign(st):
            if n2 != P:
                continue
            e = v
            if isinstance(e, ast.Call) and isinstance(e.func, ast.Name) and e.func.id == "list" and len(e.args) == 1:
                e = e.args[0]
            if isinstance(e, ast.Call) and au.call_tail(e) == "range" and len(e.args) == 3:
                lo, hi, stp = e.args
                cnt = None
                try:
                    ph = sym.to_poly(cc.resolve(b, hi, at=st))
                except sym.NotPoly:
                    return None, "range bound not read"
                ok = au.const(lo) == 0 and au.const(stp) == default
                c2 = _count_of(ast.BinOp(left=hi, op=ast.FloorDiv(), right=stp), b, st)
                atoms = [a for a in ph.atoms()]
                lin = len(atoms) == 1 and ph.coeff(atoms[0]) == sym.Poly.const(default) and ph.without(atoms[0]).is_zero()
                return (ok and lin), f"offsets are `{au.src(v)}`"
    # (b) running sum loop over the size table
    for st in au.stmts(rfn.body):
        if isinstance(st, ast.For) and isinstance(st.iter, ast.Name) and st.iter.id == T and isinstance(st.target, ast.Name):
            c = st.target.id
            app = [x for x in st.body if isinstance(x, ast.Expr) and isinstance(x.value, ast.Call) and au.call_tail(x.value) == "append"
                   and isinstance(x.value.func.value, ast.Name) and x.value.func.value.id == P
                   and len(x.value.args) == 1 and isinstance(x.value.args[0], ast.Name)]
            if len(app) != 1:
                continue
            acc = app[0].value.args[0].id
            init = b.reaching(acc, st)
            incs = [(k, x) for k, x in enumerate(st.body) if au.increment(x) and au.increment(x)[0] == acc]
            if len(incs) != 1:
                return None, "running offset not advanced exactly once"
            k, inc = incs[0]
            tgt, sign, delta = au.increment(inc)
            ok = isinstance(init, ast.Constant) and init.value == 0 and not isinstance(init.value, bool) and sign == 1 \
                and isinstance(delta, ast.Name) and delta.id == c and k > st.body.index(app[0])
            return ok, "offset stored " + ("before" if k > st.body.index(app[0]) else "after") + f" being advanced, starting at {au.src(init) if init is not None else '?'}"
    return None, "construction of the default offsets not found"


def _eval_size_condition(test, prov, kind, sizes):
    """value of `any(len(f) != 3 for f in mesh.faces)`-like conditions when the rows of mesh.<kind> have the given sizes"""
    if isinstance(test, ast.UnaryOp) and isinstance(test.op, ast.Not):
        v = _eval_size_condition(test.operand, prov, kind, sizes)
        return None if v is None else (not v)
    if isinstance(test, ast.BoolOp):
        vals = [_eval_size_condition(v, prov, kind, sizes) for v in test.values]
        if isinstance(test.op, ast.And):
            known = [v for v in vals if v is not None]
            return all(known) if known else None
        return None if any(v is None for v in vals) else any(vals)
    if isinstance(test, ast.Constant) and isinstance(test.value, bool):
        return test.value
    if isinstance(test, ast.Call) and isinstance(test.func, ast.Name) and test.func.id in ("any", "all") and len(test.args) == 1 \
            and isinstance(test.args[0], (ast.GeneratorExp, ast.ListComp)) and len(test.args[0].generators) == 1:
        gq = test.args[0].generators[0]
        if not isinstance(gq.target, ast.Name):
            return None
        if prov.container_kind(gq.iter) == kind:
            key = au.norm(ast.Call(func=ast.Name(id="len", ctx=ast.Load()), args=[ast.Name(id=gq.target.id, ctx=ast.Load())], keywords=[]))
        elif _sizes_list(gq.iter, prov, kind):
            key = au.norm(ast.Name(id=gq.target.id, ctx=ast.Load()))          # iterating the list of the row sizes
        else:
            return None
        vals = []
        for n_ in sizes:
            keep = True
            for cond in gq.ifs:
                kv = cc.eval_test(_TagSubst(key).visit(cc.clean(cond)), {"__tag": n_})
                if kv is None:
                    return None
                keep = keep and bool(kv)
            if not keep:
                continue
            v = cc.eval_test(_TagSubst(key).visit(cc.clean(test.args[0].elt)), {"__tag": n_})
            if v is None:
                return None
            vals.append(bool(v))
        return any(vals) if test.func.id == "any" else all(vals)
    return None


def _sizes_list(e, prov, kind):
    """is `e` (a name or an expression) the list of the sizes of the rows of mesh.<kind>: `[len(r) for r in mesh.K]`"""
    if isinstance(e, ast.Name) and prov.b is not None and au.parent(e) is not None:
        e = prov.b.reaching(e.id, e)
    if isinstance(e, ast.Call) and isinstance(e.func, ast.Name) and e.func.id in ("list", "tuple") and len(e.args) == 1:
        e = e.args[0]
    return isinstance(e, (ast.ListComp, ast.GeneratorExp)) and len(e.generators) == 1 and not e.generators[0].ifs \
        and prov.container_kind(e.generators[0].iter) == kind and isinstance(e.generators[0].target, ast.Name) \
        and isinstance(e.elt, ast.Call) and isinstance(e.elt.func, ast.Name) and e.elt.func.id == "len" and len(e.elt.args) == 1 \
        and isinstance(e.elt.args[0], ast.Name) and e.elt.args[0].id == e.generators[0].target.id


def _accumulated_offsets(e, prov, kind):
    """True when `e` is `accumulate(<sizes>[:-1], initial=0)` (the index of the first corner of every element), False when it is
    another accumulation of the sizes, None when it is something else"""
    if isinstance(e, ast.Name) and prov.b is not None and au.parent(e) is not None:
        e = prov.b.reaching(e.id, e)
    if isinstance(e, ast.Call) and isinstance(e.func, ast.Name) and e.func.id in ("list", "tuple") and len(e.args) == 1:
        e = e.args[0]
    if not (isinstance(e, ast.Call) and au.call_tail(e) == "accumulate" and e.args):
        return None
    a0 = e.args[0]
    init = next((k.value for k in e.keywords if k.arg == "initial"), None)
    if isinstance(a0, ast.Subscript) and isinstance(a0.slice, ast.Slice) and a0.slice.lower is None and a0.slice.step is None \
            and au.const(a0.slice.upper) == -1 and _sizes_list(a0.value, prov, kind):
        return isinstance(init, ast.Constant) and init.value == 0 and not isinstance(init.value, bool) and len(e.args) == 1
    if _sizes_list(a0, prov, kind):
        return False
    return None


def _ptr_payload(rep, b, prov, kind):
    acc = _accumulated_offsets(cc.strip_enumerate(rep.iter)[0], prov, kind)
    if acc is not None:
        leaves = em.leaves_of(rep.body)
        if len(leaves) == 1 and isinstance(leaves[0].expr, ast.Name) and isinstance(rep.target, ast.Name) and leaves[0].expr.id == rep.target.id \
                and not any(isinstance(x, (em.Alt, em.Rep)) for x in rep.body) and not rep.ifs:
            return None if acc else "the offsets written are not the running sum of the sizes of the preceding elements starting at 0"
        return ("?", "values written from the accumulated offsets not read")
    """None when the payload is `p = 0; for row in mesh.K: write(p); p += len(row)`; an explanation (str) when it recognisably is
    not; ('?', why) when the construct is not read"""
    lp = rep.node
    if not isinstance(lp, ast.For):
        return ("?", "payload is not written by a loop statement")
    ri = em.row_iteration(rep, prov, b)
    inner, en = cc.strip_enumerate(lp.iter)
    row = lp.target.elts[1] if en and isinstance(lp.target, ast.Tuple) else lp.target
    if not isinstance(row, ast.Name):
        return ("?", "row variable not found")
    over_sizes = ri is None and _sizes_list(inner, prov, kind)
    if ri is None and not over_sizes:
        return ("?", "what the payload loop runs over is not recognised")
    if ri is not None and (ri[0] != kind or ri[1] != "loop"):
        return "the payload loop does not run over every element"
    leaves = em.leaves_of(rep.body)
    if len(leaves) != 1 or count_leaves(rep.body) != 1 or any(isinstance(x, (em.Alt, em.Rep)) for x in rep.body):
        return "not exactly one unconditional value per element"
    if not isinstance(leaves[0].expr, ast.Name):
        return ("?", "the value written is not a running offset variable")
    Pn = leaves[0].expr.id
    init = b.reaching(Pn, lp)
    if init is None:
        return ("?", "initial value of the running offset not found")
    if not (isinstance(init, ast.Constant) and init.value == 0 and not isinstance(init.value, bool)):
        return "the running offset does not start at 0"
    incs = [(i, st) for i, st in enumerate(lp.body) if au.increment(st) and au.increment(st)[0] == Pn]
    allw = [st for st in au.stmts(lp.body) if Pn in [n_ for t in au.assign_targets(st) for n_ in au.assigned_names(t)]]
    if len(incs) != 1 or len(allw) != 1:
        return ("?", "the running offset is not advanced exactly once per element at the top of the loop")
    ii, ist = incs[0]
    _t, sign, delta = au.increment(ist)
    d = cc.resolve(b, delta, at=ist, keep=(row.id,))
    if over_sizes:
        good_delta = sign == 1 and isinstance(d, ast.Name) and d.id == row.id
    else:
        good_delta = sign == 1 and isinstance(d, ast.Call) and isinstance(d.func, ast.Name) and d.func.id == "len" and len(d.args) == 1 \
            and isinstance(d.args[0], ast.Name) and d.args[0].id == row.id
    if not good_delta:
        return "the running offset is not advanced by the number of corners of the element"
    # position of the write relative to the increment
    wi = None
    for i, st in enumerate(lp.body):
        if any(n is leaves[0].node or n is leaves[0].expr for n in ast.walk(st)):
            wi = i
    if wi is None:
        return ("?", "write statement not found at the top of the loop")
    if ii < wi:
        return "the offset is advanced before being written (the index of the next element is written)"
    return None


def geogram_arity_tables(g, names_written, tables):
    ctx, cx, prov, b = g.ctx, g.cx, g.cx.prov, g.cx.b
    rsite = cx.rs()
    for kind in ("faces", "cells"):
        if kind not in tables:
            ctx.undecided("C04-E1", rsite, f"geogram: the way the importer recovers the number of vertices of {kind} is not recognised", "")
    for kind, t in sorted(tables.items()):
        names, default, T = t["names"], t["default"], t["T"]
        own = [n for n in names if kind[:-1] in n.split("::")[-1] or ("facet" in n and kind == "faces")]
        extra = [n for n in names if n not in own]
        if names and own:
            ctx.check(not extra and len(own) <= 1, "C04-E1", rsite,
                      f"geogram: the size table of {kind} is also filled while reading chunk {', '.join(extra or own[1:])}",
                      f"it must hold one entry per {kind[:-1]}, all taken from `{own[0]}`; an entry appended while "
                      f"reading another chunk leaves that chunk's own table one short (IndexError on its last element) and corrupts this one",
                      note=f"geogram: sizes of {kind} come from one chunk")
        wbs = [wb for wb in cx.blocks if wb.kind == kind and wb.fields != 0]
        if not wbs or not names or default is None:
            ctx.undecided("C04-E1", rsite, f"geogram: arity recovery for {kind} not recognised",
                          f"chunk names {names}, default {default}; exporter blocks {len(wbs)}")
            continue
        restricted = all(wb.guard_n == default for wb in wbs)
        hit = [n_ for n_ in (own or names) if n_ in names_written]
        if not hit:
            if attr_header_roles(g) is None or cx.unknown or cx.problems:
                ctx.undecided("C04-E1", cx.ws(wbs[0].rep.node), f"geogram: whether the size chunk of {kind} is written cannot be told", "")
            else:
                ctx.check(restricted, "C04-E1", cx.ws(wbs[0].rep.node),
                          f"geogram: {kind} of any size are written but the `{(own or names)[0]}` chunk giving their sizes is never written",
                          f"without that chunk the importer assumes {default} vertices per {kind[:-1]}: a mesh with other "
                          f"{kind} (quads / polygons, hexahedra / prisms) reloads as {default}-vertex {kind} cut out of the corner list",
                          note=f"geogram: sizes of {kind} recoverable")
            continue
        name = hit[0]
        c = names_written[name]
        reps = [x for x in c.payload if isinstance(x, em.Rep)]
        site = cx.ws(reps[0].node) if reps else chunk_site(g, c)
        sizes_dom = [default, default + 1, default + 2]
        cases = [[x] for x in sizes_dom] + [[x, y] for x in sizes_dom for y in sizes_dom]
        bad_case, unknown = None, False
        for test, pol in c.conds():
            tt = cc.resolve(b, test, at=test if au.parent(test) is not None else cx.wfn.body[-1])
            about = any(isinstance(x, ast.Call) and isinstance(x.func, ast.Name) and x.func.id in ("any", "all", "max", "min", "set")
                        for x in au.walk(tt))
            if not about:
                continue
            for sizes in cases:
                v = _eval_size_condition(tt, prov, kind, sizes)
                if v is None:
                    unknown = True
                    break
                runs = bool(v) == pol
                if any(x != default for x in sizes) and not runs and bad_case is None:
                    bad_case = sizes
        if unknown:
            ctx.undecided("C04-E1", site, f"geogram: condition under which the `{name}` chunk is written not understood", "")
        else:
            ctx.check(bad_case is None, "C04-E1", site,
                      f"geogram: the `{name}` chunk is not written for every mesh whose {kind} do not all have {default} vertices",
                      f"e.g. {kind} of sizes {bad_case}: the chunk is skipped and the importer assumes {default} vertices per "
                      f"{kind[:-1]}", note=f"geogram: `{name}` written whenever some {kind[:-1]} has not {default} vertices")
        if len(reps) != 1:
            ctx.undecided("C04-G1", site, f"geogram: payload of chunk {name} not recognised", "")
            continue
        err = _ptr_payload(reps[0], b, prov, kind)
        if isinstance(err, tuple):
            ctx.undecided("C04-G1", site, f"geogram: payload of chunk {name} not recognised as a running corner offset", err[1])
        else:
            ctx.check(err is None, "C04-G1", site,
                      f"geogram: the payload of chunk {name} is not the index of the first corner of each {kind[:-1]} "
                      f"(0, then advanced by its number of corners after being written)",
                      f"{err}; the importer takes size i = ptr[i+1] - ptr[i] and reads the corners of element i from ptr[i]",
                      note=f"geogram: `{name}` payload is the running corner offset")


# =========================================================================== reader: import_attribute, rows, conversions
def g1_import_attribute(g):
    """import_attribute gives element i the i-th group of `arity` values (a group equal to the default everywhere may be skipped)"""
    ctx, repo = g.ctx, g.repo
    if not repo.has_func(GEO, "import_attribute"):
        ctx.undecided("C04-G1", g.cx.rs(), "geogram: the function storing the values of an attribute chunk is not found", "")
        return
    fn0 = repo.func(GEO, "import_attribute")
    site = ctx.site(GEO, fn0)
    fn = hc_flat.flat(repo, GEO, fn0)
    ps = au.params(fn)
    arity_f = g.role_field.get("arity")
    if len(ps) < 2 or arity_f is None or "data[]" not in g.fields:
        ctx.undecided("C04-G1", site, "geogram: import_attribute(chunk, attribute) / the chunk fields it reads are not recognised", "")
        return
    D = hv.Tok("DEF")
    for n in (1, 2, 3):
        toks = [hv.Tok(f"t{k}") for k in range(4 * n)]
        groups = [toks[n * k:n * (k + 1)] for k in range(4)]
        # group 1 has its first component equal to the default, group 2 its last one, group 3 is entirely default
        if n > 1:
            groups[1][0] = D
            groups[2][-1] = D
        else:
            groups[2][0] = D
        groups[3] = [D] * n
        data = [x for gr in groups for x in gr]
        chk = hv.Obj(**{"data": list(data), arity_f: n})
        rec = hv.Recorder(default_value=D, elemsize=n)
        ev = hv.Evaluator({ps[0]: chk, ps[1]: rec}, symbols={"np", "numpy"})
        try:
            ev.run(fn.body)
        except hv.Unknown as ex:
            ctx.undecided("C04-G1", site, "geogram: import_attribute is written in a way the index evaluation does not follow", str(ex)[:80])
            return
        except hv.Raised as ex:
            ctx.fail("C04-G1", site, f"geogram: import_attribute raises on a well formed chunk of arity {n}", str(ex)[:80])
            continue
        got = {}
        for k, v in rec.stores:
            if isinstance(v, hv.Arr):
                v = v.items
            got[k] = list(v) if isinstance(v, (list, tuple)) else v
        want = {k: (groups[k] if n > 1 else groups[k][0]) for k in range(4)}
        problems = []
        for k in range(4):
            all_default = all(x == D for x in groups[k])
            if k not in got:
                if not all_default:
                    problems.append(f"element {k} (values {groups[k]}) is not stored")
            elif got[k] != want[k]:
                problems.append(f"element {k} receives {got[k]} instead of {want[k]}")
        for k in got:
            if k not in want:
                problems.append(f"a value is stored at index {k!r}")
        ctx.check(not problems, "C04-G1", site,
                  f"geogram: for an attribute of arity {n} import_attribute does not give every element its group of {n} value(s) as read",
                  "; ".join(problems[:3]) + " (DEF = a component equal to the default value; values are written element-major)",
                  note=f"geogram: arity {n}: element i <- values [{n}*i, {n}*(i+1))")


def geogram_rows(g):
    ctx, cx, b = g.ctx, g.cx, g.cx.rb
    for rb in cx.rblocks:
        site = cx.rs(rb.node)
        lp = rb.loop
        i = lp.target.id if lp is not None and isinstance(lp.target, ast.Name) else None
        e = rb.row
        for _ in range(4):
            if isinstance(e, ast.Name):
                e = b.reaching(e.id, rb.node) or e
            if isinstance(e, ast.Call) and au.call_tail(e) in rd.WRAPPERS and len(e.args) == 1:
                e = e.args[0]
        if isinstance(e, (ast.List, ast.Tuple)) and i:
            k = len(e.elts)
            ok = True
            for r_, x in enumerate(e.elts):
                x = cc.resolve(b, x, at=rb.node, keep=(i,))
                if not (isinstance(x, ast.Subscript) and isinstance(x.value, ast.Attribute) and x.value.attr == "data"):
                    ok = None
                    break
                p = sym.to_poly(x.slice)
                ok = ok and p.coeff(i) == sym.Poly.const(k) and p.without(i).is_const() and p.without(i).const_value() == r_
            if ok is None:
                ctx.undecided("C04-G1", site, f"geogram: {rb.kind} row construction not recognised", "")
            else:
                ctx.check(ok, "C04-G1", site, f"geogram: {rb.kind} row is not (data[{k}*i], .., data[{k}*i+{k - 1}])",
                          f"the exporter writes {k} values per element, element after element",
                          note=f"geogram: {rb.kind} row read with stride {k}")
        elif isinstance(e, ast.Subscript) and isinstance(e.slice, ast.Slice) and i and e.slice.lower is not None and e.slice.upper is not None \
                and e.slice.step is None and rb.kind in ("vertices", "edges"):
            base = cc.resolve(b, e.value, at=rb.node)
            k = {"vertices": 3, "edges": 2}[rb.kind]
            if not (isinstance(base, ast.Attribute) and base.attr == "data"):
                ctx.undecided("C04-G1", site, f"geogram: {rb.kind} row construction not recognised", "")
                continue
            lo = sym.to_poly(cc.resolve(b, e.slice.lower, at=rb.node, keep=(i,)))
            hi = sym.to_poly(cc.resolve(b, e.slice.upper, at=rb.node, keep=(i,)))
            it = lp.iter
            step = 1
            if isinstance(it, ast.Call) and au.call_tail(it) == "range" and len(it.args) == 3 and isinstance(au.const(it.args[2]), int) \
                    and au.const(it.args[0]) == 0:
                step = au.const(it.args[2])
            ok = (hi - lo) == sym.Poly.const(k) and lo.without(i).is_zero() and lo.coeff(i) * step == sym.Poly.const(k)
            ctx.check(ok, "C04-G1", site, f"geogram: {rb.kind} row is not the {k} consecutive values data[{k}*i : {k}*i+{k}]",
                      f"the exporter writes {k} values per element, element after element",
                      note=f"geogram: {rb.kind} row read with stride {k}")
        elif isinstance(e, (ast.ListComp, ast.GeneratorExp)) and len(e.generators) == 1 \
                and isinstance(e.generators[0].target, ast.Name):
            j = e.generators[0].target.id
            elt = cc.resolve(b, e.elt, at=rb.node, keep=(j,) + ((i,) if i else ()))
            if not (isinstance(elt, ast.Subscript) and isinstance(elt.value, ast.Attribute) and elt.value.attr == "data"):
                ctx.undecided("C04-V1", site, f"geogram: {rb.kind} row construction not recognised", "")
                continue
            p = sym.to_poly(elt.slice)
            ok = p.coeff(j) == sym.Poly.const(1) and not e.generators[0].ifs and p.degree_in(j) == 1
            ctx.check(ok, "C04-V1", site, f"geogram: corners of a {rb.kind[:-1]} are not read as data[ptr + 0 .. ptr + n-1] in order",
                      "the exporter writes the corners of each element consecutively in stored order",
                      note=f"geogram: {rb.kind} corners read consecutively in order")
        else:
            ctx.undecided("C04-G1", site, f"geogram: {rb.kind} row construction not recognised", "")
    pc = payload_conversions(g.fields)
    csite = ctx.site(GEO, g.cfn)
    for T, rule, okset in (("Int", "C04-B1", {"int"}), ("Float", "C04-L1", rd.FLOAT_OK)):
        st = pc.get(T + ":stmt")
        if st is None:
            ctx.undecided(rule, csite, f"geogram: conversion of the payload of {T} chunks not recognised", "")
            continue
        if not isinstance(st.value, (ast.ListComp, ast.GeneratorExp)):
            if pc.get(T) == "<raw>":
                ctx.fail(rule, ctx.site(GEO, g.cfn, st), f"geogram: the payload of {T} chunks is kept as raw text",
                         f"Chunk.__init__ must turn the tokens of a {T} chunk into numbers")
            else:
                ctx.undecided(rule, csite, f"geogram: conversion of the payload of {T} chunks not recognised", "")
            continue
        cv, off = rd.conv_of(st.value.elt)
        if cv is None:
            ctx.fail(rule, ctx.site(GEO, g.cfn, st), f"geogram: the payload of {T} chunks is kept as raw text",
                     f"Chunk.__init__ must turn the tokens of a {T} chunk into numbers")
            continue
        ctx.check(cv in okset and off == 0, rule, ctx.site(GEO, g.cfn, st),
                  f"geogram: the payload of {T} chunks is parsed with {cv}{'' if off == 0 else ' and shifted'}",
                  "geogram indices are 0-based integers" if T == "Int" else "coordinates must be recovered bit-exactly",
                  note=f"geogram: {T} payload parsed with {cv}")


def eval_chunk_type(test, member, type_field="type"):
    """value of a condition on `<chunk>.type` when the chunk has type `member` (HEAD / ATTS / ATTR); None = not about the type"""
    if isinstance(test, ast.BoolOp):
        vals = [eval_chunk_type(v, member, type_field) for v in test.values]
        return ht._and3(vals) if isinstance(test.op, ast.And) else ht._or3(vals)
    if isinstance(test, ast.UnaryOp) and isinstance(test.op, ast.Not):
        v = eval_chunk_type(test.operand, member, type_field)
        return None if v is None else (not v)
    if isinstance(test, ast.Compare) and len(test.ops) == 1:
        l, r, op = test.left, test.comparators[0], test.ops[0]

        def mem(x):
            return x.attr if isinstance(x, ast.Attribute) and isinstance(x.value, ast.Attribute) and x.value.attr == "Type" \
                and x.attr in ("HEAD", "ATTS", "ATTR") else None
        for a, c in ((l, r), (r, l)):
            if isinstance(a, ast.Attribute) and a.attr == type_field and not mem(a):
                if mem(c) and isinstance(op, (ast.Eq, ast.NotEq, ast.Is, ast.IsNot)):
                    v = mem(c) == member
                    return v if isinstance(op, (ast.Eq, ast.Is)) else (not v)
                if isinstance(c, (ast.Tuple, ast.List, ast.Set)) and c.elts and all(mem(e) for e in c.elts) and a is l \
                        and isinstance(op, (ast.In, ast.NotIn)):
                    v = member in [mem(e) for e in c.elts]
                    return v if isinstance(op, ast.In) else (not v)
    return None


def runs_for_type(node, member):
    vals = []
    for t, pol in au.guards(node):
        v = eval_chunk_type(t, member)
        vals.append(None if v is None else (v == pol))
    return ht._and3(vals or [True])


def reader_misc(g):
    """small tables of the importer: chunk type names, enum values, which chunk types the passes of the importer look at,
    argument order of the attribute import"""
    ctx, cx, repo = g.ctx, g.cx, g.repo
    rsite = cx.rs()
    # chunk type names
    if repo.has_func(GEO, "Chunk.Type.from_string"):
        tf = cc.folder_for(repo, GEO, "Chunk.Type")
        fsite = ctx.site(GEO, repo.func(GEO, "Chunk.Type.from_string"))
        for tag in TAGS:
            try:
                m = tf.call("from_string", tag)
                ctx.check(m is not None and getattr(m, "name", None) == tag[1:-1], "C04-E1", fsite,
                          f"geogram: a chunk starting with {tag} is given the type {m}", "every chunk of that kind is mis-read or ignored",
                          note=f"geogram: {tag} -> Chunk.Type.{tag[1:-1]}")
            except cc.Raised:
                ctx.fail("C04-E1", fsite, f"geogram: Chunk.Type.from_string raises on {tag}", "")
            except cc.Unfoldable:
                ctx.undecided("C04-E1", fsite, "geogram: Chunk.Type.from_string is not a foldable table", "")
                break
    # enum members must have distinct values (equal values make aliases: two containers become one)
    for q in ("Chunk.Type", "Chunk.Container"):
        cls = repo.cls(GEO, q)
        vals = {}
        for nm, m in cc.enum_members(cls).items():
            if m.value is not None:
                vals.setdefault(m.value, []).append(nm)
        dup = [v for v in vals.values() if len(v) > 1]
        ctx.check(not dup, "C04-E1", ctx.site(GEO, q), f"geogram: members {dup[0] if dup else ''} of {q} have the same value",
                  "Enum members with equal values are aliases: the importer cannot tell them apart", note=f"geogram: {q} values distinct")
    # the pass that records the container sizes looks at [ATTS] chunks, the passes that build the mesh at [ATTR] chunks
    n_field = next((f_ for f_, v in g.fields.items() if not f_.endswith("[]") and v[1] == "int"
                    and any("ATTS" in au.src(t) for t, pol in au.guards(v[2]) if pol)), None)
    for st in au.stmts(cx.rfn.body):
        if isinstance(st, ast.Assign) and len(st.targets) == 1 and isinstance(st.targets[0], ast.Subscript) \
                and isinstance(st.value, ast.Attribute) and st.value.attr == n_field and n_field is not None:
            r = runs_for_type(st, "ATTS")
            ctx.check(r is not False, "C04-H1", cx.rs(st), "geogram: the pass recording the container sizes skips the [ATTS] chunks",
                      "every container size stays 0: no element is loaded", note="geogram: container sizes taken from [ATTS] chunks")
    for rb in cx.rblocks:
        r = runs_for_type(rb.node, "ATTR")
        ctx.check(r is not False, "C04-E1", cx.rs(rb.node), f"geogram: the branch storing {rb.kind} does not run for [ATTR] chunks",
                  "connectivity chunks are skipped", note=f"geogram: {rb.kind} built from an [ATTR] chunk")
    # import_attribute(chunk, attribute)
    if repo.has_func(GEO, "import_attribute"):
        rfn0 = hc_flat.flat(repo, GEO, repo.func(GEO, "import_geogram_ascii"), keep=("import_attribute",))
        for c in au.calls(rfn0):
            if au.call_tail(c) == "import_attribute" and len(c.args) == 2 and not c.keywords and all(isinstance(a, ast.Name) for a in c.args):
                b0 = sym.Bindings(rfn0)
                d0, d1 = b0.reaching(c.args[0].id, c), b0.reaching(c.args[1].id, c)
                made0 = isinstance(d0, ast.Call) and au.call_tail(d0) == "create_attribute"
                made1 = isinstance(d1, ast.Call) and au.call_tail(d1) == "create_attribute"
                if made0 and not made1:
                    ctx.fail("C04-G1", ctx.site(GEO, "import_geogram_ascii", c), "geogram: import_attribute is called with (attribute, chunk)",
                             "the values of the chunk are not stored in the attribute")
                elif made1 and not made0:
                    ctx.ok("C04-G1", ctx.site(GEO, "import_geogram_ascii", c), "import_attribute(chunk, attribute)")
    # a user attribute chunk whose container is unknown raises, a known one does not
    for rz in [n for n in au.walk(cx.rfn) if isinstance(n, ast.Raise)]:
        for t, pol in au.conditions(rz, toplevel=True):
            t, pol = au.strip_not(t, pol)
            if isinstance(t, ast.Compare) and len(t.ops) == 1 and isinstance(t.ops[0], (ast.Is, ast.IsNot)) \
                    and isinstance(t.comparators[0], ast.Constant) and t.comparators[0].value is None and isinstance(t.left, ast.Name):
                d = cx.rb.reaching(t.left.id, rz)
                if isinstance(d, ast.Call) and isinstance(d.func, ast.Attribute) and d.func.attr == "get" and isinstance(d.func.value, ast.Dict):
                    ctx.check(isinstance(t.ops[0], ast.Is) == pol, "C04-E1", cx.rs(rz),
                              "geogram: the importer raises when the container of a user attribute IS known",
                              "every user attribute makes the load fail", note="geogram: unknown container raises")


def run_geogram(ctx):
    g = Geo(ctx)
    cx = g.cx
    ht.general(cx)
    reader_misc(g)
    if len(g.special) < 4:
        ctx.undecided("C04-E1", cx.rs(), "geogram: connectivity branches of the importer not recognised", f"{len(g.special)} found")
    if len(g.member_field) < 4:
        ctx.undecided("C04-E1", cx.rs(), "geogram: container -> mesh field table of the importer not recognised", "")
    roles = g1_header_layout(g)
    if roles:
        g1_generic_payload(g, roles)
        geogram_containers(g, roles)
    g1_import_attribute(g)
    tables = arity_tables(g)
    ptr_names = {n_: (kind, t["cont"]) for kind, t in tables.items() for n_ in t["names"]}
    names_written = geogram_chunks(g, ptr_names)
    geogram_counts(g)
    geogram_arity_tables(g, names_written, tables)
    g1_reader_ptr_tables(g, tables)
    g1_attribute_loops(g, names_written)
    geogram_rows(g)
    nb = ht.b1_writer(cx)
    if nb == 0:
        ctx.undecided("C04-B1", cx.ws(), "geogram: no vertex index site recognised in the exporter", "")
    ht.l1_writer(cx)
    ht.v1_writer(cx)
    ht.v1_reader(cx)
    return g
