"""Bounded evaluation of generator functions over the *connectivity* domain (group I: C14 / C19).

The AST of a generator (and of the package helpers it calls) is evaluated by the small evaluator below - the repository is never
imported or run.  The evaluator is exact on the values that decide the connectivity of the generated mesh

    integers, booleans, None, strings, exact rationals (int / int, float literals), tuples / lists / ranges of those,
    N-d arrays of known shape (rules/hi_nd.py: np.linspace(a, b, n), np.array(nested lists), arange, zeros / full(_like), element-wise
    arithmetic with broadcasting, reshape / transpose / stack / concatenate / roll / meshgrid / indices, integer and slice indexing),
    dictionaries with hashable keys, NamedTuple / dataclass records (fields, methods, properties), Enum members, the instance a
    method belongs to (its plain methods are evaluated, its data is opaque),
    the containers of the mesh under construction (vertices / edges / faces / cells and their attributes)

and treats everything else (coordinates, angles, trigonometry, library geometry) as an opaque value.  A test on an opaque value
forks the evaluation; the two branches may only differ in opaque values: a mesh update, a list mutation or a jump that depends on an
opaque test makes the run `Undecidable` (reported by the caller as *undecided*, never as a violation).  For every small admissible
assignment of the integer parameters and every assignment of the boolean switches the evaluation yields the literal index tables
of the generated mesh, which are then checked like a literal table (range, repeated faces, orientation, closedness, Euler
characteristic, counts).  Because statements are evaluated in program order with their real semantics, the result does not depend on
how the generator is written (helpers, comprehensions, counters, zip / enumerate, hoisted sub-expressions, merged or split loops)."""
from __future__ import annotations
import ast, itertools
from collections import Counter
from fractions import Fraction
from .. import au
from . import hi_nd as ND
from .hi_nd import NArr

# keyword arguments understood by the models of the numpy functions (anything else makes the result opaque)
NUMPY_KW = {
    "linspace": {"num", "endpoint", "dtype", "retstep"}, "arange": {"dtype"}, "zeros": {"dtype", "shape", "order"}, "ones": {"dtype", "shape", "order"},
    "empty": {"dtype", "shape", "order"}, "full": {"dtype", "shape", "fill_value", "order"}, "zeros_like": {"dtype"}, "ones_like": {"dtype"},
    "empty_like": {"dtype"}, "full_like": {"dtype", "fill_value"}, "array": {"dtype", "copy"}, "asarray": {"dtype"}, "asanyarray": {"dtype"},
    "ascontiguousarray": {"dtype"}, "stack": {"axis"}, "column_stack": set(), "vstack": set(), "hstack": set(), "row_stack": set(),
    "concatenate": {"axis"}, "transpose": {"axes"}, "reshape": {"order", "newshape", "shape"}, "ravel": {"order"}, "repeat": {"axis"}, "tile": set(),
    "outer": set(), "meshgrid": {"indexing", "sparse"}, "roll": {"axis"}, "flip": {"axis"}, "cumsum": {"axis"}, "append": {"axis"},
    "indices": {"dtype", "sparse"}, "take": {"axis", "mode"}, "mod": set(), "remainder": set(), "add": set(), "subtract": set(), "multiply": set(),
    "floor_divide": set(), "divmod": set(),
}

MAX_STEPS = 400000
MAX_DEPTH = 8
CONTAINERS = ("vertices", "edges", "faces", "cells", "face_corners", "cell_corners", "cell_faces")


class Undecidable(Exception):
    """the evaluator met a construct whose effect on the mesh it cannot follow"""

    def __init__(self, msg, node=None):
        super().__init__(msg)
        self.node = node


class Crash(Exception):
    """evaluable code raises (IndexError, ZeroDivisionError, ...) : the generator itself would fail"""

    def __init__(self, kind, msg, node=None):
        super().__init__(f"{kind}: {msg}")
        self.kind, self.node = kind, node


class Raised(Exception):
    """an explicit `raise` of the analysed code was reached on a decided path (argument validation)"""

    def __init__(self, node):
        super().__init__("raise")
        self.node = node


# ------------------------------------------------------------------------------------------------ values
class Opaque:
    """a value outside the connectivity domain; `deps` = the parameter samples (linspace entries) it was computed from"""
    __slots__ = ("why", "deps")

    def __init__(self, why="", deps=frozenset()):
        self.why = why
        self.deps = deps

    def __repr__(self):
        return "?"


class Sample(Fraction):
    """entry `idx` of a parameter linspace `arr` (an exact rational that remembers where it comes from)"""

    def __new__(cls, value, arr, idx):
        self = super().__new__(cls, value)
        self.arr, self.idx = arr, idx
        return self


def deps_of(v, depth=0):
    if isinstance(v, Sample):
        return frozenset([(id(v.arr), v.idx)])
    if isinstance(v, Opaque):
        return v.deps
    if depth < 3:
        if isinstance(v, (tuple, list)):
            out = frozenset()
            for x in v[:16]:
                out |= deps_of(x, depth + 1)
            return out
        if isinstance(v, VecV):
            return deps_of(v.comps, depth + 1)
        if isinstance(v, NArr):
            return deps_of(v.items[:16], depth + 1)
    return frozenset()


def with_deps(res, *sources):
    """an opaque result of a computation depends on the samples its inputs depend on"""
    if isinstance(res, Opaque) and not isinstance(res, _OpaqueAttr):
        d = res.deps
        for s_ in sources:
            d = d | deps_of(s_)
        if d != res.deps:
            return Opaque(res.why, d)
    return res


UNKNOWN = Opaque("unknown")


def is_opaque(v):
    return isinstance(v, Opaque)


class VecV:
    """Vec(x, y[, z]) of evaluated components"""
    __slots__ = ("comps",)

    def __init__(self, comps):
        self.comps = tuple(comps)

    def numeric(self):
        return all(isinstance(c, (int, Fraction)) and not isinstance(c, bool) for c in self.comps)

    def __repr__(self):
        return "Vec" + repr(self.comps)


class Lin:
    """linear combination of named (vector) atoms with rational weights"""
    __slots__ = ("t",)

    def __init__(self, t=None):
        self.t = {k: Fraction(v) for k, v in (t or {}).items() if v != 0}

    def __repr__(self):
        return " + ".join(f"{v}*{k}" for k, v in sorted(self.t.items())) or "0"

    def key(self):
        return tuple(sorted(self.t.items()))


class Attr:
    def __init__(self, container, name):
        self.container, self.name = container, name
        self.writes = []        # (key, value, size of the container at the time, node)


class Container:
    def __init__(self, mesh, name):
        self.mesh, self.name = mesh, name
        self.data = []
        self.attrs = {}
        self.stores = []        # (key, node) of `container[key] = value`
        self.nodes = []         # statement that appended each element


class Mesh:
    def __init__(self):
        self.c = {k: Container(self, k) for k in CONTAINERS}


class Func:
    def __init__(self, node, modname, closure=None):
        self.node, self.modname, self.closure = node, modname, closure
        self.defaults = None       # parameter -> value, evaluated once when a nested function / lambda is defined


class Mod:
    def __init__(self, name, internal):
        self.name, self.internal = name, internal


class Builtin:
    def __init__(self, name):
        self.name = name
        self.tail = name.split(".")[-1]

    def __repr__(self):
        return f"<{self.name}>"


class RecordClass:
    def __init__(self, name, modname, fields, defaults, is_tuple, methods):
        self.name, self.modname, self.fields, self.defaults, self.is_tuple, self.methods = name, modname, fields, defaults, is_tuple, methods


class Record:
    def __init__(self, cls, values):
        self.cls, self.values = cls, values


class EnumClass:
    """an Enum declared in the package: its members are distinct constants"""
    def __init__(self, name, modname, members, values=None):
        self.name, self.modname = name, modname
        self.members = {m: EnumMember(self, m) for m in members}
        self.values = dict(values or {})     # member name -> expression of its value


class EnumMember:
    def __init__(self, cls, name):
        self.cls, self.name = cls, name

    def __repr__(self):
        return f"{self.cls.name}.{self.name}"


class Bound:
    def __init__(self, obj, name):
        self.obj, self.name = obj, name


class Env:
    def __init__(self, local, closure=None, modname=None):
        self.local, self.closure, self.modname = local, closure, modname
        self.nonlocals = set()
        self.globals_ = set()
        self.interp = None

    def fork(self):
        e = Env(dict(self.local), self.closure, self.modname)
        e.nonlocals = self.nonlocals
        e.globals_ = self.globals_
        e.interp = self.interp
        return e

    def bind(self, name, v):
        if name in self.globals_ and self.interp is not None:
            self.interp._globals[(self.modname, name)] = v
            return
        if name in self.nonlocals:
            e = self.closure
            while e is not None:
                if name in e.local:
                    e.local[name] = v
                    return
                e = e.closure
        self.local[name] = v


NUM = (int, Fraction)
MESH_CTORS = {"RawMeshData"}
MESH_WRAP = {"_instanciate_raw_mesh_data", "SurfaceMesh", "PolyLine", "PointCloud", "VolumeMesh", "Mesh"}
ELEMENTWISE = {"cos", "sin", "tan", "sqrt", "cbrt", "exp", "log", "abs", "absolute", "fabs", "arccos", "arcsin", "arctan", "radians",
               "degrees", "square", "negative", "float64", "float32"}
IGNORED_CALLS = {"print", "warn", "debug", "info", "warning", "error", "log", "seed"}
PY_BUILTINS = {"range", "len", "enumerate", "zip", "min", "max", "abs", "int", "float", "round", "list", "tuple", "sorted", "reversed",
               "sum", "bool", "isinstance", "print", "str", "repr", "any", "all", "divmod", "set", "dict", "map", "iter", "next", "type",
               "Exception", "ValueError", "TypeError", "IndexError", "NotImplementedError", "RuntimeError", "AssertionError", "object",
               "id", "hasattr", "getattr", "callable", "filter", "frozenset", "slice", "pow"}


def _num(v):
    return isinstance(v, NUM) and not isinstance(v, bool)


def _norm_num(x):
    if isinstance(x, Fraction) and x.denominator == 1:
        return x      # keep the "real" type: a float that happens to be integral is still not an index
    return x


class Interp:
    def __init__(self, repo):
        self.repo = repo
        self.steps = 0
        self.forbid = 0
        self.mutations = 0
        self.depth = 0
        self.arrays = []        # NArr created by linspace (read coverage)
        self.meshes = []
        self._globals = {}

    # ------------------------------------------------------------------ entry
    def call(self, fn, modname, args, self_obj=None):
        """evaluate `fn` (FunctionDef of module `modname`) on the keyword arguments `args`; missing parameters take their default"""
        modname = modname if modname.startswith("mouette") else "mouette." + modname
        return self._invoke(Func(fn, modname), [], dict(args), None, self_obj=self_obj)

    # ------------------------------------------------------------------ helpers
    def tick(self, node=None):
        self.steps += 1
        if self.steps > MAX_STEPS:
            raise Undecidable("evaluation budget exhausted", node)

    def _define(self, node, env):
        """a nested function / lambda: its default values are computed now"""
        f = Func(node, env.modname, env)
        a = node.args
        full = [p.arg for p in a.posonlyargs + a.args]
        pairs = list(zip(full[len(full) - len(a.defaults):], a.defaults)) if a.defaults else []
        pairs += [(p.arg, d) for p, d in zip(a.kwonlyargs, a.kw_defaults) if d is not None]
        f.defaults = {}
        for name, d in pairs:
            try:
                f.defaults[name] = self.ev(d, env)
            except (Undecidable, Crash):
                f.defaults[name] = Opaque(name)
        return f

    def _mesh_state(self):
        """a fingerprint of the tracked meshes (sizes of their containers and attribute writes)"""
        out = []
        for m in self.meshes:
            for k, c in m.c.items():
                out.append((id(c), len(c.data), sum(len(a.writes) for a in c.attrs.values()), len(c.attrs)))
        return out

    def mutate(self, node=None):
        if self.forbid:
            raise Undecidable("a mesh / list update depends on a test the analysis cannot evaluate", node)
        self.mutations += 1

    # ------------------------------------------------------------------ names
    def lookup(self, name, env, node=None):
        e = env
        if name in env.globals_:
            return self.global_name(name, env.modname, node)
        while e is not None:
            if name in e.local:
                return e.local[name]
            e = e.closure
        return self.global_name(name, env.modname, node)

    def global_name(self, name, modname, node=None):
        key = (modname, name)
        if key in self._globals:
            return self._globals[key]
        v = self._resolve_global(name, modname)
        self._globals[key] = v
        return v

    def _resolve_global(self, name, modname):
        stubs = self.__dict__.get("stubs") or {}
        if name in stubs:
            # an abstraction supplied by the rule: a package function replaced by a model of its result (e.g. "a 3D point depending on t")
            return Func(stubs[name], modname)
        r = self.repo.resolve(modname, name) if modname in self.repo.modules else None
        if r is not None:
            kind, src, oname = r
            if (oname or name) in MESH_WRAP | MESH_CTORS or name in MESH_WRAP | MESH_CTORS:
                return Builtin(oname or name)
            if kind == "def":
                m = self.repo.modules[src]
                fn = m.funcs.get(oname)
                if fn is not None:
                    return Func(fn, src)
            if kind == "class":
                rc = self._record_class(src, oname) or self._enum_class(src, oname)
                return rc if rc is not None else Builtin(oname)
            if kind == "module":
                return Mod(src, src in self.repo.modules)
            if kind == "external":
                if oname is None:
                    return Mod(src, False)
                return self._external(src, oname)
            if kind == "var":
                m = self.repo.modules[src]
                for st in m.tree.body:
                    if isinstance(st, (ast.Assign, ast.AnnAssign)):
                        tg = st.targets if isinstance(st, ast.Assign) else [st.target]
                        if any(isinstance(t, ast.Name) and t.id == oname for t in tg) and st.value is not None:
                            self.depth += 1
                            try:
                                if self.depth > MAX_DEPTH:
                                    return Opaque(name)
                                self.forbid += 1
                                try:
                                    return self.ev(st.value, Env({}, None, src))
                                except (Undecidable, Crash, Raised):
                                    return Opaque(name)
                                finally:
                                    self.forbid -= 1
                            finally:
                                self.depth -= 1
                return Opaque(name)
        if name in PY_BUILTINS:
            return Builtin(name)
        if name in ("True", "False", "None"):
            return {"True": True, "False": False, "None": None}[name]
        return Opaque(name)

    def _record_class(self, modname, cname):
        """a NamedTuple / dataclass declared in the package: a plain record whose fields are its annotated names"""
        m = self.repo.modules.get(modname)
        cls = m.classes.get(cname) if m is not None else None
        if cls is None:
            return None
        is_nt = any(au.src(b).split(".")[-1] == "NamedTuple" for b in cls.bases)
        is_dc = any((au.chain(d.func if isinstance(d, ast.Call) else d) or [""])[-1] == "dataclass" for d in cls.decorator_list)
        if not (is_nt or is_dc):
            return None
        fields, defaults = [], {}
        for st in cls.body:
            if isinstance(st, ast.AnnAssign) and isinstance(st.target, ast.Name):
                fields.append(st.target.id)
                if st.value is not None:
                    defaults[st.target.id] = st.value
        methods = {st.name: st for st in cls.body if isinstance(st, ast.FunctionDef)}
        return RecordClass(cname, modname, fields, defaults, is_nt, methods)

    def _enum_class(self, modname, cname):
        cache = self.__dict__.setdefault("_enums", {})
        if (modname, cname) in cache:
            return cache[(modname, cname)]
        m = self.repo.modules.get(modname)
        cls = m.classes.get(cname) if m is not None else None
        out = None
        if cls is not None and any(au.src(b).split(".")[-1] in ("Enum", "IntEnum", "StrEnum", "Flag", "IntFlag") for b in cls.bases):
            members = [t.id for st in cls.body if isinstance(st, ast.Assign) for t in st.targets if isinstance(t, ast.Name) and not t.id.startswith("_")]
            members += [st.target.id for st in cls.body if isinstance(st, ast.AnnAssign) and isinstance(st.target, ast.Name) and st.value is not None]
            values = {t.id: st.value for st in cls.body if isinstance(st, ast.Assign) for t in st.targets if isinstance(t, ast.Name)}
            if members and not any(isinstance(st, ast.FunctionDef) for st in cls.body):
                out = EnumClass(cname, modname, members, values)
        cache[(modname, cname)] = out
        return out

    def _external(self, src, oname):
        if oname == "pi":
            return Opaque("pi")
        return Builtin(src + "." + oname)

    # ------------------------------------------------------------------ calls
    def _invoke(self, f, pos, kw, node, self_obj=None):
        fn = f.node
        self.depth += 1
        if self.depth > MAX_DEPTH:
            self.depth -= 1
            raise Undecidable("call depth", node)
        try:
            a = fn.args
            names = [p.arg for p in a.posonlyargs + a.args]
            local = {}
            pos = list(pos)
            if self_obj is not None and names and names[0] in ("self", "cls"):
                local[names[0]] = self_obj
                names = names[1:]
            if len(pos) > len(names) and not a.vararg:
                raise Undecidable(f"too many positional arguments for {fn.name}", node)
            for n, v in zip(names, pos):
                local[n] = v
            if a.vararg:
                local[a.vararg.arg] = tuple(pos[len(names):])
            kwonly = [p.arg for p in a.kwonlyargs]
            extra = {}
            for k, v in kw.items():
                if k in names or k in kwonly:
                    local[k] = v
                else:
                    extra[k] = v
            if a.kwarg:
                local[a.kwarg.arg] = Opaque("kwargs")
            elif extra:
                raise Undecidable(f"unexpected keyword argument(s) {sorted(extra)} for {fn.name}", node)
            denv = Env({}, f.closure, f.modname)
            # positional defaults are aligned with the *full* positional list (self included)
            full = [p.arg for p in a.posonlyargs + a.args]
            defaults = dict(zip(full[len(full) - len(a.defaults):], a.defaults)) if a.defaults else {}
            for p, d in zip(a.kwonlyargs, a.kw_defaults):
                if d is not None:
                    defaults[p.arg] = d
            for n in names + kwonly:
                if n not in local:
                    if f.defaults is not None and n in f.defaults:
                        local[n] = f.defaults[n]        # evaluated at definition time (python semantics: shared between the calls)
                    elif n in defaults:
                        try:
                            local[n] = self.ev(defaults[n], denv)
                        except (Undecidable, Crash):
                            local[n] = Opaque(n)
                    else:
                        local[n] = Opaque(n)
            env = Env(local, f.closure, f.modname)
            if isinstance(fn, ast.Lambda):
                return self.ev(fn.body, env)
            is_gen = any(isinstance(n, (ast.Yield, ast.YieldFrom)) for n in au.walk(fn))
            if is_gen:
                env.local["__yield__"] = []
                env.local["__yield_level__"] = self.forbid
                before_ = (self._mesh_state(), self.mutations)
            sig = self.block(fn.body, env)
            if is_gen:
                if (self._mesh_state(), self.mutations) != before_:
                    # generators are evaluated eagerly: one that updates a mesh / a list while it is consumed cannot be ordered faithfully
                    raise Undecidable("a generator has side effects while it is being consumed (evaluated eagerly here)", node)
                return list(env.local["__yield__"])
            if isinstance(sig, tuple) and sig[0] == "return":
                return sig[1]
            return None
        finally:
            self.depth -= 1

    def call_value(self, f, pos, kw, node, env):
        res = self._call_value(f, pos, kw, node, env)
        if isinstance(res, Opaque):
            recv = f.obj if isinstance(f, Bound) else (f.base if isinstance(f, _OpaqueAttr) else None)
            return with_deps(res, pos, list(kw.values()), recv)
        return res

    def _call_value(self, f, pos, kw, node, env):
        """call of an evaluated callee"""
        if isinstance(f, Func):
            before = self.mutations
            try:
                return self._invoke(f, pos, kw, node)
            except Undecidable:
                if self.mutations == before and not self._has_tracked(pos, kw):
                    return Opaque("call")
                raise
        if isinstance(f, Bound):
            return self.call_method(f.obj, f.name, pos, kw, node, env)
        if isinstance(f, RecordClass):
            vals = dict(zip(f.fields, pos))
            vals.update({k: v for k, v in kw.items() if k in f.fields})
            for k in f.fields:
                if k not in vals:
                    if k not in f.defaults:
                        raise Undecidable(f"record {f.name} built without `{k}`", node)
                    vals[k] = self.ev(f.defaults[k], Env({}, None, f.modname))
            return Record(f, vals)
        if isinstance(f, Builtin):
            return self.call_builtin(f, pos, kw, node, env)
        if isinstance(f, _RecordMethod):
            if isinstance(f.rec, SelfObj):
                if self._has_tracked(pos, kw):
                    return self._invoke(Func(f.fn, f.rec.modname), pos, kw, node, self_obj=f.rec)
                try:        # a method that is not handed the mesh: its value matters only if it can be computed
                    return self._invoke(Func(f.fn, f.rec.modname), pos, kw, node, self_obj=f.rec)
                except Undecidable:
                    return Opaque("call")
            return self._invoke(Func(f.fn, f.rec.cls.modname), pos, kw, node, self_obj=f.rec)
        if is_opaque(f):
            if isinstance(f, _OpaqueAttr) and f.attr in IGNORED_CALLS:
                return None
            if self._has_tracked(pos, kw):
                raise Undecidable("a mesh under construction is passed to an unknown function", node)
            return Opaque("call")
        raise Undecidable(f"call of a {type(f).__name__} value", node)

    def _has_tracked(self, pos, kw):
        def tracked(v, d=0):
            if isinstance(v, (Mesh, Container, Attr)):
                return True
            if isinstance(v, (list, tuple)) and d < 2:
                return any(tracked(x, d + 1) for x in v)
            return False
        return any(tracked(v) for v in list(pos) + list(kw.values()))

    # ------------------------------------------------------------------ builtins
    def call_builtin(self, f, pos, kw, node, env):
        t = f.tail
        n = len(pos)
        if t in MESH_CTORS:
            if n == 0 or pos[0] is None:
                m = Mesh()
                self.meshes.append(m)
                return m
            if isinstance(pos[0], Mesh):
                return pos[0]
            raise Undecidable("mesh built from existing data", node)
        if t in MESH_WRAP:
            if n >= 1 and isinstance(pos[0], Mesh):
                return pos[0]
            if n == 0:
                m = Mesh()
                self.meshes.append(m)
                return m
            return Opaque("mesh")
        if t in IGNORED_CALLS:
            return None
        if f.name.startswith("operator.") and t in ("add", "sub", "mul", "truediv", "floordiv", "mod", "neg") and n in (1, 2):
            if t == "neg" and n == 1:
                return self.binop(ast.Sub(), 0, pos[0], node)
            ops_ = {"add": ast.Add(), "sub": ast.Sub(), "mul": ast.Mult(), "truediv": ast.Div(), "floordiv": ast.FloorDiv(), "mod": ast.Mod()}
            if n == 2 and t in ops_:
                return self.binop(ops_[t], pos[0], pos[1], node)
        if t == "reduce" and f.name.startswith("functools") and 2 <= n <= 3:
            seq = self.iterate(pos[1], node)
            if seq is None:
                return Opaque(t)
            seq = list(seq)
            if n == 3:
                acc = pos[2]
            elif seq:
                acc = seq.pop(0)
            else:
                raise Crash("TypeError", "reduce() of empty iterable with no initial value", node)
            for x in seq:
                acc = self.call_value(pos[0], [acc, x], {}, node, env)
            return acc
        if t == "range":
            if all(isinstance(x, int) and not isinstance(x, bool) for x in pos) and 1 <= n <= 3:
                if n == 3 and pos[2] == 0:
                    raise Crash("ValueError", "range() step is zero", node)
                return range(*pos)
            if any(isinstance(x, Fraction) for x in pos):
                raise Crash("TypeError", "range() of a non-integer", node)
            return Opaque("range")
        if t == "len" and n == 1:
            v = pos[0]
            if isinstance(v, (list, tuple, range, str, dict, set)):
                return len(v)
            if isinstance(v, NArr):
                return len(v)
            if isinstance(v, Container):
                return len(v.data)
            return Opaque("len")
        if t == "enumerate" and n >= 1:
            it = self.iterate(pos[0], node)
            if it is None:
                return Opaque("enumerate")
            start = pos[1] if n > 1 else kw.get("start", 0)
            return [(start + i, x) for i, x in enumerate(it)]
        if t == "zip":
            its = [self.iterate(x, node) for x in pos]
            if any(i is None for i in its):
                return Opaque("zip")
            if kw.get("strict") is True and len({len(i) for i in its}) > 1:
                raise Crash("ValueError", "zip() arguments of different lengths", node)
            return [tuple(x) for x in zip(*its)]
        if t == "dict" and f.name in ("dict", "builtins.dict"):
            if n == 0:
                return {k: v for k, v in kw.items()}
            if n == 1 and isinstance(pos[0], dict):
                out = dict(pos[0])
                out.update(kw)
                return out
            pairs = self.iterate(pos[0], node) if n == 1 else None
            if pairs is not None and all(isinstance(p_, (tuple, list)) and len(p_) == 2 and _hashable(p_[0]) and not is_opaque(p_[0]) for p_ in pairs):
                out = {p_[0]: p_[1] for p_ in pairs}
                out.update(kw)
                return out
            return Opaque("dict")
        if t in ("set", "frozenset") and f.name in ("set", "frozenset", "builtins.set", "builtins.frozenset"):
            # a python set of decided hashable values (its iteration order is not modelled: see `iterate`)
            if n == 0:
                return set()
            src_ = sorted(pos[0], key=repr) if isinstance(pos[0], set) else self.iterate(pos[0], node)
            if src_ is None or any(is_opaque(x) or not _hashable(x) for x in src_):
                return Opaque(t)
            return set(src_)
        if t in ("sorted", "len", "min", "max", "sum", "list", "tuple") and n >= 1 and isinstance(pos[0], set) and len(pos[0]) > 1:
            elems = list(pos[0])
            plain_ = lambda x: _num(x) or isinstance(x, str) or (isinstance(x, tuple) and all(plain_(y) for y in x))
            if t == "len":
                return len(elems)
            if t in ("list", "tuple") or not all(plain_(x) for x in elems):
                raise Undecidable("the iteration order of a set is not modelled", node)
            try:
                pos = [sorted(elems)] + list(pos[1:])
            except TypeError:
                raise Undecidable("the iteration order of a set is not modelled", node)
        if t in ("list", "tuple", "sorted", "reversed", "set", "frozenset", "iter"):
            if n == 0:
                return [] if t in ("list", "sorted") else ()
            it = self.iterate(pos[0], node)
            if it is None:
                return Opaque(t)
            if t == "list" or t == "iter":
                return list(it)
            if t == "tuple":
                return tuple(it)
            if t == "reversed":
                return list(it)[::-1]
            if t in ("set", "frozenset"):
                try:
                    return sorted(set(it)) if all(_num(x) for x in it) else Opaque("set")
                except TypeError:
                    return Opaque("set")
            plain = lambda x: _num(x) or isinstance(x, str) or (isinstance(x, tuple) and all(plain(y) for y in x))
            try:
                if "key" in kw and kw["key"] is not None:
                    keys = [self.call_value(kw["key"], [x], {}, node, env) for x in it]
                    if all(plain(k_) for k_ in keys):
                        order_ = sorted(range(len(it)), key=lambda i_: keys[i_], reverse=bool(kw.get("reverse", False)))
                        return [it[i_] for i_ in order_]
                    return Opaque("sorted")
                if all(_num(x) for x in it) or all(isinstance(x, tuple) and all(_num(y) for y in x) for x in it):
                    return sorted(it, reverse=bool(kw.get("reverse", False)))
            except TypeError:
                pass
            return Opaque("sorted")
        if t in ("min", "max") and n >= 1:
            vals = list(pos)
            if n == 1:
                it = self.iterate(pos[0], node)
                if it is None:
                    return Opaque(t)
                vals = list(it)
            if vals and all(_num(x) for x in vals) and not kw:
                return (min if t == "min" else max)(vals)
            return Opaque(t)
        if t in ("minimum", "maximum") and n == 2 and all(_num(x) for x in pos):
            return (min if t == "minimum" else max)(pos)
        if t in ("abs", "fabs", "absolute") and n == 1 and _num(pos[0]):
            return abs(pos[0])
        if t == "int" and n == 1:
            if _num(pos[0]):
                return int(pos[0])
            if isinstance(pos[0], bool):
                return int(pos[0])
            return Opaque("int")
        if t == "float" and n == 1:
            if _num(pos[0]):
                return Fraction(pos[0])
            return Opaque("float")
        if t == "bool" and n == 1:
            tv = self.truth(pos[0])
            return Opaque("bool") if tv is None else tv
        if t == "round" and n >= 1 and _num(pos[0]) and n == 1:
            return int(round(pos[0]))
        if t == "sum" and n >= 1:
            it = self.iterate(pos[0], node)
            if set(kw) - {"start"} or (n > 1 and not _num(pos[1])) or ("start" in kw and not _num(kw["start"])):
                return Opaque("sum")
            if it is not None and all(_num(x) for x in it):
                tot = pos[1] if n > 1 else kw.get("start", 0)
                for x in it:
                    tot = tot + x
                return tot
            return Opaque("sum")
        if t in ("any", "all") and n == 1:
            it = self.iterate(pos[0], node)
            if it is None:
                return Opaque(t)
            tv = [self.truth(x) for x in it]
            if t == "any":
                if any(x is True for x in tv):
                    return True
                return False if all(x is False for x in tv) else Opaque(t)
            if any(x is False for x in tv):
                return False
            return True if all(x is True for x in tv) else Opaque(t)
        if t == "divmod" and n == 2 and all(isinstance(x, int) for x in pos):
            if pos[1] == 0:
                raise Crash("ZeroDivisionError", "divmod by zero", node)
            return divmod(*pos)
        if t == "isinstance":
            return Opaque("isinstance")
        if t == "map" and n == 2:
            it = self.iterate(pos[1], node)
            if it is None:
                return Opaque("map")
            return [self.call_value(pos[0], [x], {}, node, env) for x in it]
        # ---- numpy constructors of known length
        if t in NUMPY_KW and not f.name.startswith("itertools"):
            # a keyword the model of the function does not know (order=, out=, mode=, ndmin=, sparse= ...) changes what it computes
            extra = set(kw) - NUMPY_KW[t]
            if extra or (kw.get("order") not in (None, "C", "K", "A")) or kw.get("sparse") or kw.get("retstep") or kw.get("out") is not None:
                return Opaque(t)
        if t == "linspace" and n >= 2:
            num = pos[2] if n >= 3 else kw.get("num", 50)
            if isinstance(num, int) and not isinstance(num, bool):
                if num < 0:
                    raise Crash("ValueError", f"linspace with {num} samples", node)
                a, b = pos[0], pos[1]
                endpoint = kw.get("endpoint", True)
                if _num(a) and _num(b) and isinstance(endpoint, bool):
                    div = (num - 1) if endpoint else num
                    vals = [Fraction(a) + (Fraction(b) - Fraction(a)) * Fraction(i, div) if div > 0 else Fraction(a) for i in range(num)]
                else:
                    vals = [None] * num
                arr = NArr([None] * num, label=au.src(node) if node is not None else "linspace").track()
                arr.items = [Sample(x, arr, i) if x is not None else Opaque("sample", frozenset([(id(arr), i)])) for i, x in enumerate(vals)]
                arr.node = node
                self.arrays.append(arr)
                return arr
            if isinstance(num, Fraction):
                raise Crash("TypeError", "linspace with a non-integer number of samples", node)
            return Opaque("linspace")
        if t == "arange" and 1 <= n <= 3 and all(isinstance(x, int) and not isinstance(x, bool) for x in pos):
            if n == 3 and pos[2] == 0:
                raise Crash("ZeroDivisionError", "arange step is zero", node)
            return NArr(list(range(*pos)), label="arange")
        if t in ("zeros", "ones", "empty", "full", "zeros_like", "ones_like", "empty_like", "full_like") and n >= 1:
            like = t.endswith("_like")
            if like and not isinstance(pos[0], NArr):
                a_like = self._as_arr(pos[0])
                if a_like is None:
                    return Opaque(t)
                pos = [a_like] + list(pos[1:])
            shp = pos[0].shape if like else pos[0]
            if isinstance(shp, int) and not isinstance(shp, bool):
                shp = (shp,)
            if isinstance(shp, (tuple, list)) and all(isinstance(d, int) and not isinstance(d, bool) and d >= 0 for d in shp):
                dt = kw.get("dtype")
                is_int = isinstance(dt, Builtin) and dt.tail in ("int", "int64", "int32", "intp", "uint32", "uint64")
                if like and dt is None and pos[0].items and all(isinstance(x, int) and not isinstance(x, bool) for x in pos[0].items):
                    is_int = True       # the dtype of the model array is kept
                is_bool = isinstance(dt, Builtin) and dt.tail in ("bool", "bool_")
                if t.startswith("zeros"):
                    fill = False if is_bool else (0 if is_int else Fraction(0))
                elif t.startswith("ones"):
                    fill = True if is_bool else (1 if is_int else Fraction(1))
                elif t in ("full", "full_like") and n > 1:
                    fill = pos[1]
                elif t in ("full", "full_like") and "fill_value" in kw:
                    fill = kw["fill_value"]
                else:
                    fill = None
                size = 1
                for d in shp:
                    size *= d
                return NArr([fill if fill is not None else Opaque(t) for _ in range(size)], tuple(shp), label=t)
            return Opaque(t)
        if t in ("array", "asarray", "asanyarray", "ascontiguousarray", "copy", "deepcopy") and n >= 1:
            v = pos[0]
            if isinstance(v, NArr):
                return v if t.startswith("as") else v.copy()
            if isinstance(v, (list, tuple, range)):
                a = ND.from_nested(_devec(v))
                return a if a is not None else Opaque(t)
            if t in ("copy", "deepcopy"):
                if isinstance(v, (Mesh, Container, Attr)):
                    raise Undecidable("copy of a mesh under construction", node)
                return v
            return Opaque(t)
        if t in ("column_stack", "stack", "vstack", "hstack", "concatenate", "transpose", "row_stack") and n >= 1:
            return self._stack(t, pos, kw, node)
        if t in ("product", "chain", "pairwise", "repeat", "accumulate", "islice", "zip_longest", "starmap") and f.name.startswith("itertools"):
            return self._itertools(t, pos, kw, node, env)
        if t in ("repeat", "tile", "outer", "meshgrid", "roll", "cumsum", "reshape", "ravel", "mod", "remainder", "add", "subtract", "multiply",
                 "floor_divide", "flip", "append", "divmod", "indices", "take", "swapaxes", "moveaxis", "squeeze", "expand_dims", "atleast_2d",
                 "minimum", "maximum", "clip", "negative", "tri", "nonzero", "flatnonzero", "where", "argwhere") and not f.name.startswith("itertools"):
            r = self._numpy_fn(t, pos, kw, node)
            if r is not NotImplemented:
                return r
        if t == "pad" and n >= 1 and isinstance(pos[0], NArr):
            return Opaque("pad")
        if t in ELEMENTWISE and n == 1:
            v = pos[0]
            if isinstance(v, NArr):
                v.mark_all()
                return NArr([Opaque(t, deps_of(x)) for x in v.items], v.shape, label=t)
            return Opaque(t)
        if t == "Vec":
            if n == 1 and not kw:
                v = pos[0]
                if isinstance(v, (VecV, Lin)):
                    return v
                if isinstance(v, (list, tuple)) and 2 <= len(v) <= 3:
                    return VecV(v)
                if isinstance(v, NArr) and v.ndim == 1 and 2 <= len(v) <= 3:
                    return VecV(v.rows())
                return Opaque("Vec")
            if 2 <= n <= 3:
                return VecV(pos)
            return Opaque("Vec")
        if self._has_tracked(pos, kw):
            raise Undecidable(f"a mesh under construction is passed to `{f.name}`", node)
        return Opaque(f.name)

    def _as_arr(self, x):
        if isinstance(x, NArr):
            return x
        if isinstance(x, (list, tuple, range)):
            return ND.from_nested(_devec(x))
        return None

    def _stack(self, t, pos, kw, node):
        """stacking of arrays of known shape (vectorised construction of faces / edges)"""
        if t == "transpose":
            v = self._as_arr(pos[0])
            axes = pos[1] if len(pos) == 2 else kw.get("axes")
            if v is not None and axes is not None and isinstance(axes, (tuple, list)) and all(isinstance(a, int) and not isinstance(a, bool) for a in axes):
                r = ND.permute(v, list(axes))
                return r if r is not None else Opaque(t)
            return ND.transpose(v) if v is not None and len(pos) == 1 and not kw else Opaque(t)
        seqs = self.iterate(pos[0], node)
        if seqs is None:
            return Opaque(t)
        arrs = [self._as_arr(x) for x in seqs]
        if any(a is None for a in arrs) or not arrs:
            return Opaque(t)
        axis = kw.get("axis", pos[1] if len(pos) > 1 else 0)
        if not isinstance(axis, int) or isinstance(axis, bool):
            return Opaque(t)
        out = None
        if t == "stack":
            out = ND.stack(arrs, axis)
        elif t == "column_stack":
            out = ND.concatenate([ND.as_2d_columns(a) for a in arrs], 1)
        elif t in ("vstack", "row_stack"):
            out = ND.concatenate([NArr(list(a.items), (1,) + a.shape) if a.ndim == 1 else a for a in arrs], 0)
        elif t == "hstack":
            out = ND.concatenate(arrs, 0 if arrs[0].ndim == 1 else 1)
        elif t == "concatenate":
            out = ND.concatenate(arrs, axis)
        return out if out is not None else Opaque(t)

    def _numpy_fn(self, t, pos, kw, node):
        """structure-preserving numpy functions on arrays of known shape; NotImplemented when not modelled"""
        n = len(pos)
        a0 = self._as_arr(pos[0]) if n else None
        if t in ("mod", "remainder", "add", "subtract", "multiply", "floor_divide") and n == 2:
            op = {"mod": ast.Mod(), "remainder": ast.Mod(), "add": ast.Add(), "subtract": ast.Sub(), "multiply": ast.Mult(),
                  "floor_divide": ast.FloorDiv()}[t]
            return self.binop(op, pos[0], pos[1], node)
        if t == "divmod" and n == 2:
            return (self.binop(ast.FloorDiv(), pos[0], pos[1], node), self.binop(ast.Mod(), pos[0], pos[1], node))
        if t == "reshape" and n >= 2 and a0 is not None:
            shp = pos[1] if isinstance(pos[1], (tuple, list)) else tuple(pos[1:])
            return self._reshape(a0, shp, node)
        if t == "ravel" and a0 is not None:
            return self._reshape(a0, (-1,), node)
        if t == "repeat" and n >= 2 and a0 is not None and isinstance(pos[1], int) and not isinstance(pos[1], bool):
            axis = kw.get("axis", pos[2] if n > 2 else None)
            if axis is None:
                a0.mark_all()
                return NArr([x for x in a0.items for _ in range(pos[1])], label="repeat")
            if axis == 0 and a0.ndim >= 1:
                rows_ = a0.rows()
                step = a0.size // a0.shape[0] if a0.shape[0] else 0
                items = []
                for r in rows_:
                    chunk = list(r.items) if isinstance(r, NArr) else [r]
                    items += chunk * pos[1]
                return NArr(items, (a0.shape[0] * pos[1],) + a0.shape[1:], label="repeat")
            return Opaque(t)
        if t == "tile" and n == 2 and a0 is not None and isinstance(pos[1], int) and not isinstance(pos[1], bool) and a0.ndim == 1:
            a0.mark_all()
            return NArr(list(a0.items) * pos[1], label="tile")
        if t == "outer" and n == 2 and a0 is not None:
            b0 = NArr(list(pos[1].comps)) if isinstance(pos[1], VecV) else self._as_arr(pos[1])
            if b0 is None and is_opaque(pos[1]) and a0.ndim == 1:
                # one row per entry of the first argument; the rows (multiples of an opaque vector) are opaque themselves
                out = NArr([Opaque("outer", deps_of(x)) for x in a0.items], label="outer")
                out.ragged = True
                return out
            if b0 is not None:
                a1, b1 = self._reshape(a0, (-1, 1), node), self._reshape(b0, (1, -1), node)
                return self.binop(ast.Mult(), a1, b1, node)
        if t == "meshgrid" and n >= 2:
            arrs = [self._as_arr(x) for x in pos]
            idx_kind = kw.get("indexing", "xy")
            if all(a is not None and a.ndim == 1 for a in arrs) and idx_kind in ("xy", "ij") and not kw.get("sparse", False):
                dims = [len(a) for a in arrs]
                ij = idx_kind == "ij"
                shape = tuple(dims) if ij else tuple([dims[1], dims[0]] + dims[2:])
                outs = []
                for k, a in enumerate(arrs):
                    a.mark_all()
                    axis = k if ij else (1 if k == 0 else 0 if k == 1 else k)
                    items = [a.items[idx[axis]] for idx in itertools.product(*[range(d) for d in shape])]
                    outs.append(NArr(items, shape, label="meshgrid"))
                return outs
        if t == "tri" and 1 <= n <= 3 and all(isinstance(x, int) and not isinstance(x, bool) for x in pos) and set(kw) <= {"M", "k", "dtype"}:
            # np.tri(N, M, k): ones at and below the k-th diagonal
            rows_, cols_ = pos[0], (pos[1] if n > 1 else kw.get("M", pos[0]))
            cols_ = rows_ if cols_ is None else cols_
            k_ = pos[2] if n > 2 else kw.get("k", 0)
            dt = kw.get("dtype")
            as_bool = isinstance(dt, Builtin) and dt.tail in ("bool", "bool_")
            if isinstance(cols_, int) and isinstance(k_, int) and rows_ >= 0 and cols_ >= 0:
                one, zero = (True, False) if as_bool else ((1, 0) if isinstance(dt, Builtin) and dt.tail.startswith(("int", "uint")) else (Fraction(1), Fraction(0)))
                return NArr([one if j <= i + k_ else zero for i in range(rows_) for j in range(cols_)], (rows_, cols_), label="tri")
            return Opaque(t)
        if t in ("nonzero", "flatnonzero", "argwhere") or (t == "where" and n == 1):
            if a0 is None or kw or n != 1 or not all(isinstance(x, bool) or _num(x) for x in a0.items):
                return Opaque(t)
            a0.mark_all()
            hits = [idx for idx, x in zip(itertools.product(*[range(d) for d in a0.shape]), a0.items) if x]
            if t == "flatnonzero":
                st_ = a0.strides()
                return NArr([sum(i * s_ for i, s_ in zip(idx, st_)) for idx in hits], label=t)
            if t == "argwhere":
                return NArr([i for idx in hits for i in idx], (len(hits), a0.ndim), label=t)
            return tuple(NArr([idx[ax] for idx in hits], label=t) for ax in range(a0.ndim))      # one index array per axis, row-major order
        if t == "where":
            return Opaque(t)
        if t == "take" and n >= 2 and a0 is not None:
            # np.take(a, idx, axis=k)  ==  a[:, ..., idx]  (flattened array when no axis is given)
            axis = kw.get("axis", pos[2] if n > 2 else None)
            idx = pos[1]
            if isinstance(idx, (list, tuple, range)):
                idx = self._as_arr(idx)
            mode = kw.get("mode", "raise")
            if mode != "raise":
                # out-of-range indices wrap around / are clipped instead of raising
                size = a0.size if axis is None else (a0.shape[axis % a0.ndim] if isinstance(axis, int) and not isinstance(axis, bool) and -a0.ndim <= axis < a0.ndim else None)
                fix = (lambda v: v % size) if mode == "wrap" else ((lambda v: min(max(v, 0), size - 1)) if mode == "clip" else None)
                if fix is None or not size:
                    return Opaque(t)
                if isinstance(idx, NArr) and all(isinstance(x, int) and not isinstance(x, bool) for x in idx.items):
                    idx = NArr([fix(x) for x in idx.items], idx.shape, label=idx.label)
                elif isinstance(idx, int) and not isinstance(idx, bool):
                    idx = fix(idx)
                else:
                    return Opaque(t)
            if axis is None:
                src, key = self._reshape(a0, (-1,), node), idx
            elif isinstance(axis, int) and not isinstance(axis, bool) and -a0.ndim <= axis < a0.ndim:
                src, key = a0, (slice(None),) * (axis % a0.ndim) + (idx,)
            else:
                return Opaque(t)
            if isinstance(src, NArr):
                return self.subscript(src, key, node)
            return Opaque(t)
        if t == "roll" and n >= 2 and a0 is not None and isinstance(pos[1], int) and not isinstance(pos[1], bool):
            axis = kw.get("axis", pos[2] if n > 2 else None)
            if axis is None or (isinstance(axis, int) and not isinstance(axis, bool)):
                r = ND.roll(a0, pos[1], axis)
                if r is not None:
                    return r
        if t == "indices" and n >= 1 and isinstance(pos[0], (tuple, list)) and all(isinstance(d, int) and not isinstance(d, bool) and d >= 0 for d in pos[0]):
            return ND.indices(pos[0])
        if t == "flip" and a0 is not None and a0.ndim == 1 and kw.get("axis", 0) in (0, -1, None):
            a0.mark_all()
            return NArr(a0.items[::-1], label="flip")
        if t == "flip" and a0 is not None and isinstance(kw.get("axis", pos[1] if n > 1 else None), int) and not isinstance(kw.get("axis", pos[1] if n > 1 else None), bool):
            r = ND.flip(a0, kw.get("axis", pos[1] if n > 1 else None))
            return r if r is not None else Opaque(t)
        if t in ("swapaxes", "moveaxis") and n == 3 and a0 is not None and all(isinstance(x, int) and not isinstance(x, bool) for x in pos[1:]):
            i_, j_ = pos[1] % a0.ndim if a0.ndim else 0, pos[2] % a0.ndim if a0.ndim else 0
            axes = list(range(a0.ndim))
            if t == "swapaxes":
                axes[i_], axes[j_] = axes[j_], axes[i_]
            else:
                axes.insert(j_, axes.pop(i_))
            r = ND.permute(a0, axes)
            return r if r is not None else Opaque(t)
        if t == "squeeze" and n == 1 and a0 is not None and not kw:
            return self._reshape(a0, tuple(d for d in a0.shape if d != 1), node)
        if t == "expand_dims" and n == 2 and a0 is not None and isinstance(pos[1], int) and not isinstance(pos[1], bool):
            ax = pos[1] if pos[1] >= 0 else pos[1] + a0.ndim + 1
            if 0 <= ax <= a0.ndim:
                return self._reshape(a0, a0.shape[:ax] + (1,) + a0.shape[ax:], node)
        if t == "atleast_2d" and n == 1 and a0 is not None:
            return a0 if a0.ndim >= 2 else self._reshape(a0, (1, a0.size), node)
        if t == "negative" and n == 1:
            return self.binop(ast.Sub(), 0, pos[0], node)
        if t in ("minimum", "maximum") and n == 2 and (a0 is not None or self._as_arr(pos[1]) is not None):
            f_ = min if t == "minimum" else max
            x0 = a0 if a0 is not None else pos[0]
            b0 = self._as_arr(pos[1]) if isinstance(pos[1], (NArr, list, tuple, range)) else pos[1]
            if (isinstance(x0, NArr) or _num(x0)) and (isinstance(b0, NArr) or _num(b0)):
                r = ND.elementwise(x0, b0, lambda x, y: f_(x, y) if _num(x) and _num(y) else Opaque(t, deps_of(x) | deps_of(y)))
                return r if r is not None else Opaque(t)
            return Opaque(t)
        if t == "clip" and n == 3 and a0 is not None and _num(pos[1]) and _num(pos[2]):
            return NArr([min(max(x, pos[1]), pos[2]) if _num(x) else Opaque(t, deps_of(x)) for x in a0.items], a0.shape, label=t)
        if t == "cumsum" and a0 is not None and a0.ndim == 1 and all(_num(x) for x in a0.items):
            return NArr(list(itertools.accumulate(a0.items)), label="cumsum")
        if t == "append" and n == 2 and a0 is not None and "axis" not in kw:
            b0 = self._as_arr(pos[1]) if isinstance(pos[1], (NArr, list, tuple, range)) else NArr([pos[1]])
            if b0 is not None:
                a0.mark_all()
                b0.mark_all()
                return NArr(list(a0.items) + list(b0.items), label="append")
        return NotImplemented

    def _reshape(self, a, shp, node):
        if getattr(a, "ragged", False):
            return Opaque("reshape")
        r = ND.reshape(a, tuple(shp))
        if isinstance(r, str):
            raise Crash("ValueError", r, node)
        return r if r is not None else Opaque("reshape")

    def _itertools(self, t, pos, kw, node, env):
        its = [self.iterate(x, node) for x in pos]
        if t == "repeat":
            if len(pos) == 2 and isinstance(pos[1], int):
                return [pos[0]] * pos[1]
            return Opaque(t)
        if t == "starmap" and len(pos) == 2 and its[1] is not None:
            out = []
            for a in its[1]:
                ia = self.iterate(a, node)
                if ia is None:
                    return Opaque(t)
                out.append(self.call_value(pos[0], ia, {}, node, env))
            return out
        if t == "islice":
            if its and its[0] is not None and all(x is None or isinstance(x, int) for x in pos[1:]):
                return its[0][slice(*pos[1:])]
            return Opaque(t)
        if t == "accumulate" and its and its[0] is not None and (len(pos) >= 2 or "func" in kw or "initial" in kw):
            # accumulate(seq, f, initial=x): the running values x, f(x, s0), f(f(x, s0), s1) ...
            fn_ = pos[1] if len(pos) >= 2 else kw.get("func")
            seq = list(its[0])
            out = []
            if kw.get("initial") is not None:
                acc = kw["initial"]
                out.append(acc)
            elif seq:
                acc = seq.pop(0)
                out.append(acc)
            else:
                return []
            for x in seq:
                acc = self.call_value(fn_, [acc, x], {}, node, env) if fn_ is not None else self.binop(ast.Add(), acc, x, node)
                out.append(acc)
            return out
        if any(i is None for i in its):
            return Opaque(t)
        if t == "product":
            rep = kw.get("repeat", 1)
            if not isinstance(rep, int):
                return Opaque(t)
            return [tuple(x) for x in itertools.product(*its, repeat=rep)]
        if t == "chain":
            return [x for i in its for x in i]
        if t == "pairwise" and len(its) == 1:
            return list(zip(its[0], its[0][1:]))
        if t == "zip_longest":
            return [tuple(x) for x in itertools.zip_longest(*its, fillvalue=kw.get("fillvalue"))]
        if t == "accumulate" and len(its) == 1 and all(_num(x) for x in its[0]):
            return list(itertools.accumulate(its[0]))
        return Opaque(t)

    def _copy_arr(self, v):
        return v.copy()

    # ------------------------------------------------------------------ methods
    def call_method(self, obj, name, pos, kw, node, env):
        n = len(pos)
        if isinstance(obj, Container):
            if name == "append" and n == 1:
                self.mutate(node)
                obj.data.append(pos[0])
                obj.nodes.append(node)
                return None
            if name == "extend" and n == 1:
                return self.container_extend(obj, pos[0], node)
            if name == "create_attribute" and n >= 1:
                self.mutate(node)
                nm = pos[0] if isinstance(pos[0], str) else f"attr{len(obj.attrs)}"
                a = Attr(obj, nm)
                obj.attrs[nm] = a
                return a
            if name == "has_attribute" and n == 1:
                return pos[0] in obj.attrs if isinstance(pos[0], str) else Opaque("has_attribute")
            if name == "get_attribute" and n == 1 and isinstance(pos[0], str) and pos[0] in obj.attrs:
                return obj.attrs[pos[0]]
            if name == "size" and n == 0:
                return len(obj.data)
            if name == "empty" and n == 0:
                return len(obj.data) == 0
            if name == "clear" and n == 0:
                self.mutate(node)
                obj.data.clear()
                obj.nodes.clear()
                return None
            raise Undecidable(f"container method `{name}`", node)
        if isinstance(obj, Mesh):
            raise Undecidable(f"method `{name}` of a mesh under construction", node)
        if isinstance(obj, Attr):
            raise Undecidable(f"attribute method `{name}`", node)
        if isinstance(obj, list):
            if name in ("append", "extend", "insert", "pop", "reverse", "clear", "remove", "sort"):
                self.mutate(node)
                if name == "extend":
                    it = self.iterate(pos[0], node) if n == 1 else None
                    if it is None:
                        raise Undecidable("list extended with a value of unknown length", node)
                    obj.extend(it)
                    return None
                if name == "sort":
                    if all(_num(x) for x in obj) and not kw:
                        obj.sort()
                        return None
                    raise Undecidable("sort of a list of non-integers", node)
                try:
                    return getattr(obj, name)(*pos)
                except (IndexError, ValueError, TypeError) as e:
                    raise Crash(type(e).__name__, str(e), node)
            if name in ("index", "count", "copy"):
                try:
                    return getattr(obj, name)(*pos)
                except (ValueError, TypeError) as e:
                    raise Crash(type(e).__name__, str(e), node)
            raise Undecidable(f"list method `{name}`", node)       # it may change the list
        if isinstance(obj, set):
            if name in ("add", "discard", "remove", "update", "clear", "pop"):
                self.mutate(node)
                if name in ("add", "discard", "remove") and n == 1 and _hashable(pos[0]) and not is_opaque(pos[0]):
                    if name == "remove" and pos[0] not in obj:
                        raise Crash("KeyError", repr(pos[0]), node)
                    (obj.add if name == "add" else obj.discard)(pos[0])
                    return None
                if name == "update" and n == 1:
                    it = sorted(pos[0], key=repr) if isinstance(pos[0], set) else self.iterate(pos[0], node)
                    if it is not None and all(_hashable(x) and not is_opaque(x) for x in it):
                        obj.update(it)
                        return None
                if name == "clear" and n == 0:
                    obj.clear()
                    return None
            raise Undecidable(f"set method `{name}`", node)
        if isinstance(obj, tuple) and name in ("index", "count"):
            try:
                return getattr(obj, name)(*pos)
            except (ValueError, TypeError) as e:
                raise Crash(type(e).__name__, str(e), node)
        if isinstance(obj, str):
            if name in ("lower", "upper", "strip", "format", "startswith", "endswith", "join", "split") and all(isinstance(p, (str, int)) for p in pos):
                try:
                    return getattr(obj, name)(*pos)
                except Exception:
                    return Opaque("str")
            return Opaque("str")
        if isinstance(obj, NArr):
            ok_kw = {"astype": {"dtype", "copy", "casting", "subok"}, "repeat": {"axis"}, "copy": {"order"}, "view": {"dtype", "type"}}.get(name, set())
            if set(kw) - ok_kw or kw.get("order") not in (None, "C", "K", "A"):
                return Opaque(name)         # a keyword the model does not know (order='F', out=, axis= ...)
            if name in ("copy", "astype", "view"):
                return obj.copy()
            if name in ("ravel", "flatten"):
                r_ = self._reshape(obj, (-1,), node)
                return r_.copy() if name == "flatten" and isinstance(r_, NArr) else r_
            if name == "tolist":
                return obj.nested()
            if name == "reshape":
                shp = pos[0] if n == 1 and isinstance(pos[0], (tuple, list)) else tuple(pos)
                return self._reshape(obj, shp, node)
            if name == "transpose" and n == 0:
                return ND.transpose(obj)
            if name == "transpose" and n >= 1:
                axes = list(pos[0]) if n == 1 and isinstance(pos[0], (tuple, list)) else list(pos)
                if all(isinstance(a, int) and not isinstance(a, bool) for a in axes):
                    r = ND.permute(obj, axes)
                    return r if r is not None else Opaque(name)
            if name == "swapaxes" and n == 2:
                return self.call_builtin(Builtin("numpy.swapaxes"), [obj] + list(pos), {}, node, env)
            if name == "squeeze" and n == 0:
                return self._reshape(obj, tuple(d for d in obj.shape if d != 1), node)
            if name == "repeat":
                return self.call_builtin(Builtin("numpy.repeat"), [obj] + list(pos), kw, node, env)
            if name == "fill" and n == 1:
                if obj.aliased():
                    raise Undecidable("fill of an array whose memory is shared with a live view", node)
                self.mutate(node)
                obj.items = [pos[0]] * len(obj.items)
                return None
            if name in ("sum", "max", "min") and n == 0 and not kw and obj.items and all(_num(x) for x in obj.items):
                return {"sum": sum, "max": max, "min": min}[name](obj.items)
            return Opaque(name)
        if isinstance(obj, dict):
            if name == "get":
                return obj.get(pos[0], pos[1] if n > 1 else None) if _hashable(pos[0]) else Opaque("get")
            if name in ("keys", "values", "items"):
                return list(getattr(obj, name)())
            if name == "copy" and n == 0:
                return dict(obj)
            if name in ("setdefault", "pop", "update", "clear", "popitem"):
                self.mutate(node)
                if name == "setdefault" and 1 <= n <= 2 and _hashable(pos[0]) and not is_opaque(pos[0]):
                    return obj.setdefault(pos[0], pos[1] if n > 1 else None)
                if name == "pop" and 1 <= n <= 2 and _hashable(pos[0]) and not is_opaque(pos[0]):
                    if pos[0] in obj:
                        return obj.pop(pos[0])
                    if n == 2:
                        return pos[1]
                    raise Crash("KeyError", repr(pos[0]), node)
                if name == "update" and n == 1 and isinstance(pos[0], dict) and not kw:
                    obj.update(pos[0])
                    return None
                if name == "clear" and n == 0:
                    obj.clear()
                    return None
            raise Undecidable(f"dict method `{name}`", node)
        if isinstance(obj, Mod):
            return self.call_value(self.module_attr(obj, name), pos, kw, node, env)
        if isinstance(obj, Builtin) and obj.name == "itertools.chain" and name == "from_iterable" and n == 1:
            outer = self.iterate(pos[0], node)
            if outer is None:
                return Opaque("chain")
            out = []
            for x in outer:
                ix = self.iterate(x, node)
                if ix is None:
                    return Opaque("chain")
                out.extend(ix)
            return out
        if isinstance(obj, Builtin):
            # Vec.normalized(x), Vec.X(), AABB.unit_cube(...) ...
            if self._has_tracked(pos, kw):
                raise Undecidable(f"a mesh under construction is passed to `{obj.name}.{name}`", node)
            return Opaque(obj.name + "." + name)
        if name in IGNORED_CALLS:
            return None
        if self._has_tracked(pos, kw):
            raise Undecidable(f"a mesh under construction is passed to `.{name}(...)`", node)
        return Opaque("." + name)

    def module_attr(self, mod, name):
        if mod.internal:
            return self.global_name(name, mod.name)
        if name == "pi":
            return Opaque("pi")
        if name in ("newaxis",):
            return None
        if name in ("random", "linalg", "fft", "ma"):
            return Mod(mod.name + "." + name, False)
        return Builtin(mod.name + "." + name)

    def container_extend(self, obj, val, node):
        it = self.iterate(val, node)
        if it is None:
            raise Undecidable(f"`{obj.name}` extended with a value of unknown length", node)
        self.mutate(node)
        for x in it:
            obj.data.append(x)
            obj.nodes.append(node)
        return None

    # ------------------------------------------------------------------ iteration
    def iterate(self, v, node=None):
        """list of the elements of an iterable value, or None when its length is unknown"""
        if isinstance(v, (list, tuple, range)):
            return list(v)
        if isinstance(v, NArr):
            return v.rows() if v.ndim >= 1 else None
        if isinstance(v, Container):
            return list(v.data)
        if isinstance(v, str):
            return list(v)
        if isinstance(v, dict):
            return list(v)
        if isinstance(v, VecV):
            return list(v.comps)
        if isinstance(v, Record) and v.cls.is_tuple:
            return [v.values[k] for k in v.cls.fields]
        if isinstance(v, EnumClass):
            return list(v.members.values())        # members in definition order
        if isinstance(v, (set, frozenset)):
            return list(v) if len(v) <= 1 else None      # iteration order of a set: not modelled
        return None

    # ------------------------------------------------------------------ truth
    def truth(self, v):
        if isinstance(v, bool):
            return v
        if v is None:
            return False
        if _num(v):
            return v != 0
        if isinstance(v, (list, tuple, range, str, dict, set, frozenset)):
            return len(v) > 0
        if isinstance(v, (Mesh, Func, Builtin, Attr, Mod, Bound)):
            return True
        if isinstance(v, Container):
            return len(v.data) > 0
        return None

    # ------------------------------------------------------------------ statements
    def block(self, body, env):
        for st in body:
            sig = self.stmt(st, env)
            if sig is not None:
                return sig
        return None

    def stmt(self, st, env):
        self.tick(st)
        if isinstance(st, ast.Expr):
            if isinstance(st.value, (ast.Yield, ast.YieldFrom)) and self.forbid > self.lookup("__yield_level__", env):
                # a value produced under a test / in a loop the analysis cannot evaluate: the length of the sequence is unknown
                raise Undecidable("a generator yields under a test or in a loop the analysis cannot evaluate", st)
            if isinstance(st.value, (ast.Yield,)):
                v = self.ev(st.value.value, env) if st.value.value is not None else None
                self.lookup("__yield__", env).append(v)
                return None
            if isinstance(st.value, ast.YieldFrom):
                it = self.iterate(self.ev(st.value.value, env), st)
                if it is None:
                    raise Undecidable("yield from a value of unknown length", st)
                self.lookup("__yield__", env).extend(it)
                return None
            self.ev(st.value, env)
            return None
        if isinstance(st, ast.Assign):
            v = self.ev(st.value, env)
            for t in st.targets:
                self.assign(t, v, env, st)
            return None
        if isinstance(st, ast.AnnAssign):
            if st.value is not None:
                self.assign(st.target, self.ev(st.value, env), env, st)
            return None
        if isinstance(st, ast.AugAssign):
            return self.augassign(st, env)
        if isinstance(st, ast.If):
            return self.if_stmt(st, env)
        if isinstance(st, (ast.For, ast.AsyncFor)):
            return self.for_stmt(st, env)
        if isinstance(st, ast.While):
            return self.while_stmt(st, env)
        if isinstance(st, ast.Return):
            return ("return", self.ev(st.value, env) if st.value is not None else None)
        if isinstance(st, ast.Break):
            return "break"
        if isinstance(st, ast.Continue):
            return "continue"
        if isinstance(st, ast.Pass):
            return None
        if isinstance(st, ast.Raise):
            raise Raised(st)
        if isinstance(st, ast.Assert):
            tv = self.truth(self._pure(st.test, env))
            if tv is False:
                raise Raised(st)
            return None
        if isinstance(st, (ast.FunctionDef, ast.AsyncFunctionDef)):
            env.local[st.name] = self._define(st, env)
            return None
        if isinstance(st, ast.Nonlocal):
            env.nonlocals = set(env.nonlocals) | set(st.names)
            return None
        if isinstance(st, ast.Global):
            env.globals_ = set(env.globals_) | set(st.names)
            env.interp = self
            for n_ in st.names:
                env.local.pop(n_, None)
            return None
        if isinstance(st, (ast.Import, ast.ImportFrom, ast.ClassDef)):
            if isinstance(st, ast.Import):
                for a in st.names:
                    env.local[a.asname or a.name.split(".")[0]] = Mod(a.name, False)
            elif isinstance(st, ast.ImportFrom):
                for a in st.names:
                    env.local[a.asname or a.name] = Builtin((st.module or "") + "." + a.name)
            return None
        if isinstance(st, (ast.With, ast.AsyncWith)):
            for item in st.items:
                v = self.ev(item.context_expr, env)
                if item.optional_vars is not None:
                    self.assign(item.optional_vars, v, env, st)
            return self.block(st.body, env)
        if isinstance(st, ast.Delete):
            for t in st.targets:
                if isinstance(t, ast.Name):
                    env.local.pop(t.id, None)
                else:
                    raise Undecidable("del of a sub-object", st)
            return None
        if isinstance(st, ast.Try):
            # the protected body is evaluated; a decided failure inside it goes to the handler that catches it
            try:
                sig = self.block(st.body, env)
                failed = False
            except (Crash, Raised) as exc:
                kind = exc.args[0].split(":")[0] if isinstance(exc, Crash) and exc.args else None
                if isinstance(exc, Crash):
                    kind = getattr(exc, "kind", None) or kind
                else:
                    r_ = exc.node.exc if isinstance(getattr(exc, "node", None), ast.Raise) else None
                    r_ = r_.func if isinstance(r_, ast.Call) else r_
                    kind = (au.chain(r_) or [None])[-1] if r_ is not None else None
                handler = None
                for h in st.handlers:
                    names_ = [] if h.type is None else [(au.chain(x) or ["?"])[-1] for x in (h.type.elts if isinstance(h.type, ast.Tuple) else [h.type])]
                    if h.type is None or "Exception" in names_ or "BaseException" in names_ or (kind is not None and kind in names_) \
                            or (kind in ("IndexError", "KeyError") and "LookupError" in names_) or (kind == "ZeroDivisionError" and "ArithmeticError" in names_):
                        handler = h
                        break
                    if kind is None or "?" in names_:
                        raise Undecidable("an exception whose class the analysis cannot name meets an `except` clause", st)
                if handler is None:
                    raise
                if handler.name:
                    env.bind(handler.name, Opaque("exception"))
                sig = self.block(handler.body, env)
                failed = True
            if sig is None and st.orelse and not failed:
                sig = self.block(st.orelse, env)
            if st.finalbody:
                s2 = self.block(st.finalbody, env)
                sig = s2 if s2 is not None else sig
            return sig
        raise Undecidable(f"statement {type(st).__name__}", st)

    def _pure(self, e, env):
        self.forbid += 1
        try:
            return self.ev(e, env)
        except Undecidable:
            return Opaque("expr")
        finally:
            self.forbid -= 1

    def assign(self, t, v, env, st):
        if isinstance(t, ast.Name):
            if t.id in env.nonlocals or t.id in env.globals_:
                self.mutate(st)
            env.bind(t.id, v)
            return
        if isinstance(t, (ast.Tuple, ast.List)):
            star = [i for i, x in enumerate(t.elts) if isinstance(x, ast.Starred)]
            it = self.iterate(v, st)
            if it is None:
                for x in t.elts:
                    self.assign(x.value if isinstance(x, ast.Starred) else x, Opaque("unpacked"), env, st)
                return
            if not star:
                if len(it) != len(t.elts):
                    raise Crash("ValueError", f"cannot unpack {len(it)} values into {len(t.elts)} targets", st)
                for x, y in zip(t.elts, it):
                    self.assign(x, y, env, st)
                return
            k = star[0]
            after = len(t.elts) - k - 1
            if len(it) < len(t.elts) - 1:
                raise Crash("ValueError", "not enough values to unpack", st)
            for x, y in zip(t.elts[:k], it[:k]):
                self.assign(x, y, env, st)
            self.assign(t.elts[k].value, list(it[k:len(it) - after]), env, st)
            for x, y in zip(t.elts[k + 1:], it[len(it) - after:]):
                self.assign(x, y, env, st)
            return
        if isinstance(t, ast.Subscript):
            base = self.ev(t.value, env)
            key = self.ev_slice(t.slice, env)
            if isinstance(base, Attr):
                self.mutate(st)
                base.writes.append((key, v, len(base.container.data), st))
                return
            if isinstance(base, Container):
                self.mutate(st)
                base.stores.append((key, st))
                if isinstance(key, int) and not isinstance(key, bool) and -len(base.data) <= key < len(base.data):
                    base.data[key] = v
                return
            if isinstance(base, list):
                self.mutate(st)
                if isinstance(key, int) and not isinstance(key, bool):
                    try:
                        base[key] = v
                    except IndexError:
                        raise Crash("IndexError", f"list assignment index {key} out of range ({len(base)} entries)", st)
                    return
                raise Undecidable("list store with a key the analysis cannot evaluate", st)
            if isinstance(base, NArr):
                self.mutate(st)
                self._arr_store(base, key, v, st)
                return
            if isinstance(base, dict):
                self.mutate(st)
                if _hashable(key):
                    base[key] = v
                    return
                raise Undecidable("dict store with an unknown key", st)
            if is_opaque(base):
                return      # a store into an object the analysis does not track (not a mesh container)
            raise Undecidable(f"store into a {type(base).__name__}", st)
        if isinstance(t, ast.Attribute):
            base = self.ev(t.value, env)
            if isinstance(base, (Mesh, Container)):
                raise Undecidable(f"attribute `{t.attr}` of a mesh under construction is rebound", st)
            return
        if isinstance(t, ast.Starred):
            self.assign(t.value, v, env, st)
            return
        raise Undecidable(f"assignment target {type(t).__name__}", st)

    def _arr_store(self, base, key, v, st):
        key = _unwrap_key(key)
        if isinstance(v, VecV):
            v = NArr(list(v.comps))
        r = base.set(key, v)
        if r == "aliased":
            raise Undecidable("a store into an array whose memory is shared with a live view (numpy views are not modelled)", st)
        if isinstance(r, str):
            raise Crash("IndexError" if "out of bounds" in r else "ValueError", r, st)
        if r is False:
            base.items = [Opaque("stored") for _ in base.items]     # a store the model does not follow: the shape is kept, the entries are lost

    def augassign(self, st, env):
        t = st.target
        rhs = self.ev(st.value, env)
        if isinstance(t, ast.Name):
            cur = self.lookup(t.id, env, st)
            if isinstance(cur, Container) and isinstance(st.op, ast.Add):
                self.container_extend(cur, rhs, st)
                return None
            if isinstance(cur, list) and isinstance(st.op, ast.Add):
                it = self.iterate(rhs, st)
                if it is None:
                    raise Undecidable("list extended with a value of unknown length", st)
                self.mutate(st)
                cur.extend(it)
                return None
            if isinstance(cur, list) and isinstance(st.op, ast.Mult):
                if not (isinstance(rhs, int) and not isinstance(rhs, bool)):
                    raise Undecidable("list repeated an unknown number of times", st)
                self.mutate(st)
                cur[:] = cur * rhs        # in place: every alias of the list sees it
                return None
            if isinstance(cur, NArr):
                # numpy updates the array in place: every alias sees the new entries
                if cur.aliased():
                    raise Undecidable("an in-place update of an array whose memory is shared with a live view (numpy views are not modelled)", st)
                res = self.binop(st.op, cur, rhs, st)
                self.mutate(st)
                if isinstance(res, NArr) and res.shape == cur.shape:
                    cur.items = list(res.items)
                else:
                    cur.items = [Opaque("aug") for _ in cur.items]
                return None
            if t.id in env.nonlocals:
                self.mutate(st)
            env.bind(t.id, self.binop(st.op, cur, rhs, st))
            return None
        if isinstance(t, ast.Attribute):
            base = self.ev(t.value, env)
            if isinstance(base, Mesh) and t.attr in base.c:
                if isinstance(st.op, ast.Add):
                    self.container_extend(base.c[t.attr], rhs, st)
                    return None
                raise Undecidable(f"`{t.attr}` updated with {type(st.op).__name__}", st)
            if isinstance(base, (Mesh, Container)):
                raise Undecidable("augmented assignment on a mesh attribute", st)
            return None
        if isinstance(t, ast.Subscript):
            base = self.ev(t.value, env)
            key = self.ev_slice(t.slice, env)
            if isinstance(base, list):
                self.mutate(st)
                if isinstance(key, int) and not isinstance(key, bool):
                    try:
                        base[key] = self.binop(st.op, base[key], rhs, st)
                    except IndexError:
                        raise Crash("IndexError", f"list index {key} out of range", st)
                    return None
                raise Undecidable("list update with a key the analysis cannot evaluate", st)
            if isinstance(base, Container):
                self.mutate(st)
                base.stores.append((key, st))
                return None
            if isinstance(base, Attr):
                self.mutate(st)
                base.writes.append((key, Opaque("aug"), len(base.container.data), st))
                return None
            if isinstance(base, NArr):
                self.mutate(st)
                cur = self.subscript(base, key, st)
                new_ = self.binop(st.op, cur, rhs, st)
                del cur         # the temporary view of the updated entries is gone before the store
                self._arr_store(base, key, new_, st)
                return None
            if isinstance(base, dict):
                raise Undecidable("dict update", st)
            return None
        raise Undecidable("augmented assignment target", st)

    def if_stmt(self, st, env):
        tv = self.truth(self.ev(st.test, env))
        if tv is True:
            return self.block(st.body, env)
        if tv is False:
            return self.block(st.orelse, env)
        # undecided test: the branches may only differ in opaque values
        outs = []
        self.forbid += 1
        try:
            for branch in (st.body, st.orelse):
                e2 = env.fork()
                try:
                    sig = self.block(branch, e2)
                except Raised:
                    continue        # validation of a value the analysis does not model: assumed to pass
                if sig is not None:
                    raise Undecidable(f"`{sig if isinstance(sig, str) else 'return'}` depends on `{au.src(st.test)}`, which the analysis "
                                      f"cannot evaluate", st)
                outs.append(e2)
        finally:
            self.forbid -= 1
        if not outs:
            raise Raised(st)
        self.join_into(env, outs)
        return None

    def join_into(self, env, outs):
        names = set()
        for o in outs:
            names |= set(o.local)
        for n in names:
            vals = [o.local.get(n, _MISSING) for o in outs]
            first = vals[0]
            if all(_same(first, v) for v in vals[1:]) and first is not _MISSING:
                env.local[n] = first
            else:
                env.local[n] = Opaque(n)

    def _havoc(self, body, env):
        for s in au.stmts(body):
            for t in au.assign_targets(s):
                for n in au.assigned_names(t):
                    env.local[n] = Opaque(n)
            if isinstance(s, (ast.For, ast.AsyncFor)):
                for n in au.assigned_names(s.target):
                    env.local[n] = Opaque(n)
            if isinstance(s, (ast.With, ast.AsyncWith)):
                for it in s.items:
                    if it.optional_vars is not None:
                        for n in au.assigned_names(it.optional_vars):
                            env.local[n] = Opaque(n)
            for x in au.walk(s):
                if isinstance(x, ast.NamedExpr):
                    env.local[x.target.id] = Opaque(x.target.id)

    def _opaque_loop(self, st, env):
        """a loop whose trip count is unknown: its body may only compute opaque values"""
        self._havoc(st.body, env)
        if isinstance(st, (ast.For, ast.AsyncFor)):
            for n in au.assigned_names(st.target):
                env.local[n] = Opaque(n)
        self.forbid += 1
        try:
            e2 = env.fork()
            try:
                sig = self.block(st.body, e2)
            except Raised:
                sig = None
            if isinstance(sig, tuple):
                raise Undecidable("return inside a loop whose trip count the analysis cannot evaluate", st)
        finally:
            self.forbid -= 1
        self._havoc(st.body, env)
        return None

    def _body_effects(self, body):
        """could the statements (syntactically) update a container / list / attribute or return?"""
        for s_ in au.stmts(body):
            if isinstance(s_, ast.Return):
                return True
            if isinstance(s_, ast.Expr) and isinstance(s_.value, ast.Call) and isinstance(s_.value.func, ast.Attribute) \
                    and s_.value.func.attr in ("append", "extend", "insert", "pop", "remove", "clear", "add", "update", "create_attribute"):
                return True
            if isinstance(s_, (ast.Assign, ast.AugAssign)):
                for t_ in au.assign_targets(s_):
                    if isinstance(t_, (ast.Subscript, ast.Attribute)):
                        return True
        return False

    def for_stmt(self, st, env):
        itv = self.ev(st.iter, env)
        it = self.iterate(itv, st)
        if it is None:
            return self._opaque_loop(st, env)
        broke = False
        for x in it:
            self.tick(st)
            self.assign(st.target, x, env, st)
            sig = self.block(st.body, env)
            if sig == "break":
                broke = True
                break
            if sig == "continue" or sig is None:
                continue
            return sig
        if not broke and st.orelse:
            return self.block(st.orelse, env)
        return None

    def while_stmt(self, st, env):
        n = 0
        while True:
            self.tick(st)
            tv = self.truth(self.ev(st.test, env))
            if tv is None:
                return self._opaque_loop(st, env)
            if tv is False:
                if st.orelse:
                    return self.block(st.orelse, env)
                return None
            before = self.mutations
            try:
                sig = self.block(st.body, env)
            except Undecidable as ex:
                if self.mutations == before and n == 0 and ("`break`" in str(ex) or "`continue`" in str(ex)) and not self._body_effects(st.body):
                    # a numeric search loop left by a test on opaque values: it computes opaque values only
                    self._havoc(st.body, env)
                    return None
                raise
            n += 1
            if sig == "break":
                return None
            if sig == "continue" or sig is None:
                if n > 20000:
                    raise Undecidable("loop does not terminate within the evaluation budget", st)
                continue
            return sig

    # ------------------------------------------------------------------ expressions
    def ev(self, e, env):
        self.tick(e)
        m = getattr(self, "e_" + type(e).__name__, None)
        if m is None:
            raise Undecidable(f"expression {type(e).__name__}", e)
        return m(e, env)

    def e_Constant(self, e, env):
        v = e.value
        if isinstance(v, float):
            return Fraction(str(v)) if v == v and abs(v) != float("inf") else Opaque("float")
        if isinstance(v, (int, bool, str)) or v is None or v is Ellipsis:
            return v
        return Opaque("const")

    def e_Name(self, e, env):
        return self.lookup(e.id, env, e)

    def e_NamedExpr(self, e, env):
        v = self.ev(e.value, env)
        env.local[e.target.id] = v
        return v

    def e_Tuple(self, e, env):
        out = []
        for x in e.elts:
            if isinstance(x, ast.Starred):
                it = self.iterate(self.ev(x.value, env), e)
                if it is None:
                    return Opaque("tuple")
                out.extend(it)
            else:
                out.append(self.ev(x, env))
        return tuple(out)

    def e_List(self, e, env):
        v = self.e_Tuple(e, env)
        return list(v) if isinstance(v, tuple) else v

    def e_Set(self, e, env):
        return Opaque("set")

    def e_Dict(self, e, env):
        out = {}
        for k, v in zip(e.keys, e.values):
            if k is None:
                return Opaque("dict")
            kk = self.ev(k, env)
            if not _hashable(kk):
                return Opaque("dict")
            out[kk] = self.ev(v, env)
        return out

    def e_JoinedStr(self, e, env):
        return Opaque("str")

    def e_FormattedValue(self, e, env):
        return Opaque("str")

    def e_Lambda(self, e, env):
        return self._define(e, env)

    def e_Starred(self, e, env):
        return self.ev(e.value, env)

    def e_IfExp(self, e, env):
        tv = self.truth(self.ev(e.test, env))
        if tv is True:
            return self.ev(e.body, env)
        if tv is False:
            return self.ev(e.orelse, env)
        self.forbid += 1
        try:
            a, b = self.ev(e.body, env), self.ev(e.orelse, env)
        finally:
            self.forbid -= 1
        return a if _same(a, b) else Opaque("ifexp")

    def e_UnaryOp(self, e, env):
        v = self.ev(e.operand, env)
        if isinstance(e.op, ast.Not):
            tv = self.truth(v)
            return Opaque("not") if tv is None else (not tv)
        if isinstance(e.op, ast.USub):
            if _num(v):
                return -v
            if isinstance(v, Lin):
                return Lin({k: -c for k, c in v.t.items()})
            if isinstance(v, VecV) and v.numeric():
                return VecV([-c for c in v.comps])
            if isinstance(v, NArr):
                return self.binop(ast.Sub(), 0, v, e)
            return Opaque("neg")
        if isinstance(e.op, ast.UAdd):
            return v
        if isinstance(e.op, ast.Invert) and isinstance(v, int):
            return ~v
        return Opaque("unary")

    def e_BoolOp(self, e, env):
        is_and = isinstance(e.op, ast.And)
        unknown = False
        last = None
        for x in e.values:
            if unknown:
                v = self._pure(x, env)
            else:
                v = self.ev(x, env)
            tv = self.truth(v)
            last = v
            if tv is None:
                unknown = True
                continue
            if is_and and tv is False:
                return v if not unknown else False
            if not is_and and tv is True:
                return v if not unknown else True
        return Opaque("boolop") if unknown else last

    def e_Compare(self, e, env):
        if len(e.ops) == 1 and isinstance(e.ops[0], (ast.Lt, ast.LtE, ast.Gt, ast.GtE, ast.Eq, ast.NotEq)):
            a, b = self.ev(e.left, env), self.ev(e.comparators[0], env)
            if isinstance(a, NArr) or isinstance(b, NArr):
                # numpy compares entry by entry
                if not ((isinstance(a, NArr) or _num(a)) and (isinstance(b, NArr) or _num(b))):
                    return Opaque("compare")

                def cmp(x, y):
                    r = self.compare(e.ops[0], x, y, e) if (_num(x) or isinstance(x, bool)) and (_num(y) or isinstance(y, bool)) else None
                    return r if r is not None else Opaque("compare", deps_of(x) | deps_of(y))
                out = ND.elementwise(a, b, cmp)
                return out if out is not None else Opaque("compare")
            r = self.compare(e.ops[0], a, b, e)     # operands already evaluated (once)
            return Opaque("compare") if r is None else r
        left = self.ev(e.left, env)
        res = True
        unknown = False
        for op, c in zip(e.ops, e.comparators):
            right = self.ev(c, env)
            r = self.compare(op, left, right, e)
            if r is None:
                unknown = True
            elif r is False:
                return False
            left = right
        return Opaque("compare") if unknown else True

    def compare(self, op, a, b, node):
        if isinstance(op, (ast.Is, ast.IsNot)):
            if a is None or b is None:
                other = b if a is None else a
                if is_opaque(other):
                    return None
                r = other is None
                return r if isinstance(op, ast.Is) else not r
            if isinstance(a, bool) and isinstance(b, bool):
                return (a is b) if isinstance(op, ast.Is) else (a is not b)
            if isinstance(a, EnumMember) and isinstance(b, EnumMember):
                return (a is b) if isinstance(op, ast.Is) else (a is not b)
            return None
        if isinstance(op, (ast.In, ast.NotIn)):
            if isinstance(b, (list, tuple, range, dict, str, set, frozenset)) and not is_opaque(a) and _hashable(a):
                try:
                    r = a in b
                except TypeError:
                    return None
                if not r and isinstance(b, (list, tuple)) and any(is_opaque(x) for x in b):
                    return None
                return r if isinstance(op, ast.In) else not r
            return None
        if (_num(a) or isinstance(a, bool)) and (_num(b) or isinstance(b, bool)):
            import operator
            f = {ast.Lt: operator.lt, ast.LtE: operator.le, ast.Gt: operator.gt, ast.GtE: operator.ge, ast.Eq: operator.eq,
                 ast.NotEq: operator.ne}.get(type(op))
            return None if f is None else f(a, b)
        if isinstance(op, (ast.Eq, ast.NotEq)):
            if isinstance(a, EnumMember) and isinstance(b, EnumMember):
                return (a is b) if isinstance(op, ast.Eq) else (a is not b)
            if isinstance(a, str) and isinstance(b, str):
                return (a == b) if isinstance(op, ast.Eq) else (a != b)
            if (a is None or b is None) and not is_opaque(a) and not is_opaque(b):
                return ((a is None) == (b is None)) if isinstance(op, ast.Eq) else ((a is None) != (b is None))
            if isinstance(a, tuple) and isinstance(b, tuple) and all(_num(x) for x in a + b):
                return (a == b) if isinstance(op, ast.Eq) else (a != b)
        return None

    def e_BinOp(self, e, env):
        a, b = self.ev(e.left, env), self.ev(e.right, env)
        return with_deps(self.binop(e.op, a, b, e), a, b)

    def binop(self, op, a, b, node):
        if isinstance(a, bool):
            a = int(a)
        if isinstance(b, bool):
            b = int(b)
        if _num(a) and _num(b):
            try:
                if isinstance(op, ast.Add): return a + b
                if isinstance(op, ast.Sub): return a - b
                if isinstance(op, ast.Mult): return a * b
                if isinstance(op, ast.Div): return Fraction(a) / Fraction(b)
                if isinstance(op, ast.FloorDiv): return a // b
                if isinstance(op, ast.Mod): return a % b
                if isinstance(op, ast.Pow):
                    if isinstance(b, int) and abs(b) <= 16:
                        return a ** b if b >= 0 or a != 0 else Opaque("pow")
                    return Opaque("pow")
                if isinstance(a, int) and isinstance(b, int):
                    if isinstance(op, ast.LShift): return a << b
                    if isinstance(op, ast.RShift): return a >> b
                    if isinstance(op, ast.BitAnd): return a & b
                    if isinstance(op, ast.BitOr): return a | b
                    if isinstance(op, ast.BitXor): return a ^ b
            except ZeroDivisionError:
                raise Crash("ZeroDivisionError", "division by zero", node)
            return Opaque("binop")
        # sequences
        if isinstance(op, ast.Add):
            if isinstance(a, list) and isinstance(b, list):
                return a + b
            if isinstance(a, tuple) and isinstance(b, tuple):
                return a + b
            if isinstance(a, str) and isinstance(b, str):
                return a + b
        if isinstance(op, ast.Mult):
            for s, k in ((a, b), (b, a)):
                if isinstance(s, (list, tuple)) and isinstance(k, int):
                    return s * k
        if isinstance(op, ast.Mod) and isinstance(a, str):
            return Opaque("str")
        # linear combinations of point atoms
        if isinstance(a, Lin) or isinstance(b, Lin):
            if isinstance(op, (ast.Add, ast.Sub)) and isinstance(a, Lin) and isinstance(b, Lin):
                t = dict(a.t)
                for k, c in b.t.items():
                    t[k] = t.get(k, 0) + (c if isinstance(op, ast.Add) else -c)
                return Lin(t)
            if isinstance(op, ast.Mult):
                l, k = (a, b) if isinstance(a, Lin) else (b, a)
                if _num(k):
                    return Lin({x: c * k for x, c in l.t.items()})
            if isinstance(op, ast.Div) and isinstance(a, Lin) and _num(b) and b != 0:
                return Lin({x: c / Fraction(b) for x, c in a.t.items()})
            return Opaque("lin")
        if isinstance(a, VecV) or isinstance(b, VecV):
            if isinstance(a, VecV) and isinstance(b, VecV) and a.numeric() and b.numeric() and len(a.comps) == len(b.comps) \
                    and isinstance(op, (ast.Add, ast.Sub)):
                return VecV([(x + y) if isinstance(op, ast.Add) else (x - y) for x, y in zip(a.comps, b.comps)])
            if isinstance(op, ast.Mult):
                v, k = (a, b) if isinstance(a, VecV) else (b, a)
                if _num(k) and isinstance(v, VecV) and v.numeric():
                    return VecV([c * k for c in v.comps])
            if isinstance(op, ast.Div) and isinstance(a, VecV) and a.numeric() and _num(b) and b != 0:
                return VecV([Fraction(c) / Fraction(b) for c in a.comps])
            return Opaque("vec")
        # arrays: element-wise, the leading dimension is kept
        if getattr(a, "ragged", False) or getattr(b, "ragged", False):
            # an array known by its rows only (rows are opaque vectors): arithmetic keeps the number of rows
            r_, o_ = (a, b) if getattr(a, "ragged", False) else (b, a)
            n_ = len(r_.items)
            if (isinstance(o_, NArr) and o_.ndim >= 1 and o_.shape[0] in (n_, 1)) or is_opaque(o_) or _num(o_) or isinstance(o_, (VecV, Lin)):
                out = NArr([Opaque("row") for _ in range(n_)], label=r_.label)
                out.ragged = True
                return out
            return Opaque("rows")
        if isinstance(a, NArr) or isinstance(b, NArr):
            other = b if isinstance(a, NArr) else a
            if isinstance(other, (Mesh, Container, Attr)):
                raise Undecidable("arithmetic on a mesh container", node)
            if isinstance(other, (list, tuple, range)):
                other = ND.from_nested(_devec(other))
                if other is None:
                    return Opaque("broadcast")
                a, b = (a, other) if isinstance(a, NArr) else (other, b)
            elif isinstance(other, VecV):
                other = NArr(list(other.comps))
                a, b = (a, other) if isinstance(a, NArr) else (other, b)

            def f(x, y):
                if _num(x) and _num(y):
                    try:
                        return self.binop(op, x, y, node)
                    except Crash:
                        return Opaque("elem")
                return Opaque("elem", deps_of(x) | deps_of(y))
            out = ND.elementwise(a, b, f)
            if out is None:
                sa = a.shape if isinstance(a, NArr) else ()
                sb = b.shape if isinstance(b, NArr) else ()
                raise Crash("ValueError", f"operands could not be broadcast together with shapes {sa} {sb}", node)
            return out
        if isinstance(a, (Mesh, Container, Attr)) or isinstance(b, (Mesh, Container, Attr)):
            raise Undecidable("arithmetic on a mesh container", node)
        return Opaque("binop")

    def e_Attribute(self, e, env):
        base = self.ev(e.value, env)
        a = e.attr
        if isinstance(base, Mesh):
            if a in base.c:
                return base.c[a]
            if a.startswith("id_") and a[3:] in base.c:
                return range(len(base.c[a[3:]].data))
            return Opaque(a)
        if isinstance(base, Mod):
            return self.module_attr(base, a)
        if isinstance(base, Container):
            if a in ("append", "extend", "create_attribute", "has_attribute", "get_attribute", "clear", "empty"):
                return Bound(base, a)
            if a == "size":
                return len(base.data)
            if a == "_data":
                return base.data
            return Opaque(a)
        if isinstance(base, Attr):
            return Opaque(a)
        if isinstance(base, (list, tuple, str, dict, set, frozenset)):
            return Bound(base, a)
        if isinstance(base, NArr):
            if a == "shape":
                return tuple(base.shape)
            if a == "size":
                return base.size
            if a == "ndim":
                return base.ndim
            if a == "dtype":
                return Opaque("dtype")
            if a == "T":
                return ND.transpose(base)
            return Bound(base, a)
        if isinstance(base, VecV):
            if a in ("x", "y", "z") and "xyz".index(a) < len(base.comps):
                return base.comps["xyz".index(a)]
            if a == "size":
                return len(base.comps)
            return Opaque(a)
        if isinstance(base, Builtin):
            return Bound(base, a)
        if isinstance(base, Record):
            if a in base.values:
                return base.values[a]
            if a in base.cls.methods:
                m_ = base.cls.methods[a]
                if any(isinstance(d, ast.Name) and d.id in ("property", "cached_property") for d in m_.decorator_list):
                    return self._invoke(Func(m_, base.cls.modname), [], {}, e, self_obj=base)
                return _RecordMethod(base, m_)
            return Opaque(a)
        if isinstance(base, EnumClass):
            if a in base.members:
                return base.members[a]
            return Opaque(a)
        if isinstance(base, EnumMember):
            if a == "name":
                return base.name
            if a == "value" and base.name in base.cls.values and not (isinstance(base.cls.values[base.name], ast.Call)
                                                                      and au.call_tail(base.cls.values[base.name]) == "auto"):
                return self.ev(base.cls.values[base.name], Env({}, None, base.cls.modname))
            return Opaque(a)
        if isinstance(base, Func):
            return Opaque(a)
        if isinstance(base, SelfObj) and a in base.methods:
            return _RecordMethod(base, base.methods[a])
        return _OpaqueAttr(base, a)

    def e_Subscript(self, e, env):
        base = self.ev(e.value, env)
        key = self.ev_slice(e.slice, env)
        res = self.subscript(base, key, e)
        return with_deps(res, base, key) if isinstance(res, Opaque) and is_opaque(base) else res

    def ev_slice(self, s, env):
        if isinstance(s, ast.Slice):
            lo = self.ev(s.lower, env) if s.lower is not None else None
            hi = self.ev(s.upper, env) if s.upper is not None else None
            st = self.ev(s.step, env) if s.step is not None else None
            if all(x is None or (isinstance(x, int) and not isinstance(x, bool)) for x in (lo, hi, st)):
                return slice(lo, hi, st)
            return Opaque("slice")
        if isinstance(s, ast.Tuple):
            return tuple(self.ev_slice(x, env) for x in s.elts)
        return self.ev(s, env)

    def subscript(self, base, key, node):
        if isinstance(base, (list, tuple, range, str)):
            if isinstance(key, bool):
                key = int(key)
            if isinstance(key, int):
                try:
                    return base[key]
                except IndexError:
                    raise Crash("IndexError", f"index {key} out of range for a sequence of {len(base)} entries", node)
            if isinstance(key, slice):
                try:
                    return base[key]
                except ValueError as ex:
                    raise Crash("ValueError", str(ex), node)
            if isinstance(key, Fraction):
                raise Crash("TypeError", "sequence index is not an integer", node)
            return Opaque("item")
        if isinstance(base, NArr):
            r = base.get(_unwrap_key(key))
            if isinstance(r, ND._Entry):
                return r.v
            if isinstance(r, NArr):
                return r
            if isinstance(r, str):
                raise Crash("IndexError", r + f" (`{base.label}`)", node)
            ks = key if isinstance(key, tuple) else (key,)
            if any(isinstance(k, Fraction) for k in ks):
                raise Crash("IndexError", "array index is not an integer", node)
            return Opaque("item")
        if isinstance(base, Container):
            if isinstance(key, int) and not isinstance(key, bool):
                n = len(base.data)
                if not (-n <= key < n):
                    raise Crash("IndexError", f"`{base.name}[{key}]` read while the container holds {n} element(s)", node)
                return base.data[key]
            return Opaque("element")
        if isinstance(base, Attr):
            return Opaque("attr value")
        if isinstance(base, dict):
            if _hashable(key) and key in base:
                return base[key]
            if _hashable(key) and not any(is_opaque(k) for k in base):
                raise Crash("KeyError", repr(key), node)
            return Opaque("item")
        if isinstance(base, VecV):
            if isinstance(key, int) and not isinstance(key, bool) and -len(base.comps) <= key < len(base.comps):
                return base.comps[key]
            return Opaque("comp")
        if isinstance(base, (Mesh,)):
            raise Undecidable("subscript of a mesh", node)
        return Opaque("item")

    def e_Slice(self, e, env):
        return self.ev_slice(e, env)

    def e_Call(self, e, env):
        f = self.ev(e.func, env)
        pos = []
        for a in e.args:
            if isinstance(a, ast.Starred):
                it = self.iterate(self.ev(a.value, env), e)
                if it is None:
                    if isinstance(f, (Func, Bound)) and not isinstance(getattr(f, "obj", None), (Container, Mesh, list)):
                        return Opaque("call")
                    raise Undecidable("call with *args of unknown length", e)
                pos.extend(it)
            else:
                pos.append(self.ev(a, env))
        kw = {}
        for k in e.keywords:
            if k.arg is None:
                v = self.ev(k.value, env)
                if isinstance(v, dict) and all(isinstance(x, str) for x in v):
                    kw.update(v)
                else:
                    raise Undecidable("call with **kwargs of unknown content", e)
            else:
                kw[k.arg] = self.ev(k.value, env)
        return self.call_value(f, pos, kw, e, env)

    def _comp(self, e, env, emit):
        """evaluate the generators of a comprehension; returns False when its length is unknown"""
        e2 = Env({}, env, env.modname)

        def rec(k):
            if k == len(e.generators):
                emit(e2)
                return True
            g = e.generators[k]
            it = self.iterate(self.ev(g.iter, e2), e)
            if it is None:
                return False
            for x in it:
                self.tick(e)
                self.assign(g.target, x, e2, e)
                ok = True
                for c in g.ifs:
                    tv = self.truth(self.ev(c, e2))
                    if tv is None:
                        return False
                    if tv is False:
                        ok = False
                        break
                if ok and not rec(k + 1):
                    return False
            return True
        return rec(0)

    def e_ListComp(self, e, env):
        out = []
        ok = self._comp(e, env, lambda e2: out.append(self.ev(e.elt, e2)))
        return out if ok else Opaque("comprehension")

    e_GeneratorExp = e_ListComp

    def e_SetComp(self, e, env):
        return Opaque("set")

    def e_DictComp(self, e, env):
        out = {}

        def emit(e2):
            k = self.ev(e.key, e2)
            if not _hashable(k):
                raise Undecidable("dict comprehension with an unknown key", e)
            out[k] = self.ev(e.value, e2)
        ok = self._comp(e, env, emit)
        return out if ok else Opaque("dict")

    def e_Yield(self, e, env):
        v = self.ev(e.value, env) if e.value is not None else None
        self.lookup("__yield__", env).append(v)
        return None

    def e_Await(self, e, env):
        return Opaque("await")


class _RecordMethod:
    def __init__(self, rec, fn):
        self.rec, self.fn = rec, fn


class SelfObj(Opaque):
    """the instance a method under evaluation belongs to: its data is opaque, its plain methods are those of the class `methods`
    (name -> FunctionDef), evaluated like any other helper"""
    __slots__ = ("methods", "modname")

    def __init__(self, methods, modname):
        Opaque.__init__(self, "self")
        self.methods, self.modname = dict(methods), modname


def self_object(repo, modname, clsname):
    """SelfObj for the class `clsname` of module `modname` (properties stay opaque attributes)"""
    m = repo.module(modname)
    methods = {}
    for q, f in m.funcs.items():
        if q.startswith(clsname + ".") and "." not in q[len(clsname) + 1:]:
            decos = [d.id if isinstance(d, ast.Name) else getattr(d, "attr", "") for d in f.decorator_list]
            if any(d in ("property", "setter", "cached_property") for d in decos):
                continue
            methods[q[len(clsname) + 1:]] = f
    return SelfObj(methods, m.name)


class _OpaqueAttr(Opaque):
    """attribute of an opaque object: calling it is a method call on an untracked object"""
    __slots__ = ("base", "attr")

    def __init__(self, base, attr):
        super().__init__(attr, deps_of(base))
        self.base, self.attr = base, attr


_MISSING = object()


def _devec(x):
    """nested sequences with Vec values written as their components (np.array of Vec objects is a 2-D array)"""
    if isinstance(x, VecV):
        return list(x.comps)
    if isinstance(x, (list, tuple)):
        return [_devec(e) for e in x]
    return x


def _unwrap_key(key):
    """subscript keys as the array model wants them: np.newaxis is None, index arrays stay arrays"""
    if isinstance(key, tuple):
        return tuple(_unwrap_key(k) for k in key)
    return key


def _hashable(v):
    try:
        hash(v)
    except TypeError:
        return False
    return not is_opaque(v)


def _same(a, b):
    if a is b:
        return True
    if is_opaque(a) or is_opaque(b):
        return False
    if type(a) is not type(b):
        return False
    if isinstance(a, (int, Fraction, str, bool)) or a is None:
        return a == b
    if isinstance(a, tuple) and len(a) == len(b):
        return all(_same(x, y) for x, y in zip(a, b))
    if isinstance(a, Lin):
        return a.key() == b.key()
    if isinstance(a, VecV):
        return len(a.comps) == len(b.comps) and all(_same(x, y) for x, y in zip(a.comps, b.comps))
    return False


# ================================================================================================ index tables
def index_tuple(v):
    """a stored face / edge / cell as a tuple of python ints, or None when an entry is not a decided integer"""
    if isinstance(v, NArr):
        if v.ndim != 1:
            return None
        v = v.items
    if isinstance(v, (tuple, list)) and v and all(isinstance(x, int) and not isinstance(x, bool) for x in v):
        return tuple(v)
    return None


def directed_edges(f):
    return [(f[i], f[(i + 1) % len(f)]) for i in range(len(f))]


def surface_problems(faces, nverts, topo):
    """Combinatorial defects of a face table; topo in {'sphere', 'torus', 'disk', 'annulus', None}.
    -> list of (short name, detail).  Unused vertices are not reported here (they show in the Euler characteristic)."""
    probs = []
    for f in faces:
        if len(set(f)) != len(f):
            probs.append(("face repeats a vertex", f"face {f}"))
    rot = Counter()
    for f in faces:
        m = f.index(min(f))
        rot[tuple(f[m:] + f[:m])] += 1
    dup = sorted(f for f, c in rot.items() if c > 1)
    if dup:
        probs.append(("face listed twice", f"{dup[:4]}"))
    de = Counter(e for f in faces for e in directed_edges(f))
    bad = sorted(e for e, c in de.items() if c > 1)
    if bad:
        probs.append(("a directed edge is used by two faces (faces not consistently oriented)", f"directed edges {bad[:6]} occur twice"))
    und = Counter(tuple(sorted(e)) for f in faces for e in directed_edges(f))
    closed = topo in ("sphere", "torus")
    if closed:
        badu = {e: c for e, c in sorted(und.items()) if c != 2}
        if badu:
            probs.append(("an edge of the closed shape is not shared by exactly two faces", f"{dict(list(badu.items())[:6])}"))
    else:
        badu = {e: c for e, c in sorted(und.items()) if c > 2}
        if badu:
            probs.append(("an edge is shared by more than two faces", f"{dict(list(badu.items())[:6])}"))
    return probs


def euler(faces, nverts):
    und = {tuple(sorted(e)) for f in faces for e in directed_edges(f)}
    return nverts - len(und) + len(faces), len(und)


def components(faces):
    """number of connected components of the used vertices (faces linked through shared vertices)"""
    parent = {}

    def find(x):
        while parent.setdefault(x, x) != x:
            parent[x] = parent[parent[x]]
            x = parent[x]
        return x
    for f in faces:
        for v in f[1:]:
            parent[find(f[0])] = find(v)
    return len({find(x) for x in list(parent)})


def boundary_loops(faces):
    """number of boundary cycles of an oriented edge-manifold table (edges used once), or None if the boundary is not a union of cycles"""
    de = Counter(e for f in faces for e in directed_edges(f))
    border = [e for e in de if (e[1], e[0]) not in de]
    nxt = {}
    for a, b in border:
        if a in nxt:
            return None
        nxt[a] = b
    seen, loops = set(), 0
    for a in list(nxt):
        if a in seen:
            continue
        loops += 1
        x = a
        while x not in seen:
            seen.add(x)
            x = nxt.get(x)
            if x is None:
                return None
    return loops


CHI = {"sphere": 2, "torus": 0, "disk": 1, "annulus": 0}
LOOPS = {"sphere": 0, "torus": 0, "disk": 1, "annulus": 2}


def fit_poly(points, names, max_deg=2):
    """exact polynomial (sym.Poly) of total degree <= max_deg through the points [(env, value)], or None"""
    from ..sym import Poly
    monos = [()]
    for d in range(1, max_deg + 1):
        monos += [tuple(c) for c in itertools.combinations_with_replacement(sorted(names), d)]
    rows = []
    for env, val in points:
        r = []
        for m in monos:
            x = Fraction(1)
            for a in m:
                x *= env[a]
            r.append(x)
        rows.append((r, Fraction(val)))
    if len(rows) < len(monos):
        return None
    # gaussian elimination on the normal (least squares is not needed: look for an exact solution on all points)
    A = [list(r) + [v] for r, v in rows]
    ncol = len(monos)
    piv = []
    r0 = 0
    for c in range(ncol):
        p = next((i for i in range(r0, len(A)) if A[i][c] != 0), None)
        if p is None:
            continue
        A[r0], A[p] = A[p], A[r0]
        pv = A[r0][c]
        A[r0] = [x / pv for x in A[r0]]
        for i in range(len(A)):
            if i != r0 and A[i][c] != 0:
                f = A[i][c]
                A[i] = [x - f * y for x, y in zip(A[i], A[r0])]
        piv.append(c)
        r0 += 1
    for i in range(r0, len(A)):
        if A[i][ncol] != 0:
            return None     # inconsistent: not a polynomial of that degree
    coef = [Fraction(0)] * ncol
    for i, c in enumerate(piv):
        coef[c] = A[i][ncol]
    return Poly({m: c for m, c in zip(monos, coef) if c != 0})


# ================================================================================================ exploration of a generator
class Run:
    """one evaluation of a generator: status in ok / rejected (argument validation raised) / undecidable / crash"""

    def __init__(self, params, status, mesh=None, info="", node=None, interp=None, value=None):
        self.params, self.status, self.mesh, self.info, self.node, self.interp, self.value = params, status, mesh, info, node, interp, value

    def label(self):
        return ", ".join(f"{k}={v}" for k, v in sorted(self.params.items()))

    # ---- tables
    def nverts(self):
        return len(self.mesh.c["vertices"].data)

    def table(self, kind):
        """[(index tuple | None, raw value, node)] of a container"""
        c = self.mesh.c[kind]
        return [(index_tuple(v), v, n) for v, n in zip(c.data, c.nodes)]


def rows(n, k=3, tag="input"):
    """an input array of n points: opaque coordinates that remember the row they belong to"""
    return NArr([Opaque("coordinate", frozenset([(tag, i // k)])) for i in range(n * k)], (n, k), label=tag)


def assignments(ints, switches):
    names = sorted(ints)
    doms = [range(ints[n][0], ints[n][1] + 1) for n in names]
    combos = sorted(itertools.product(*doms), key=lambda t: (sum(t), t))
    for vals in combos:
        for sw in itertools.product((False, True), repeat=len(switches)):
            p = dict(zip(names, vals))
            p.update(zip(switches, sw))
            yield p


def explore(repo, modname, fn, ints, switches=(), fixed=None, self_obj=None, admit=None, stubs=None):
    """Evaluate `fn` for every assignment of the integer parameters `ints` = {name: (lo, hi)} and boolean `switches`;
    `fixed` = {name: value | callable(params) -> value} gives the other arguments (default: the parameter's own default / opaque)."""
    out = []
    for p in assignments(ints, list(switches)):
        if admit is not None and not admit(p):
            continue
        it = Interp(repo)
        it.stubs = dict(stubs or {})
        formal = set(au.params(fn))
        args = {k: v for k, v in p.items() if k in formal}
        for k, v in (fixed or {}).items():
            args[k] = v(p) if callable(v) else v
        try:
            val = it.call(fn, modname, args, self_obj=self_obj)
        except Raised as e:
            out.append(Run(p, "rejected", node=e.node, interp=it))
            continue
        except Undecidable as e:
            out.append(Run(p, "undecidable", info=str(e), node=e.node, interp=it))
            continue
        except Crash as e:
            out.append(Run(p, "crash", info=str(e), node=e.node, interp=it))
            continue
        except RecursionError:
            out.append(Run(p, "undecidable", info="recursion too deep", interp=it))
            continue
        mesh = val if isinstance(val, Mesh) else None
        if mesh is None and isinstance(val, (tuple, list)):
            ms = [x for x in val if isinstance(x, Mesh)]
            mesh = ms[0] if len(ms) == 1 else None
        if mesh is None:
            out.append(Run(p, "undecidable", info="the returned mesh is not the one built by the generator", interp=it, value=val))
            continue
        out.append(Run(p, "ok", mesh=mesh, interp=it, value=val))
    return out
